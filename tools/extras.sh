#!/bin/bash
# extras.sh [quick|thorough]: the extra specifications beyond the listed properties (DESIGN.md section 4x); not part of MANIFEST.checks
tier=${1:-quick}; rc=0
cd "$(dirname "$0")/.."
for id in X01 X02 X03 X04 X05 X06 X07 X08 X09 X10 X11 X12 X13 X14; do
  [ -f harness/drivers/${id,,}.py ] || continue
  timeout 3600 ./check $id --tier $tier 2>&1 | grep -v "^20[0-9][0-9]-" | tail -3; r=${PIPESTATUS[0]}; [ $r -ne 0 ] && rc=1
done
exit $rc
