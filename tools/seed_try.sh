#!/bin/bash
# seed_try.sh <name> [check args]: apply seeded/<name>/patch.diff to a SCRATCH worktree of /repo's HEAD, run the
# property's check against it (COBA_REPO), remove the worktree.  /repo itself is never touched (other checks may be
# running against it).
n=$1; shift; id=${n:0:3}
wt=/tmp/wt/try-$n
git -C /repo worktree remove --force $wt 2>/dev/null; rm -rf $wt
git -C /repo worktree add -q --detach $wt HEAD || exit 2
trap 'git -C /repo worktree remove --force '$wt' 2>/dev/null; git -C /repo worktree prune' EXIT
git -C $wt apply /verif/seeded/$n/patch.diff || { echo "$n: patch does not apply"; exit 2; }
mkdir -p /tmp/seedtry
cd /verif && cp evidence/$id.json /tmp/seedtry/$id.evidence.keep 2>/dev/null
COBA_REPO=$wt timeout 1800 ./check $id "$@" > /tmp/seedtry/$n.log 2>&1; rc=$?
grep -c '^VIOLATION' /tmp/seedtry/$n.log | sed "s/^/$n: rc=$rc violations=/"
grep '^VIOLATION' /tmp/seedtry/$n.log | head -3 | cut -c1-400
cp /verif/evidence/$id.json /tmp/seedtry/$n.evidence.json 2>/dev/null
cp /tmp/seedtry/$id.evidence.keep /verif/evidence/$id.json 2>/dev/null     # keep the clean tree's evidence
exit 0
