#!/bin/bash
# seed_try.sh <name> [check args]: apply seeded/<name>/patch.diff to /repo, run the property's check, always undo.
n=$1; shift; id=${n:0:3}
cd /repo && git diff --quiet || { echo "/repo dirty"; exit 2; }
git -C /repo apply /verif/seeded/$n/patch.diff || exit 2
trap 'git -C /repo checkout -- .' EXIT
cd /verif && mkdir -p /tmp/seedtry && ./check $id "$@" > /tmp/seedtry/$n.log 2>&1; rc=$?
grep -c '^VIOLATION' /tmp/seedtry/$n.log | sed "s/^/$n: rc=$rc violations=/"
grep '^VIOLATION' /tmp/seedtry/$n.log | head -3 | cut -c1-400
cp /verif/evidence/$id.json /tmp/seedtry/$n.evidence.json 2>/dev/null
exit 0
