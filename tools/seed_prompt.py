#!/usr/bin/env python3
"""Prints the prompt given to a seeding sub-agent: property text + its scratch worktree only."""
import json, sys
pid, wt = sys.argv[1], sys.argv[2]
extra = sys.argv[3] if len(sys.argv) > 3 else ""
p = next(json.loads(l) for l in open('/verif/properties.jsonl') if json.loads(l)['id'] == pid)
print(f"""You are helping to evaluate a verification effort by playing the role of a developer who introduces a subtle regression.

Work ONLY inside the scratch git worktree {wt} (a checkout of the Python project VowpalWabbit/coba, a framework for benchmarking contextual bandit learners). Never read or write /repo or /verif. Python is /venv/bin/python; the package is installed in editable mode from another directory, so ALWAYS run with `PYTHONPATH={wt}` (check once with `PYTHONPATH={wt} /venv/bin/python -c 'import coba; print(coba.__file__)'` - it must print a path under {wt}). There is no network. Optional packages (numpy, pandas, vowpalwabbit, torch, cloudpickle, scipy) are NOT installed.

The project should satisfy this semantic property:

  id: {p['id']}
  title: {p['title']}
  statement: {p['statement']}
  quantified over: {p['quantifier']['text']}
  code it is anchored in: {', '.join(p['anchors']['files'])}

Your task: make ONE small, realistic source change (the kind of thing a refactor, an 'optimisation' or a careless bug fix could introduce; typically 1-15 changed lines in the coba/ package, not in tests) that BREAKS this property, such that:
  1. the code still imports and the project's existing test suite still passes exactly as before. Run it with:
       cd {wt} && PYTHONPATH={wt} /venv/bin/python -m pytest -q -p no:cacheprovider --timeout=900 --continue-on-collection-errors -x -q coba/tests 2>&1 | tail -15
     (On the unchanged tree exactly these fail/error and may keep failing: test_experiments_core.py collection error, Performance_Tests::test_simple_evaluation, 3 HttpSource_Tests, and possibly 1-2 other network/performance tests; everything else must still pass. Run the suite on the unchanged tree first to see the baseline, ~50 s.)
  2. the breakage needs something SPECIFIC to manifest - a particular interleaving, a crash or fault at a particular point, a multi-step sequence of operations, an unusual-but-legal input, or two cooperating sites that each look fine alone - not something ordinary use or the obvious first test would expose at once.
  3. the change really violates the property as stated (not some other behaviour), for inputs inside the property's stated domain.
{extra}
Deliverables, all written into the directory {wt}/_seed/ :
  - patch.diff : output of `git -C {wt} diff -- coba` (the source change only)
  - demo.py : a self-contained script, runnable as `PYTHONPATH=<tree> /venv/bin/python demo.py`, that exits 0 (prints PASS) on the unchanged tree and exits 1 (prints FAIL and why) on the changed tree, deterministic (no reliance on wall-clock races; if a schedule is needed, force it). Verify both directions yourself (NEVER use `git stash` - the stash is shared with other worktrees of the same repository and other people are working in those; instead save `git diff -- coba > _seed/patch.diff`, then `git apply -R _seed/patch.diff` to test the unchanged tree and `git apply _seed/patch.diff` to re-apply).
  - notes.md : 5-15 lines: what you changed, why the existing tests do not notice, what exactly is needed to manifest, which sentence of the property is violated.
Leave the worktree WITH the change applied. In your final answer give the one-paragraph summary from notes.md and the result of the three verifications (tests pass with change; demo passes without; demo fails with).""")
