#!/bin/bash
# seed_keep.sh <name e.g. C19a>: confirm a sub-agent's seeded change in its worktree and keep it under /verif/seeded/<name>/
# confirms: (1) repo suite still matches baseline with the change, (2) demo fails with, (3) demo passes without.
set -u
n=$1; wt=/tmp/wt/$n; out=/verif/seeded/$n
[ -f $wt/_seed/patch.diff ] || { echo "no patch"; exit 2; }
mkdir -p $out
cd $wt
git diff -- coba > /tmp/wt/$n.patch
cp /tmp/wt/$n.patch $out/patch.diff
cp $wt/_seed/demo.py $out/demo.py; cp $wt/_seed/notes.md $out/notes.md 2>/dev/null
PYTHONPATH=$wt /venv/bin/python $out/demo.py > /tmp/wt/$n.with.log 2>&1; with=$?
git apply -R /tmp/wt/$n.patch
PYTHONPATH=$wt /venv/bin/python $out/demo.py > /tmp/wt/$n.without.log 2>&1; without=$?
git apply /tmp/wt/$n.patch
/verif/tools/baseline_off.sh $wt > /tmp/wt/$n.suite.log 2>&1; suite=$?
echo "$n: demo_with_change_exit=$with demo_without_exit=$without suite_with_change_exit=$suite ($(head -1 /tmp/wt/$n.suite.log))"
echo "{\"demo_with_change_exit\": $with, \"demo_without_change_exit\": $without, \"suite_with_change_matches_baseline\": $([ $suite = 0 ] && echo true || echo false)}" > $out/confirm.json
