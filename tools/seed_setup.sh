#!/bin/bash
# seed_setup.sh <letter> [ids...]: make /tmp/wt/<ID><letter> worktrees of /repo's HEAD and write each sub-agent's prompt to
# /tmp/wt/<ID><letter>.prompt (property text + worktree + the mechanisms earlier seeds of that property already used).
L=$1; shift
ids=("$@"); [ ${#ids[@]} -eq 0 ] && ids=(C01 C02 C03 C04 C05 C06 C07 C08 C09 C10 C11 C12 C13 C14 C15 C16 C17 C18 C19 C20)
mkdir -p /tmp/wt
for id in "${ids[@]}"; do
  n=$id$L; wt=/tmp/wt/$n
  git -C /repo worktree remove --force $wt 2>/dev/null; rm -rf $wt
  git -C /repo worktree add -q --detach $wt HEAD || exit 2
  used=""
  for d in /verif/seeded/$id?; do
    [ -f $d/notes.md ] && used="$used    - $(grep -v '^\s*$' $d/notes.md | head -2 | tr '\n' ' ' | sed 's/[#*`]//g' | cut -c1-260)
"
  done
  extra="  4. Earlier rounds ALREADY used the following mechanisms for this property; choose a DIFFERENT code site and a DIFFERENT mechanism (another class / function / code path among the anchored files, another kind of trigger):
$used"
  /verif/tools/seed_prompt.py $id $wt "$extra" > /tmp/wt/$n.prompt
done
ls /tmp/wt/*.prompt | wc -l
