#!/bin/bash
# seed_round.sh <name>...: for seeds delivered in /tmp/wt/<name>/_seed: confirm + keep (5 at a time), remove the worktrees,
# then try each against its own check (2 lanes). Summary on stdout.
names=("$@")
cd /tmp
i=0
while [ $i -lt ${#names[@]} ]; do
  for n in "${names[@]:$i:5}"; do ( /verif/tools/seed_keep.sh $n > /tmp/wt/$n.keep.log 2>&1 ) & done
  wait; i=$((i+5))
done
for n in "${names[@]}"; do cat /tmp/wt/$n.keep.log | tail -1; git -C /repo worktree remove --force /tmp/wt/$n 2>/dev/null; done
git -C /repo worktree prune
cd /verif
half=$(( (${#names[@]} + 1) / 2 ))
( for n in "${names[@]:0:$half}"; do tools/seed_try.sh $n; done > /tmp/round.$$.a.log 2>&1 ) &
( for n in "${names[@]:$half}"; do tools/seed_try.sh $n; done > /tmp/round.$$.b.log 2>&1 ) &
wait
cat /tmp/round.$$.a.log /tmp/round.$$.b.log | cut -c1-330
