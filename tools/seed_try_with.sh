#!/bin/bash
# seed_try_with.sh <seed name> <check id> [check args]: like seed_try.sh, but runs ANOTHER property's check against the seed
n=$1; id=$2; shift; shift
wt=/tmp/wt/tryw-$n-$id
git -C /repo worktree remove --force $wt 2>/dev/null; rm -rf $wt
git -C /repo worktree add -q --detach $wt HEAD || exit 2
trap 'git -C /repo worktree remove --force '$wt' 2>/dev/null; git -C /repo worktree prune' EXIT
git -C $wt apply /verif/seeded/$n/patch.diff || { echo "$n: patch does not apply"; exit 2; }
mkdir -p /tmp/seedtry
cd /verif && cp evidence/$id.json /tmp/seedtry/$id.evidence.keep2 2>/dev/null
COBA_REPO=$wt timeout 1800 ./check $id "$@" > /tmp/seedtry/$n-$id.log 2>&1; rc=$?
grep -c '^VIOLATION' /tmp/seedtry/$n-$id.log | sed "s/^/$n under $id: rc=$rc violations=/"
grep '^VIOLATION' /tmp/seedtry/$n-$id.log | head -3 | cut -c1-400
cp /tmp/seedtry/$id.evidence.keep2 /verif/evidence/$id.json 2>/dev/null
exit 0
