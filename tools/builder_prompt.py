#!/usr/bin/env python3
"""Prompt for a sub-agent that BUILDS the check of one property inside this framework."""
import json, sys
pid = sys.argv[1]; spec = sys.argv[2]; seeds = sys.argv[3:]  # e.g. C20 Interactions C20a
p = next(json.loads(l) for l in open('/verif/properties.jsonl') if json.loads(l)['id'] == pid)
print(f"""You are extending a verification framework (model-based verification with explicit TLA+ specifications, checked with TLC and bound to the code by replaying spec-generated cases / validating recorded traces) for the Python project VowpalWabbit/coba checked out at /repo. The framework lives in /verif. Your job: build the check for ONE property, {pid}.

Property {pid}: {p['title']}
Statement: {p['statement']}
Quantified over: {p['quantifier']['text']}
Why the unit tests cannot settle it: {p['why_tests_cant']}
Anchored in: {', '.join(p['anchors']['files'])}

FIRST read /verif/BUILDING.md completely (conventions, ctx API, TLC helpers, pitfalls - they will save you hours), then /verif/DESIGN.md: sections 1-3, the section "### {pid}" in section 4 (the agreed design for this property: what the spec contains, what TLC checks, how it is bound to the code, the domain exclusions and oracle details) and the rows for {pid} in section 9 (defect candidates already suspected in the unchanged code). Then read the worked examples named in BUILDING.md and the anchored source files in /repo.

Deliverables (create ONLY these files; do not edit any other file in /verif; do NOT run any git command in /verif or /repo):
  1. /verif/spec/{spec}.tla (+ /verif/spec/{spec}.cfg, optionally /verif/spec/MC_{spec}.tla): an explicit TLA+ specification of the behaviour the property describes - the spec is the ORACLE: it defines, in TLA+, what the right answer is for every input / history in the property's domain (do not compute expectations in Python; Python only converts values and compares). It must also state, as TLC-checked invariants, whatever design-level facts make sense (idempotence, totality, conservation ...). Write it to mirror the code's structure where the property is about a state machine (one action per public call), with comments citing the code lines it mirrors.
  2. /verif/harness/drivers/{pid.lower()}.py: runs TLC (bounded-exhaustive enumeration for quick; larger bounds and/or -simulate for thorough), takes the generated cases / behaviours, replays each one into the REAL coba code (import coba normally - PYTHONPATH is set by ./check), compares the implementation's result with the spec's after every step, and reports through ctx.violation(signature, what, replay_obj). Count cases with ctx.case, set ctx.traces, ctx.sample, ctx.exhaustive, ctx.assumptions as described in BUILDING.md.
  3. /verif/tools/claims/{pid}.json: {{"spec": "<files>", "text": "<what assurance the check gives, 4-8 sentences>", "note": "<what is trusted / assumed>", "technique": "<few words>"}} (used for MANIFEST.json).
  4. /verif/tools/claims/{pid}.report.md: what you built, the bounds (cases / states / seconds for quick and thorough), every violation signature your check reports on the UNCHANGED tree with one concrete failing input each and your judgement (genuine defect of coba vs. limitation you excluded and why), a proposed minimal source fix (as a diff in the report, NOT applied) for each genuine defect, and what is not covered.

Hard rules:
  * NEVER modify /repo (other work is running against it concurrently). To try a source change (a proposed fix, or a seeded regression) make your own scratch worktree: `git -C /repo worktree add --detach /tmp/wt/build-{pid} HEAD`, edit / `git apply` there, and run `COBA_REPO=/tmp/wt/build-{pid} timeout 900 ./check {pid}` from /verif. Remove it when done (`git -C /repo worktree remove --force /tmp/wt/build-{pid}`). Never use `git stash`.
  * Always wrap runs in `timeout` (quick must finish in <= 120 s, thorough in <= 25 min on 16 cores). Python is /venv/bin/python (no numpy/pandas/cloudpickle/vowpalwabbit/torch). No network.
  * No false alarms: the check may demand only what the property states on its stated domain (see the domain notes in DESIGN.md). When the unchanged tree disagrees with your spec decide carefully which of the two is wrong: read the code and the property again. Report genuine defects (do not hide them, do not special-case them in the spec); each distinct defect must get its own stable signature string so that it can be listed as a known finding while any other violation is still reported.
  * The check must be deterministic (seed everything from ctx.seed; PYTHONHASHSEED=0 is set).
  * Validate your check: (a) `timeout 900 ./check {pid}` on the unchanged tree gives exit 0 or only the genuine-defect signatures you report; (b) for each seeded regression listed below apply /verif/seeded/<name>/patch.diff in YOUR scratch worktree and confirm that the check reports a violation there (rc=1) - if it does not, strengthen the spec/driver (within the property's domain) until it does, or explain in the report why it legitimately cannot; (c) invent 2-3 further small mutations of the anchored code yourself (operator flips, off-by-one, dropped branch) in the scratch worktree and confirm they are caught; list them in the report.
Seeded regressions to test against: {', '.join(seeds) if seeds else '(none yet)'}

When finished, reply with the content of the report (concise).""")
