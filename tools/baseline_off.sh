#!/bin/bash
# Runs the repository's pinned test suite with the verification guard OFF and compares with BASELINE.json.
# exit 0 iff every stable_pass test passes.
unset COBA_VERIF
out=$(mktemp -d /tmp/coba-baseline.XXXXXX)
trap 'rm -rf "$out"' EXIT
R=${1:-/repo}
cd "$R" && PYTHONPATH="$R" /venv/bin/python -m pytest -ra -q -p no:cacheprovider --timeout=900 --continue-on-collection-errors --junitxml="$out/j.xml" >"$out/log" 2>&1
/venv/bin/python - "$out/j.xml" <<'PY'
import sys, json, xml.etree.ElementTree as ET
base = set(json.load(open('/root/.vp/BASELINE.json'))['stable_pass'])
ok = set()
for tc in ET.parse(sys.argv[1]).getroot().iter('testcase'):
    if not any(c.tag in ('failure','error','skipped') for c in tc):
        ok.add(f"{tc.get('classname')}::{tc.get('name')}")
missing = sorted(base - ok)
print(f"baseline: {len(base)} expected, {len(base & ok)} passed, {len(missing)} missing")
for m in missing[:20]: print("  MISSING", m)
sys.exit(1 if missing else 0)
PY
