#!/usr/bin/env python3
"""Regenerates /verif/MANIFEST.json from the CLAIMED table below (one place to keep it valid)."""
import json, os
ROOT = os.path.dirname(os.path.dirname(os.path.abspath(__file__)))
props = [json.loads(l) for l in open(os.path.join(ROOT, "properties.jsonl"))]
MC = "model_checking"
CLAIMED = {
 "C08": dict(spec="Multiproc.tla + MultiprocTrace.tla", design="4/C08",
   text="TLC checks Multiproc.tla (one action per queue put/get, event wait, join and local decision of Multiprocessor.filter: loader, loader callback, workers incl. retirement and restart, per-worker callbacks, consumer incl. early abandon) exhaustively over a grid of (n_processes, maxtasksperchild, item count, fault subsets, abandon) chosen in Init: exactly-once, conservation of items, <= Max per worker, one out-poison, raise-iff-fault, and termination of the call under weak fairness. The repository's unmodified Multiprocessor.filter / ProcessLine.run / callbacks then run on a virtual multiprocessing layer under seeded-random and bounded-DFS schedules over the same grid; each execution is a trace (events carry a snapshot of queue lengths, _n_procs, #exceptions, stop flag) that TLC must accept against MultiprocTrace.tla with every invariant evaluated per state; a schedule where the caller cannot progress is a deterministic hang verdict. A few real spawn runs are judged on schedule-independent observables incl. per-pid handled counts.",
   note="Trusted: the virtual layer's granularity (one scheduling point per queue operation / wait / join; the callback body is atomic as under the GIL); real OS schedules are sampled, not enumerated; non-zero worker exit codes and Ctrl-C are outside the model.",
   technique="TLA+ spec model-checked with TLC (safety + liveness); traces of the real code under a virtual scheduler validated by TLC against the trace spec"),
 "C19": dict(spec="Cacher.tla + CacherTrace.tla", design="4/C19",
   text="TLC checks Cacher.tla (one action per critical section / inner-cache operation of ConcurrentCacher) exhaustively for all two-caller programs (quick: 1 op each, thorough: <=2 ops each) plus curated three-caller programs over equal, distinct and colliding keys, memory-like and disk-like: mutual exclusion, no partial serve, single flight, lock-table/_locks agreement, all released, and termination under weak fairness. The real ConcurrentCacher (real MemoryCacher / DiskCacher inside) is then run under a deterministic virtual scheduler (random + bounded-DFS schedules, 2-3 threads, really colliding keys); every execution is a trace that TLC must accept against CacherTrace.tla with all invariants evaluated per state; deadlock is a scheduler verdict. Every byte cut of a real disk entry is enumerated.",
   note="Trusted: the virtual scheduler's granularity (one scheduling point per lock acquisition, sleep, inner-cache operation, body boundary); threads stand for processes (same code path through the injected lock/list).",
   technique="TLA+ spec model-checked with TLC; traces of the real code under a virtual scheduler validated by TLC against the trace spec"),
}
checks = []
for p in props:
    c = CLAIMED.get(p["id"])
    if not c: continue
    checks.append({"property_id": p["id"], "quick_cmd": "./check %s --tier quick" % p["id"], "thorough_cmd": "./check %s --tier thorough" % p["id"],
                   "evidence_file": "/verif/evidence/%s.json" % p["id"], "replay_cmd_template": "./check %s --replay {path}" % p["id"],
                   "engine": "tlc+" + c["spec"].split(".")[0].lower(),
                   "level_claimed": {"category": c.get("level", MC), "text": c["text"], "design_ref": "DESIGN.md section " + c["design"]},
                   "level_note": c["note"], "technique": c["technique"]})
NA_REASON = json.load(open(os.path.join(ROOT, "tools", "not_applicable.json")))
m = {"version": 1, "setup_cmd": "true",
     "hooks": {"guard": "COBA_VERIF", "enable": "no source hooks are needed: checks import /repo's working tree (PYTHONPATH=/repo) and substitute module-level primitives / constructor arguments from outside; ./check exports COBA_VERIF=1 for symmetry", "baseline_off_cmd": "/verif/tools/baseline_off.sh", "source_commits": [], "add_only": True},
     "engines": [{"name": "tlc", "path": "/opt/veriftools/tla/tla2tools.jar", "serves_properties": sorted(CLAIMED), "kind_free_text": "TLA+ specifications in /verif/spec model-checked by TLC; /verif/harness binds them to the code (trace validation, behaviour replay, virtual scheduler)"}],
     "checks": checks,
     "notes": "See DESIGN.md. ./check <ID> --tier quick|thorough; exit 0 held, 1 violation (VIOLATION line), 2 machinery failure.",
     "not_applicable": [{"property_id": p["id"], "reason": NA_REASON.get(p["id"], "check not built yet (build in progress; plan in DESIGN.md section 4)")} for p in props if p["id"] not in CLAIMED]}
json.dump(m, open(os.path.join(ROOT, "MANIFEST.json"), "w"), indent=1)
import jsonschema
jsonschema.validate(m, json.load(open("/root/.vp/MANIFEST.schema.json")))
print("MANIFEST ok: claimed", sorted(CLAIMED), "not_applicable", len(m["not_applicable"]))
