"""Thin, deterministic wrapper around TLC (tla2tools.jar).

Everything the checks learn from TLC goes through `run()`: state counts come from TLC's own summary
line, per-action coverage from `-coverage`, generated behaviours / decision-table cases / trace
acceptances from single-line `PrintT(ToJson(..))` output (a JSON string per line, so 16 workers
cannot interleave inside a value)."""
import json, os, re, subprocess, shutil, time

JAR = "/opt/veriftools/tla/tla2tools.jar"
CM = "/opt/veriftools/tla/CommunityModules-deps.jar"
SPEC_DIR = os.path.join(os.path.dirname(os.path.dirname(os.path.abspath(__file__))), "spec")


class TLCError(Exception):
    """The machinery failed (parse error, TLC crash, timeout) - never a property violation."""


class Result:
    def __init__(self):
        self.generated = 0; self.distinct = 0; self.depth = 0; self.queue = 0
        self.violations = []   # [{'kind','name','trace'}]
        self.json = []         # decoded PrintT(ToJson(x)) values
        self.coverage = {}     # action name -> [distinct, generated]
        self.wall = 0.0; self.cmd = ""; self.out = ""; self.rc = None

    @property
    def ok(self): return not self.violations


def _classpath():
    cps = [JAR]
    d = os.path.dirname(JAR)
    for f in sorted(os.listdir(d)):
        if f.endswith(".jar") and f != os.path.basename(JAR): cps.append(os.path.join(d, f))
    return ":".join(cps)


_SUMMARY = re.compile(r"^(\d+) states generated, (\d+) distinct states found, (\d+) states left on queue")
_DEPTH = re.compile(r"^The depth of the complete state graph search is (\d+)")
_COV = re.compile(r"^<(\w+) line (\d+), col \d+ to line \d+, col \d+ of module (\w+)>: (\d+):(\d+)")
_COV0 = re.compile(r"^<(\w+) line (\d+), col \d+ to line \d+, col \d+ of module (\w+)>: (\d+)$")


def run(module, cfg, scratch, *, workers=8, env=None, simulate=None, depth=None, seed=0,
        coverage=False, timeout=1800, deadlock=None, extra=(), continue_=False, dfid=None, heap="6g",
        deque=False, spec_dir=None):
    """Run TLC on spec/<module>.tla with spec/<cfg>. `simulate`: None or dict(num=..[, file=..])."""
    spec_dir = spec_dir or SPEC_DIR
    os.makedirs(scratch, exist_ok=True)
    meta = os.path.join(scratch, "meta_%s_%d" % (os.path.splitext(os.path.basename(cfg))[0], int(time.time()*1e6) % 10**9))
    jopts = ["-XX:+UseParallelGC", "-Xmx" + heap, "-Xss16m"]
    if deque: jopts.append("-Dtlc2.tool.queue.IStateQueue=StateDeque")
    cmd = ["java"] + jopts + ["-cp", _classpath(), "tlc2.TLC", "-workers", str(workers), "-metadir", meta,
                              "-noGenerateSpecTE", "-config", os.path.join(spec_dir, cfg), "-seed", str(seed)]
    if simulate is not None:
        s = ",".join("%s=%s" % kv for kv in simulate.items())
        cmd += ["-simulate", s]
        if depth: cmd += ["-depth", str(depth)]
    if dfid is not None: cmd += ["-dfid", str(dfid)]
    if coverage: cmd += ["-coverage", "1"]
    if deadlock is True: cmd += ["-deadlock"]
    if continue_: cmd += ["-continue"]
    cmd += list(extra) + [os.path.join(spec_dir, module + ".tla")]
    e = dict(os.environ); e.update(env or {})
    e.pop("JAVA_TOOL_OPTIONS", None)
    r = Result(); r.cmd = " ".join(cmd)
    t0 = time.time()
    try:
        p = subprocess.run(cmd, cwd=spec_dir, env=e, stdout=subprocess.PIPE, stderr=subprocess.STDOUT, timeout=timeout, text=True, errors="replace")
    except subprocess.TimeoutExpired as ex:
        shutil.rmtree(meta, ignore_errors=True)
        raise TLCError("TLC timed out after %ss: %s" % (timeout, r.cmd))
    r.wall = time.time() - t0; r.out = p.stdout; r.rc = p.returncode
    shutil.rmtree(meta, ignore_errors=True)
    _parse(r)
    # rc: 0 ok, 10 assumption, 11 deadlock, 12 safety, 13 liveness; others are machinery failures
    if p.returncode not in (0, 10, 11, 12, 13) or (p.returncode != 0 and not r.violations):
        tail = "\n".join(p.stdout.splitlines()[-40:])
        raise TLCError("TLC failed rc=%s\n%s\n%s" % (p.returncode, r.cmd, tail))
    return r


def _parse(r):
    lines = r.out.splitlines()
    i = 0; cur = None
    while i < len(lines):
        ln = lines[i]
        if ln.startswith('"') and ln.endswith('"') and len(ln) > 1:
            try:
                s = json.loads(ln)
                r.json.append(json.loads(s))
            except Exception:
                pass
        m = _SUMMARY.match(ln)
        if m: r.generated, r.distinct, r.queue = int(m.group(1)), int(m.group(2)), int(m.group(3))
        m = _DEPTH.match(ln)
        if m: r.depth = int(m.group(1))
        m = re.match(r"^The number of states generated: (\d+)", ln)   # simulation mode
        if m: r.generated = max(r.generated, int(m.group(1)))
        m = _COV.match(ln)
        if m:
            k = m.group(1); c = r.coverage.setdefault(k, [0, 0]); c[0] += int(m.group(4)); c[1] += int(m.group(5))
        else:
            m = _COV0.match(ln)
            if m and m.group(1) != "Init": r.coverage.setdefault(m.group(1), [0, 0])
        if ln.startswith("Error:"):
            kind = None; name = ""
            mm = re.match(r"Error: Invariant (\S+) is violated", ln)
            if mm: kind, name = "invariant", mm.group(1)
            elif "Action property" in ln:
                mm = re.search(r"Action property (\S+)", ln); kind, name = "action_property", (mm.group(1) if mm else "")
            elif "Temporal properties were violated" in ln: kind = "liveness"
            elif "Deadlock reached" in ln: kind = "deadlock"
            elif "Assumption" in ln: kind = "assumption"
            elif "The behavior up to this point is" in ln or "The following behavior constitutes a counter-example" in ln: kind = None
            elif "postcondition" in ln.lower(): kind, name = "postcondition", ln
            else:
                # evaluation errors etc. are machinery failures unless followed by a trace of an invariant
                kind = "error"; name = ln
            if kind:
                cur = {"kind": kind, "name": name, "trace": []}
                r.violations.append(cur)
        elif cur is not None and (ln.startswith("State ") or ln.startswith("/\\ ") or ln.startswith("  ") or re.match(r"^\w+ = ", ln)):
            if len(cur["trace"]) < 400: cur["trace"].append(ln)
        i += 1
    errs = [v for v in r.violations if v["kind"] == "error"]
    if errs:
        raise TLCError("TLC evaluation error: %s\n%s" % (errs[0]["name"], "\n".join(lines[-30:])))


def sany(module, spec_dir=None):
    spec_dir = spec_dir or SPEC_DIR
    p = subprocess.run(["java", "-cp", _classpath(), "tla2sany.SANY", module + ".tla"], cwd=spec_dir, stdout=subprocess.PIPE, stderr=subprocess.STDOUT, text=True)
    return p.returncode == 0 and "Semantic errors" not in p.stdout and "***Parse Error***" not in p.stdout, p.stdout
