"""Shared run context for every check: tier/seed, scratch, TLC bookkeeping, verdicts, evidence."""
import json, os, sys, time, hashlib, shutil, tempfile, traceback

ROOT = os.path.dirname(os.path.dirname(os.path.abspath(__file__)))
KNOWN = os.path.join(ROOT, "known_findings.json")


class MachineryError(Exception):
    pass


class Ctx:
    def __init__(self, pid, tier, seed, replay=None):
        self.pid = pid; self.tier = tier; self.seed = seed; self.replay = replay
        self.t0 = time.time()
        self.scratch = tempfile.mkdtemp(prefix="coba-verif-%s-" % pid)
        self.states = 0; self.transitions = 0; self.traces = 0; self.evaluations = 0
        self.distinct = set(); self.samples = []; self.viol = []; self.known_hit = {}
        self.tlc_runs = []; self.notes = []; self.exhaustive = None; self.extra = {}
        self.assumptions = []
        kf = json.load(open(KNOWN)) if os.path.exists(KNOWN) else {"known": [], "fixed": []}
        self.known = {k["signature"]: k for k in kf.get("known", []) if k["property"] == pid}

    @property
    def quick(self): return self.tier == "quick"

    def pick(self, quick, thorough): return quick if self.tier == "quick" else thorough

    # ---- TLC bookkeeping ----
    def add_tlc(self, name, r, required_actions=()):
        """Record a model-checking run; a required action that was never taken makes the run vacuous."""
        self.states += r.distinct; self.transitions += r.generated
        self.tlc_runs.append({"name": name, "generated": r.generated, "distinct": r.distinct, "depth": r.depth,
                              "wall_s": round(r.wall, 2)})
        missing = [a for a in required_actions if r.coverage.get(a, [0, 0])[1] == 0]
        if required_actions and missing:
            raise MachineryError("vacuous model run %s: actions never taken: %s" % (name, missing))

    def case(self, key=None, nontrivial=True):
        self.evaluations += 1
        if nontrivial and key is not None:
            if len(self.distinct) < 2_000_000: self.distinct.add(key if isinstance(key, (str, int, tuple)) else json.dumps(key, sort_keys=True, default=str))

    def sample(self, obj, limit=6):
        if len(self.samples) < limit: self.samples.append(obj)

    # ---- verdicts ----
    def violation(self, signature, what, replay_obj):
        """A case the spec rejects.  Known findings are matched by signature and only announced."""
        if signature in self.known:
            self.known_hit.setdefault(signature, 0); self.known_hit[signature] += 1
            return False
        self.sigcount = getattr(self, "sigcount", {}); self.sigcount[signature] = self.sigcount.get(signature, 0) + 1
        if self.sigcount[signature] > 3 or len([v for v in self.viol if v]) >= 60: self.viol.append(None); return True
        d = os.path.join(ROOT, "replays", self.pid); os.makedirs(d, exist_ok=True)
        body = json.dumps({"property": self.pid, "signature": signature, "what": what, "seed": self.seed, "tier": self.tier,
                           "case": replay_obj}, indent=1, default=str, sort_keys=True)
        path = os.path.join(d, hashlib.sha1(body.encode()).hexdigest()[:12] + ".json")
        open(path, "w").write(body)
        self.viol.append((signature, what, path))
        return True

    def finish(self, level="model_checking", rule="", extra_cov=None):
        for sig, n in sorted(self.known_hit.items()):
            print("KNOWN-FINDING: property=%s %s [%s] (%d cases)" % (self.pid, self.known[sig]["what"], sig, n))
        nviol = len(self.viol)
        for v in self.viol:
            if v: print("VIOLATION property=%s replay=%s   # %s: %s" % (self.pid, v[2], v[0], str(v[1])[:300]))
        for sig, k in sorted(getattr(self, "sigcount", {}).items()):
            print("  violations by signature: %6d  %s" % (k, sig))
        cov = {"states": self.states, "transitions": self.transitions,
               "traces_validated_against_impl": self.traces,
               "evaluations": self.evaluations, "distinct_nontrivial": len(self.distinct),
               "rule": rule, "samples": self.samples or ["(none)"], "tlc_runs": self.tlc_runs}
        if self.exhaustive is not None: cov["exhaustive"] = bool(self.exhaustive)
        cov.update(self.extra); cov.update(extra_cov or {})
        ev = {"property_id": self.pid, "tier": self.tier, "seed": self.seed, "level": level, "coverage": cov,
              "assumptions": self.assumptions, "wall_s": round(time.time() - self.t0, 2), "violations": nviol,
              "known_findings_seen": sorted(self.known_hit), "notes": self.notes}
        os.makedirs(os.path.join(ROOT, "evidence"), exist_ok=True)
        with open(os.path.join(ROOT, "evidence", self.pid + ".json"), "w") as f:
            json.dump(ev, f, indent=1, default=str)
        shutil.rmtree(self.scratch, ignore_errors=True)
        print("%s %s: states=%d transitions=%d impl_traces=%d cases=%d distinct=%d violations=%d known=%d wall=%.1fs" % (
            self.pid, self.tier, self.states, self.transitions, self.traces, self.evaluations, len(self.distinct), nviol,
            len(self.known_hit), time.time() - self.t0))
        return 1 if nviol else 0


def main(argv):
    import argparse, importlib
    ap = argparse.ArgumentParser()
    ap.add_argument("pid"); ap.add_argument("--tier", default=os.environ.get("VERIF_TIER", "quick"), choices=["quick", "thorough"])
    ap.add_argument("--replay", default=None)
    a = ap.parse_args(argv)
    seed = int(os.environ.get("VERIF_SEED", "0") or 0)
    pid = a.pid.upper()
    ctx = Ctx(pid, a.tier, seed, a.replay)
    try:
        mod = importlib.import_module("harness.drivers." + pid.lower())
        mod.run(ctx)
        rc = ctx.finish(**getattr(mod, "FINISH", {}))
    except Exception:
        traceback.print_exc()
        shutil.rmtree(ctx.scratch, ignore_errors=True)
        print("MACHINERY-FAILURE property=%s (exit 2; not a verdict on the property)" % pid)
        rc = 2
    sys.stdout.flush()
    os._exit(rc)   # daemon threads of aborted virtual schedules must not keep the process alive


if __name__ == "__main__":
    main(sys.argv[1:])
