"""X03 - recipe construction and environment templates: spec/Recipes.tla.

Recipes.tla is the oracle: for a recipe (a JSON value) it DEFINES what JsonMakerV1.make / JsonMakerV2.make(strict) construct
over a registry of recording classes - a tree (class name, positional values, keyword values, recursively) or a rejection - and
for a template document {"variables", "environments"} with user overrides the list of source|filter.. pipelines that
EnvironmentsTemplateV1 / EnvironmentsTemplateV2 / Environments.from_template give.  TLC enumerates the bounded grammars (one
initial state per case), checks the design facts on the oracle itself (totality, inner-most-first, one object per "for" value,
V1/V2 agreement on the common recipes, cross-product order, stable seed order, V2-then-V1 selection) and prints every case with
its expected outcomes.  The driver converts each case to Python JSON values, runs the REAL makers / templates with a registry
holding the recording classes and compares trees / pipelines / exception class.  Every recipe is made by a fresh maker and by a
maker object that lives across all cases; every template object is read twice; from_template is called with a Source of text
lines and with a file path."""
import os, json, copy
from .. import tlc, tracecheck

FINISH = dict(level="model_checking",
              rule="a case = one TLC-generated recipe made by the real JsonMakerV1 / JsonMakerV2 (strict and not; fresh and long-lived maker), "
                   "or one TLC-generated template document (+ overrides) read by the real EnvironmentsTemplateV1 / V2 (twice) and "
                   "Environments.from_template (text lines and file); distinct = distinct inputs")

ALL_PARTS = 'Part = {"scalar", "lists", "explicit", "for", "registry", "tpl-a", "tpl-b"}'
BUDGET = 400     # constructions allowed inside one call of the code under test (the largest legitimate case needs < 40)


# ---- the recording classes of the registry (Recipes.tla, THE REGISTRY) ----------------------------------
class Runaway(BaseException):
    """More than BUDGET constructions inside one call: the call would not terminate.  Not an Exception, so that no
    `except Exception` of the code under test can swallow it."""


LOG = []          # (class name) of every __init__ that ran since the last reset, in order


def _enter(obj):
    LOG.append(type(obj).__name__)
    obj.serial = len(LOG)
    if len(LOG) > BUDGET: raise Runaway()


class Any:
    def __init__(self, *args, **kwargs):
        _enter(self); self.args = args; self.kwargs = kwargs


class One:
    def __init__(self, arg):
        _enter(self); self.args = (arg,); self.kwargs = {}


class Boom:
    def __init__(self, *args, **kwargs):
        _enter(self); raise ValueError("Boom cannot be constructed")


class Rng(Any):
    def __iter__(self): return iter(range(self.args[0]))


class Src(Any):
    @property
    def params(self): return {}
    def read(self): return iter(())


class Flt(Any):
    @property
    def params(self): return {}
    def filter(self, items): return items


class Shf(Flt):
    @property
    def params(self): return {"shuffle_seed": self.args[0]} if self.args else {}


CLASSES = {"Any": Any, "One": One, "Boom": Boom, "Rng": Rng, "Src": Src, "Flt": Flt, "Shf": Shf}
RECORDING = tuple(CLASSES.values())


# ---- spec values <-> Python values -----------------------------------------------------------------------
def to_py(v):
    t = v["t"]
    if t in ("int", "str"): return v["v"]
    if t == "null": return None
    if t == "lst": return [to_py(x) for x in (v["v"] or [])]
    if t == "obj": return {to_py(k): to_py(x) for k, x in (v["v"] or [])}
    raise ValueError("not a JSON value of the grammar: %r" % (v,))


def canon_spec(v):
    """expected tree -> canonical nested tuples (keyword arguments and dict entries compared as mappings)"""
    t = v["t"]
    if t == "int": return ("int", v["v"])
    if t == "str": return ("str", v["v"])
    if t == "null": return ("null",)
    if t == "lst": return ("lst", tuple(canon_spec(x) for x in (v["v"] or [])))
    if t == "obj": return ("obj", tuple(sorted(((canon_spec(k), canon_spec(x)) for k, x in (v["v"] or [])), key=repr)))
    if t == "made":
        c, a, k = v["v"]
        return ("made", c, tuple(canon_spec(x) for x in (a or [])), tuple(sorted(((kk["v"], canon_spec(x)) for kk, x in (k or [])), key=repr)))
    raise ValueError("unexpected expectation %r" % (v,))


def canon_obj(o, path=(), budget=None):
    """what the code returned -> the same canonical form (safe on cyclic / huge results: they are marked, never followed)"""
    budget = budget if budget is not None else [20000]
    budget[0] -= 1
    if budget[0] < 0: return ("more-than-20000-nodes",)
    if isinstance(o, bool): return ("bool", o)
    if isinstance(o, int): return ("int", o)
    if isinstance(o, str): return ("str", o)
    if o is None: return ("null",)
    if id(o) in path: return ("cyclic-reference",)
    p = path + (id(o),)
    if isinstance(o, list): return ("lst", tuple(canon_obj(x, p, budget) for x in o))
    if isinstance(o, tuple): return ("tup", tuple(canon_obj(x, p, budget) for x in o))
    if isinstance(o, dict): return ("obj", tuple(sorted(((canon_obj(k, p, budget), canon_obj(x, p, budget)) for k, x in o.items()), key=repr)))
    if isinstance(o, RECORDING):
        if not hasattr(o, "args"): return ("half-built", type(o).__name__)
        return ("made", type(o).__name__, tuple(canon_obj(x, p, budget) for x in o.args), tuple(sorted(((k, canon_obj(x, p, budget)) for k, x in o.kwargs.items()), key=repr)))
    return ("other", type(o).__name__, repr(o)[:60])


def show(c):
    """canonical form -> short text"""
    t = _show(c)
    return t if len(t) <= 400 else t[:400] + " ..."


def _show(c):
    k = c[0]
    if k in ("int", "bool"): return repr(c[1])
    if k == "str": return json.dumps(c[1])
    if k == "null": return "None"
    if k in ("lst", "tup"): return ("[%s]" if k == "lst" else "(%s)") % ", ".join(_show(x) for x in c[1])
    if k == "obj": return "{%s}" % ", ".join("%s: %s" % (_show(a), _show(b)) for a, b in c[1])
    if k == "made": return "%s(%s)" % (c[1], ", ".join([_show(x) for x in c[2]] + ["%s=%s" % (a, _show(b)) for a, b in c[3]]))
    return "<%s>" % " ".join(map(str, c))


def n_made(c):
    k = c[0]
    if k in ("lst", "tup"): return sum(n_made(x) for x in c[1])
    if k == "obj": return sum(n_made(b) for _, b in c[1])
    if k == "made": return 1 + sum(n_made(x) for x in c[2]) + sum(n_made(b) for _, b in c[3])
    return 0


def inner_first(o):
    """every constructed argument of a constructed object was constructed before the object itself"""
    if isinstance(o, (list, tuple)): return all(inner_first(x) for x in o)
    if isinstance(o, dict): return all(inner_first(x) for x in o.values())
    if isinstance(o, RECORDING) and hasattr(o, "args"):
        kids = list(o.args) + list(o.kwargs.values())
        flat = []
        for x in kids: flat += x if isinstance(x, list) else [x]
        return all(x.serial < o.serial for x in flat if isinstance(x, RECORDING)) and all(inner_first(x) for x in kids)
    return True


def has_key(v, key):
    if isinstance(v, dict): return key in v or any(has_key(x, key) for x in v.values())
    if isinstance(v, list): return any(has_key(x, key) for x in v)
    return False


def has_str(v, s):
    if isinstance(v, dict): return any(has_str(k, s) or has_str(x, s) for k, x in v.items())
    if isinstance(v, list): return any(has_str(x, s) for x in v)
    return v == s


# ---- one call of the code under test -----------------------------------------------------------------------
def call(fn):
    """-> ("ok", value, constructions) | ("coba", message) | ("raises", type name, message) | ("runaway",)"""
    from coba.exceptions import CobaException
    del LOG[:]
    try:
        val = fn()
        return ("ok", val, len(LOG))
    except CobaException as e:
        return ("coba", str(e)[:100])
    except Runaway:
        return ("runaway",)
    except Exception as e:
        return ("raises", type(e).__name__, str(e)[:100])


def judge(got, exp, who, feature, loose=False):
    """got = result of call(); exp = expected outcome of the spec.  -> None or (signature, what).  loose: the number of
    constructor calls is not compared (a "for" collection may be a constructed and consumed object; what follows "**" is
    read as an argument list of which only the keyword part is used - IMPLEMENTATION CHOICE of the spec)"""
    err = exp["t"] == "error"
    reason = exp["v"] if err else None
    if got[0] == "runaway":
        return "%s:%s:does-not-terminate" % (who, reason or "valid"), "more than %d constructions inside one call (stopped by the harness); expected %s" % (BUDGET, "a CobaException" if err else show(canon_spec(exp)))
    if got[0] == "raises":
        what = "raised %s(%s); expected %s" % (got[1], got[2], "a CobaException (%s)" % reason if err else show(canon_spec(exp)))
        if feature == "nameless-dict-argument" and got[1] == "IndexError": return "v1:nameless-dict-argument", what
        if err: return "%s:rejects-with-other-exception" % who, what
        return "%s:%s:raises-%s" % (who, feature or "valid", got[1]), what
    if got[0] == "coba":
        if err: return None
        if feature == "nameless-dict-argument": return "v1:nameless-dict-argument", "raised CobaException(%s); expected %s" % (got[1], show(canon_spec(exp)))
        return "%s:%srejects-valid" % (who, feature and feature + ":" or ""), "raised CobaException(%s); expected %s" % (got[1], show(canon_spec(exp)))
    val = got[1]
    c = canon_obj(val)
    if err:
        return "%s:%s:accepted" % (who, reason), "returned %s; expected a CobaException (%s)" % (show(c), reason)
    want = canon_spec(exp)
    if c != want:
        return "%s:%sconstructs-differently" % (who, feature and feature + ":" or ""), "returned %s; expected %s" % (show(c), show(want))
    if not inner_first(val):
        return "%s:not-inner-most-first" % who, "an argument object of %s was constructed after the object it was passed to" % show(c)
    if got[2] != n_made(want) and not loose:
        return "%s:construction-count" % who, "%d constructor calls for %s which has %d objects" % (got[2], show(c), n_made(want))
    return None


def unspecified(*exps):
    return any(e["t"] == "error" and str(e["v"]).startswith("UNSPECIFIED") for e in exps)


# ---- recipes -------------------------------------------------------------------------------------------------
V1_WORDS = ("name", "args", "kwargs", "method")


def nameless_dict_inside(r, top=True):
    """a dict nested in the recipe that has neither a "name" nor a free key (e.g. {}): it names no class"""
    if isinstance(r, dict):
        if not top and not r.get("name") and all(k in V1_WORDS for k in r): return True
        return any(nameless_dict_inside(x, False) for x in r.values())
    if isinstance(r, list): return any(nameless_dict_inside(x, False) for x in r)
    return False


def recipe_feature(r, who="v2"):
    if who == "v1" and nameless_dict_inside(r): return "nameless-dict-argument"
    if has_key(r, "for"): return "for"
    if has_key(r, "method") and has_str(r, "foreach"): return "foreach"
    if has_str(r, "**"): return "star-star"
    return ""


class Makers:
    """the long-lived maker objects (one per entry point) that serve every recipe in turn"""
    def __init__(self):
        from coba.registry import JsonMakerV1, JsonMakerV2
        self.V1, self.V2 = JsonMakerV1, JsonMakerV2
        self.shared = {"v1": JsonMakerV1(dict(CLASSES)), "v2": JsonMakerV2(dict(CLASSES))}

    def entry_points(self, r):
        """(who, expected field, fresh call, shared call)"""
        V1, V2, sh = self.V1, self.V2, self.shared
        return [("v1", "v1", lambda: V1(dict(CLASSES)).make(copy.deepcopy(r)), lambda: sh["v1"].make(copy.deepcopy(r))),
                ("v2", "v2", lambda: V2(dict(CLASSES)).make(copy.deepcopy(r)), lambda: sh["v2"].make(copy.deepcopy(r))),
                ("v2", "v2", lambda: V2(dict(CLASSES)).make(copy.deepcopy(r), strict=True), lambda: sh["v2"].make(copy.deepcopy(r), True)),
                ("v2", "v2n", lambda: V2(dict(CLASSES)).make(copy.deepcopy(r), strict=False), lambda: sh["v2"].make(copy.deepcopy(r), False))]


def check_recipe(ctx, case, makers, stats):
    r = to_py(case["r"])
    feature = recipe_feature(r)
    loose = has_key(r, "for") or has_str(r, "**")
    key = json.dumps(r, sort_keys=False)
    ctx.case("recipe|" + key)
    if unspecified(case["v1"], case["v2"], case["v2n"]):
        stats["skipped_unspecified"] += 1
        return
    for who, field, fresh, shared in makers.entry_points(r):
        exp = case[field]
        stats["calls"] += 2
        stats["expected_" + ("rejected" if exp["t"] == "error" else "constructed")] += 1
        got = call(fresh)
        feature = recipe_feature(r, who)
        bad = judge(got, exp, who, feature, loose)
        if bad:
            ctx.violation(bad[0], "%s make(%s): %s" % (who, key, bad[1]), dict(recipe=case["r"], python=r, entry=who, expected=exp))
            if got[0] == "runaway": makers.shared = {"v1": makers.V1(dict(CLASSES)), "v2": makers.V2(dict(CLASSES))}
            continue          # the long-lived maker is judged only where the fresh one is right
        got2 = call(shared)
        bad = judge(got2, exp, who, feature, loose)
        if bad:
            ctx.violation("maker:depends-on-earlier-calls", "%s make(%s) on a maker that had served other recipes before: %s (a fresh maker is right)" % (who, key, bad[1]),
                          dict(recipe=case["r"], python=r, entry=who, expected=exp))
            makers.shared = {"v1": makers.V1(dict(CLASSES)), "v2": makers.V2(dict(CLASSES))}     # start again with clean long-lived makers


# ---- templates -----------------------------------------------------------------------------------------------
def pipelines_of(envs):
    """what a template read / Environments holds -> list of pipelines, each a tuple of canonical trees.  Environments appends
    BatchSafe(Finalize()) to an environment when it is accessed (Environments._finalize) - not part of the template."""
    from coba.pipes.sources import SourceFilters
    from coba.environments.filters import BatchSafe, Finalize
    out = []
    for e in envs:
        pipes = list(e) if isinstance(e, SourceFilters) else [e]
        if len(pipes) > 1 and isinstance(pipes[-1], BatchSafe) and isinstance(pipes[-1]._filter, Finalize): pipes = pipes[:-1]
        out.append(tuple(canon_obj(p) for p in pipes))
    return out


def want_pipelines(exp):
    return [tuple(canon_spec(p) for p in (pl["v"] or [])) for pl in (exp["v"] or [])]


def show_pl(pls):
    return "[" + ", ".join(" | ".join(show(p) for p in pl) for pl in pls) + "]"


def judge_template(got, exp, who, feature):
    err = exp["t"] == "error"
    reason = exp["v"] if err else None
    if got[0] == "runaway":
        return "%s:%s:does-not-terminate" % (who, reason or "valid"), "more than %d constructions (stopped by the harness)" % BUDGET
    if got[0] == "raises":
        what = "raised %s(%s); expected %s" % (got[1], got[2], "a CobaException (%s)" % reason if err else show_pl(want_pipelines(exp)))
        if feature == "single-stage-pipe" and got[1] == "IndexError": return "%s:single-stage-pipe" % who, what
        if err: return "%s:rejects-with-other-exception" % who, what
        return "%s:%s:raises-%s" % (who, feature or "valid", got[1]), what
    if got[0] == "coba":
        if err: return None
        return "%s:rejects-valid" % who, "raised CobaException(%s); expected %s" % (got[1], show_pl(want_pipelines(exp)))
    have = got[1]
    if err:
        return "%s:%s:accepted" % (who, reason), "returned %s; expected a CobaException (%s)" % (show_pl(have), reason)
    want = want_pipelines(exp)
    if have != want:
        if sorted(have, key=repr) == sorted(want, key=repr): return "%s:order-differs" % who, "returned %s; expected the order %s" % (show_pl(have), show_pl(want))
        if feature == "single-stage-pipe" and who == "from_template": return "%s:single-stage-pipe" % who, "returned %s; expected %s" % (show_pl(have), show_pl(want))
        return "%s:pipelines-differ" % who, "returned %s; expected %s" % (show_pl(have), show_pl(want))
    return None


def template_feature(envs):
    entries = envs if isinstance(envs, list) else [envs]
    if any(isinstance(e, list) and len(e) == 1 for e in entries): return "single-stage-pipe"
    return ""


def check_template(ctx, case, n, stats):
    from coba.environments.templates import EnvironmentsTemplateV1, EnvironmentsTemplateV2
    from coba.environments import Environments
    from coba.pipes import IterableSource, DiskSource
    variables = to_py(case["vars"]); envs = to_py(case["envs"]); ov = to_py(case["ov"])
    doc = {"environments": envs}
    if variables or n % 2: doc = {"variables": variables, "environments": envs}
    text = json.dumps(doc, indent=1)
    # user overrides are keyword arguments; both spellings of the name are accepted by the code ("n" and "$n")
    kw = {(k if n % 3 == 0 else k[1:]): v for k, v in ov.items()}
    key = json.dumps([doc, ov])
    ctx.case("template|" + key)
    if unspecified(case["t1"], case["t2"], case["ft"]):
        stats["skipped_unspecified"] += 1
        return
    feature = template_feature(envs)
    lines = text.split("\n")
    path = os.path.join(ctx.scratch, "x03_template_%d.json" % (n % 4))
    with open(path, "w") as f: f.write(text)
    replay = dict(document=doc, overrides=ov, spec_case=dict(vars=case["vars"], envs=case["envs"], ov=case["ov"]))

    def report(bad, who, exp):
        ctx.violation(bad[0], "%s of %s with overrides %s: %s" % (who, json.dumps(doc), json.dumps(ov), bad[1]), dict(replay, entry=who, expected=exp))

    # EnvironmentsTemplateV1 (no overrides), read twice on the same object
    t1 = EnvironmentsTemplateV1(IterableSource(lines))
    for k in (1, 2):
        stats["calls"] += 1
        bad = judge_template(call(lambda: pipelines_of(t1.read())), case["t1"], "template-v1", feature)
        if bad:
            report(("template:second-read-differs", bad[1]) if k == 2 else bad, "EnvironmentsTemplateV1.read", case["t1"]); break
    # EnvironmentsTemplateV2, read twice on the same object
    t2 = EnvironmentsTemplateV2(IterableSource(lines), **copy.deepcopy(kw))
    for k in (1, 2):
        stats["calls"] += 1
        bad = judge_template(call(lambda: pipelines_of(t2.read())), case["t2"], "template-v2", feature)
        if bad:
            report(("template:second-read-differs", bad[1]) if k == 2 else bad, "EnvironmentsTemplateV2.read", case["t2"]); break
    # Environments.from_template: a Source of text lines, a file path, a DiskSource
    forms = [("text", lambda: IterableSource(lines)), ("file", lambda: path)]
    if n % 5 == 0: forms.append(("disk-source", lambda: DiskSource(path)))
    for form, src in forms:
        stats["calls"] += 1
        bad = judge_template(call(lambda: pipelines_of(Environments.from_template(src(), **copy.deepcopy(kw)))), case["ft"], "from_template", feature)
        if bad:
            report(bad, "Environments.from_template (%s form)" % form, case["ft"]); break
    stats["templates_" + ("rejected" if case["ft"]["t"] == "error" else "expanded")] += 1


class GlobalRegistry:
    """The templates construct through the global CobaRegistry: the recording classes are registered there for the
    duration of the template cases and the registry is put back exactly as it was found."""
    def __init__(self, register=True): self.register = register

    def __enter__(self):
        from coba.registry import CobaRegistry
        from coba.context import CobaContext, NullLogger
        self.R = CobaRegistry
        self.saved = (dict(CobaRegistry._registry), set(CobaRegistry._setstate), CobaRegistry._endpoints_loaded)
        self.logger = CobaContext.logger
        CobaContext.logger = NullLogger()
        CobaRegistry.registry            # loads the entry points first (as any user of the templates would)
        for name, cls in (CLASSES.items() if self.register else ()):
            if name in CobaRegistry._registry: raise RuntimeError("the name %r is already registered in coba" % name)
            CobaRegistry.register(name, cls)
        return self

    def __exit__(self, *exc):
        from coba.context import CobaContext
        reg, setstate, loaded = self.saved
        self.R._registry.clear(); self.R._registry.update(reg)
        self.R._setstate.clear(); self.R._setstate.update(setstate)
        self.R._endpoints_loaded = loaded
        CobaContext.logger = self.logger
        return False


# ---- registration ---------------------------------------------------------------------------------------------
def check_registry(ctx, case, n, stats):
    """a sequence of CobaRegistry.register / @coba_registration calls on the global registry (restored afterwards)"""
    from coba.registry import CobaRegistry, coba_registration, JsonMakerV1, JsonMakerV2
    ops = [tuple(op) for op in case["ops"]]
    ctx.case("registry|" + json.dumps(ops))
    with GlobalRegistry(register=False):
        results = []
        for i, (name, cls) in enumerate(ops):
            stats["calls"] += 1
            use_decorator = (i + n) % 2 == 0
            got = call((lambda: coba_registration(name)(CLASSES[cls])) if use_decorator else (lambda: CobaRegistry.register(name, CLASSES[cls])))
            results.append("ok" if got[0] == "ok" else "error" if got[0] == "coba" else "%s(%s)" % got[1:3])
            if use_decorator and got[0] == "ok" and got[1] is not CLASSES[cls]: results[-1] = "decorator returned %r" % (got[1],)
        final = {name: next((k for k, c in CLASSES.items() if c is CobaRegistry.registry.get(name)), "none") for name in case["final"]}
        replay = dict(ops=ops, expected_results=case["results"], expected_final=case["final"])
        if results != list(case["results"]):
            ctx.violation("registry:register-outcome", "registrations %s: outcomes %s, expected %s" % (ops, results, case["results"]), replay)
        elif final != case["final"]:
            ctx.violation("registry:binding", "registrations %s: the registry binds %s, expected %s" % (ops, final, case["final"]), replay)
        else:
            # the makers construct through what was registered
            for name, cls in final.items():
                if cls == "none": continue
                for who, fn in (("v1", lambda: JsonMakerV1(CobaRegistry.registry).make({name: 1})), ("v2", lambda: JsonMakerV2().make({name: 1}))):
                    stats["calls"] += 1
                    got = call(fn)
                    if got[0] != "ok" or canon_obj(got[1]) != ("made", cls, (("int", 1),), ()):
                        ctx.violation("registry:maker-does-not-see-registration", "%s make({%r: 1}) after registrations %s: %s, expected %s(1)" % (who, name, ops, got[:2], cls), replay)


# ---- TLC runs ------------------------------------------------------------------------------------------------
def runs(ctx):
    """(name, parts) per TLC invocation"""
    if ctx.quick: return [("all", ["scalar", "lists", "explicit", "for", "registry", "tpl-a", "tpl-b"])]
    return [("recipes", ["scalar", "explicit", "for", "registry"]), ("lists", ["lists"]), ("tpl-a", ["tpl-a"]), ("tpl-b", ["tpl-b"])]


def run(ctx):
    from coba.registry import CobaRegistry
    import collections
    stats = collections.Counter()
    makers = Makers()
    before = (dict(CobaRegistry._registry), CobaRegistry._endpoints_loaded)
    n_rec = n_tpl = n_reg = 0
    for name, parts in runs(ctx):
        sub = {ALL_PARTS: "Part = {%s}" % ", ".join('"%s"' % p for p in parts), 'Size = "quick"': 'Size = "%s"' % ctx.tier}
        cfg = tracecheck._cfg("Recipes.cfg", sub, ctx.scratch, "recipes_%s.cfg" % name)
        r = tlc.run("Recipes", cfg, ctx.scratch, workers=ctx.pick(8, 12), timeout=ctx.pick(240, 1500), heap="12g", seed=ctx.seed)
        ctx.add_tlc("Recipes_" + name, r)
        for v in r.violations:
            ctx.violation("spec:%s" % (v["name"] or v["kind"]), "Recipes.tla itself violates %s" % (v["name"] or v["kind"]), v["trace"][:60])
        r.out = ""
        cases = [j for j in r.json if isinstance(j, dict) and j.get("kind") in ("recipe", "template", "registry")]
        r.json = []
        if len(cases) < 500: raise RuntimeError("Recipes %s produced only %d cases" % (name, len(cases)))
        cases.sort(key=lambda c: json.dumps(c, sort_keys=True))
        recs = [c for c in cases if c["kind"] == "recipe"]; tpls = [c for c in cases if c["kind"] == "template"]
        regs = [c for c in cases if c["kind"] == "registry"]
        del cases
        for c in regs:
            n_reg += 1
            check_registry(ctx, c, n_reg + ctx.seed, stats)
        for c in recs:
            n_rec += 1
            check_recipe(ctx, c, makers, stats)
        if recs:
            c = recs[(len(recs) * 2) // 3]
            ctx.sample(dict(recipe=to_py(c["r"]), JsonMakerV1=_brief(c["v1"]), JsonMakerV2=_brief(c["v2"]), JsonMakerV2_not_strict=_brief(c["v2n"])), limit=6)
        if tpls:
            with GlobalRegistry():
                for c in tpls:
                    n_tpl += 1
                    check_template(ctx, c, n_tpl + ctx.seed, stats)
            c = tpls[(len(tpls) * 2) // 3]
            ctx.sample(dict(variables=to_py(c["vars"]), environments=to_py(c["envs"]), overrides=to_py(c["ov"]),
                            from_template=("rejected: " + c["ft"]["v"]) if c["ft"]["t"] == "error" else show_pl(want_pipelines(c["ft"]))), limit=6)
        del recs, tpls
    after = (dict(CobaRegistry._registry), CobaRegistry._endpoints_loaded)
    if after != before: raise RuntimeError("the global CobaRegistry was not restored")
    ctx.exhaustive = True
    ctx.traces += stats["calls"]
    ctx.extra["recipe_cases"] = n_rec
    ctx.extra["template_cases"] = n_tpl
    ctx.extra["registration_cases"] = n_reg
    ctx.extra["outcomes"] = {k: v for k, v in sorted(stats.items())}
    ctx.assumptions += [
        "the registry holds the seven recording classes of the driver (Any, One(arg), Boom raising ValueError, iterable Rng, Src with read, Flt and Shf with filter); what a class records - its name, positional and keyword values, recursively - is the observable; keyword arguments and dict entries are compared as mappings (their order is not constrained)",
        "rejection = CobaException; any other exception type, a returned value for a rejected input, and more than %d constructor calls inside one call (taken as non-termination) are reported" % BUDGET,
        "strings are opaque: '$i' on a string value and 'for' over a plain string (characters) are not explored (cases whose oracle says UNSPECIFIED are skipped and counted)",
        "recipe grammar: the bounded families of Recipes.tla (GENERATOR); names are strings; object keys are distinct; no floats / booleans; nested lists are not searched for recipes by either maker (mirrored)",
        "template documents always have 'environments'; variable names start with '$'; at most one Shf filter per pipeline and integer seeds; every stage has at least one alternative; all stages after the first build filters",
        "clauses marked IMPLEMENTATION CHOICE in Recipes.tla mirror the code's reading of under-documented recipes (V1 single-list-argument fallback on TypeError, registered names / dicts read as nested recipes, null arguments, '**' only in the second-to-last place, dict 'for' collections yield their keys, any method other than 'singular' is foreach, V1 variables only where a stage stands)",
    ]


def _brief(exp):
    return ("rejected: " + exp["v"]) if exp["t"] == "error" else show(canon_spec(exp))
