"""C02 - interrupted experiments resume: spec/ExperimentLog.tla (exhaustive crash/restore model),
spec/ExperimentLogTrace.tla (binding).

1. TLC checks ExperimentLog.tla: Crash enabled between any two cells of any record, any number of
   resumes with any configuration: no duplicate record, no re-evaluation of a recorded triple, the
   file is never unusable, the final decode equals the canonical result, the run completes.
   Two guard runs must FAIL (else the model is vacuous): the restore as the pinned tree had it
   (AsCoded) and the variant without deepcopy (NoCopy).
2. Every crash state the model allows is realised on the real file: the log of an uninterrupted
   run is cut at byte positions (quick: every record boundary +-1, first/last bytes of each record,
   random interior bytes; thorough: every byte), plain and .gz; the experiment is re-constructed and
   run again on that file with an independently chosen configuration.  The history
   [records before the cut, crash(torn cells), start, evaluations (side channel), records appended,
   done] is validated by TLC against ExperimentLogTrace.tla; the resumed Result (four tables and
   .experiment) is compared with the uninterrupted one."""
import os, json, random, zlib, gzip, shutil, subprocess, sys
from .. import tlc, tracecheck, explib

ACTIONS = ["Start", "Take", "Emit", "Begin", "WriteCell", "Finish", "Crash"]
FINISH = dict(level="model_checking",
              rule="a case = one (experiment shape, file kind, cut byte, resume configuration): the real log cut there, the experiment re-run on it; distinct = distinct (shape, kind, records complete, torn class, cfg)")

SHAPES = [
    dict(tr=[(0, 0, 0), (0, 1, 0), (1, 0, 0), (1, 1, 0)], ch=[1, 1], fail=[]),
    dict(tr=[(0, 0, 0), (0, 0, 1), (1, 1, 0)], ch=[0, 0], fail=[]),
    dict(tr=[(0, 0, 0), (1, 0, 0), (1, 1, 1)], ch=[1, 0], fail=[(1, 0, 0)]),
    dict(tr=[(0, 0, 0), (1, 1, 0), (0, 1, 0)], ch=[1, 2], fail=[]),
]


def spec_runs(ctx):
    # quick: the small shapes, two configurations, one crash.  thorough (calibrated under load): the curated shapes with two
    # crashes (8.5 M states, ~13 min) and every canonical shape of <= 2 triples with one crash (~13 min); the full product
    # ThoroughShapes x ThoroughCfgs x 2 crashes did not finish in 40 min and is not attempted.
    runs = ctx.pick([("ExperimentLog_mc", "QuickShapes", "QuickCfgs", 1)],
                    [("ExperimentLog_mc curated, 2 crashes", "C01QuickShapes", "QuickCfgs", 2),
                     ("ExperimentLog_mc all shapes <= 2 triples, 1 crash", "ThoroughShapes", "QuickCfgs", 1)])
    for nm, shapes, cfgs, mc in runs:
        sub = {"Shapes <- QuickShapes": "Shapes <- %s" % shapes, "Cfgs <- QuickCfgs": "Cfgs <- %s" % cfgs, "MaxCrash = 2": "MaxCrash = %d" % mc}
        cfg = tracecheck._cfg("ExperimentLog_mc.cfg", sub, ctx.scratch, "explog_mc.cfg")
        r = tlc.run("MC_ExperimentLog", cfg, ctx.scratch, workers=16, coverage=True, timeout=2 * 3600, heap="24g")
        ctx.add_tlc(nm, r, required_actions=ACTIONS)
        for v in r.violations:
            ctx.violation("spec:%s" % (v["name"] or v["kind"]), "ExperimentLog.tla itself violates %s %s" % (v["kind"], v["name"]), v["trace"][:80])
    # guard runs: these two variants MUST violate (documents the repaired restore defect; shows the invariants bite)
    for nm, extra, expect in (("ascoded", {"AsCoded = FALSE": "AsCoded = TRUE"}, {"P3_Usable", "P4_Complete", "P1_NoDuplicate"}),
                              ("nocopy", {"NoCopy = FALSE": "NoCopy = TRUE"}, {"C03_Isolated"})):
        s2 = {"Shapes <- QuickShapes": "Shapes <- QuickShapes", "Cfgs <- QuickCfgs": "Cfgs <- QuickCfgs", "MaxCrash = 2": "MaxCrash = 1", "PROPERTY Completes": ""}
        s2.update(extra)
        cfg = tracecheck._cfg("ExperimentLog_mc.cfg", s2, ctx.scratch, "explog_%s.cfg" % nm)
        r = tlc.run("MC_ExperimentLog", cfg, ctx.scratch, workers=16, timeout=3600, heap="8g")
        ctx.add_tlc("ExperimentLog_%s (expected to fail)" % nm, r)
        got = {v["name"] for v in r.violations}
        if not (got & expect):
            raise RuntimeError("guard model %s did not violate any of %s: the model is vacuous" % (nm, expect))
        ctx.extra.setdefault("guard_models", {})[nm] = sorted(got)


def members(blob):
    """end offsets of the gzip members of a file (however the sink groups records into members)"""
    ends = []; pos = 0
    while pos < len(blob):
        d = zlib.decompressobj(wbits=31)
        d.decompress(blob[pos:])
        if not d.eof: break
        pos = len(blob) - len(d.unused_data); ends.append(pos)
    return ends


def recoverable(blob):
    """everything a reader can get out of a (possibly cut) .gz file before it hits the cut"""
    out = b""; rest = blob
    while rest:
        d = zlib.decompressobj(wbits=31)
        try:
            out += d.decompress(rest)
        except zlib.error:
            break
        if not d.eof: break
        rest = d.unused_data
    return out


def cut_points(ends, n, rng, tier, nrec=0, blob=None):
    if tier != "quick": return list(range(0, n + 1))
    pts = {0, n}
    if blob is not None:
        # plain log: every place inside a record where the text so far ends with closing brackets and goes on with something
        # else - a prefix that LOOKS finished to anything less than a parser (nested lists / dicts in rows and params)
        for i in range(1, n):
            if blob[i - 1] in b"]}" and blob[i] not in b"]}\n": pts.add(i)
    starts = [0] + ends[:-1]
    for s, e in zip(starts, ends):
        pts.update({s, s + 1, e - 1, e, min(e, s + 2)})
        for _ in range(2): pts.add(rng.randrange(s, e))
    while len(pts) < min(3 * nrec, n): pts.add(rng.randrange(0, n))      # few members for many records: sample inside them
    return sorted(p for p in pts if 0 <= p <= n)


def classify(ends, b):
    """-> (#complete records, torn class 0/1/2) for a cut at byte b of a plain log"""
    starts = [0] + ends[:-1]
    nc = sum(1 for e in ends if e <= b)
    if nc < len(ends) and b > starts[nc]:
        return nc, (2 if b == ends[nc] - 1 else 1)
    return nc, 0


def classify_gz(blob, b):
    """.gz: what matters is what can be decompressed from the prefix: complete lines are records whose content and
    terminator were flushed (even if the member's trailer is missing); a trailing partial line is a torn record."""
    data = recoverable(blob[:b])
    nc = data.count(b"\n")
    return nc, (1 if data and not data.endswith(b"\n") else 0)


CFGS = [dict(p=1, mt=0, ip=True), dict(p=1, mt=1, ip=True), dict(p=1, mt=2, ip=True),
        dict(p=2, mt=1, ip=False, mc=1), dict(p=2, mt=0, ip=False, mc=0)]      # the last two: resumed on the virtual multi-process layer


def resume(shape, side, f, cfg, sseed):
    """Re-construct the experiment and run it again on the file left by the kill."""
    if cfg["ip"]:
        return explib.run_inprocess(explib.build(shape, side=side), f, mt=cfg["mt"])
    from coba.experiments import Experiment
    from .. import vmp, vsched
    def go():
        explib.quiet_ctx()
        return Experiment(explib.build(shape, side=side)).run(f, quiet=True, processes=cfg["p"], maxchunksperchild=cfg["mc"], maxtasksperchunk=cfg["mt"])
    out, _ = vmp.run_scheduled(go, vsched.random_policy(random.Random(sseed)))
    if out["verdict"] != "ok": raise RuntimeError("resumed multi-process run: %s" % out["verdict"])
    if "error" in out: raise out["error"]
    return out["value"]


def run(ctx):
    rng = random.Random(ctx.seed)
    spec_runs(ctx)
    K = 2
    traces = []; meta = []; ncase = 0
    shapes = SHAPES[:ctx.pick(3, 4)]
    for si, shape in enumerate(shapes):
        for kind in ("plain", "gz"):
            d = os.path.join(ctx.scratch, "s%d%s" % (si, kind)); os.makedirs(d, exist_ok=True)
            full = os.path.join(d, "full.log" + (".gz" if kind == "gz" else ""))
            side0 = os.path.join(d, "side0.txt"); open(side0, "w").close()
            ref = explib.result_digest(explib.run_inprocess(explib.build(shape, side=side0), full))
            evalseq = [["I"] + json.loads(l) for l in open(side0).read().splitlines()]
            ref0 = explib.result_digest(explib.run_inprocess(explib.build(shape)))
            if explib.diff_digest(ref, ref0): raise RuntimeError("uninterrupted runs with and without file differ (C07 territory): %s" % explib.diff_digest(ref, ref0))
            blob = open(full, "rb").read()
            if kind == "plain":
                ends = [i + 1 for i, c in enumerate(blob) if c == 10]
                keys = [k for k, _ in explib.log_records(blob.decode().splitlines())]
            else:
                ends = members(blob)
                keys = [k for k, _ in explib.log_records(gzip.decompress(blob).decode().splitlines())]
            for b in cut_points(ends, len(blob), rng, ctx.tier, len(keys), blob if kind == "plain" else None):
                cfg = CFGS[rng.randrange(len(CFGS))]
                nc, torn = classify(ends, b) if kind == "plain" else classify_gz(blob, b)
                case = dict(shape=si, kind=kind, cut=b, size=len(blob), complete=nc, torn=torn, cfg=cfg)
                ctx.case(json.dumps([si, kind, nc, torn, cfg["mt"], cfg["p"]]))
                f = os.path.join(d, "cut.log" + (".gz" if kind == "gz" else "")); side = os.path.join(d, "side.txt")
                open(f, "wb").write(blob[:b]); open(side, "w").close()
                sigbase = "%s:%s" % (kind, "between-records" if torn == 0 and 0 < b else ("empty-file" if b == 0 else ("partial-record" if torn == 1 else "record-without-terminator")))
                try:
                    res = resume(shape, side, f, cfg, rng.randrange(1 << 30))
                    got = explib.result_digest(res)
                except BaseException as e:
                    ctx.violation("unusable:" + sigbase, "re-running on the file left by a kill at byte %d/%d raised %s: %s" % (b, len(blob), type(e).__name__, str(e)[:150]), case)
                    continue
                dd = explib.diff_digest(ref, got)
                if dd:
                    ctx.violation("result-differs:" + sigbase, "resumed Result differs from the uninterrupted one: %s" % dd, case); continue
                try:
                    after = open(f, "rb").read()
                    lines = (gzip.decompress(after) if kind == "gz" else after).decode().splitlines()
                    fkeys = [k for k, _ in explib.log_records(lines)]
                except Exception as e:
                    ctx.violation("unreadable-after:" + sigbase, "the file cannot be read after the resumed run: %r" % e, case); continue
                kept = nc + (1 if torn == 2 else 0)     # content complete, only the terminator missing: the record is kept
                if fkeys[:kept] != keys[:kept]:
                    ctx.violation("prefix-changed:" + sigbase, "records complete before the crash changed: %s vs %s" % (fkeys[:kept], keys[:kept]), case); continue
                evals = [["I"] + json.loads(l) for l in open(side).read().splitlines()]
                run1 = dict(cfg=dict(p=1, mt=0, ip=True), recs=keys[:nc], evals=[k for k in keys[:nc + (1 if torn else 0)] if k[0] == "I"],
                            end="crash", torn=(0 if not torn else (K if torn == 2 else 1)), tornk=(keys[nc] if torn else ["none"]), nrep=-1)
                # a failing triple is evaluated (side channel) but leaves no record: run 1 evaluated those that precede its last record
                run1["evals"] = evals_before(evalseq, keys, nc + (1 if torn else 0))
                run2 = dict(cfg=dict(p=cfg["p"], mt=cfg["mt"], ip=cfg["ip"]), recs=fkeys[kept:], evals=evals, end="done", torn=0, tornk=["none"], nrep=-1)
                traces.append(dict(shape=dict(tr=[list(t) for t in shape["tr"]], ch=shape["ch"], fail=[list(t) for t in shape["fail"]]), runs=[run1, run2]))
                meta.append(case)
                # ---- a second interruption: the file the resumed run wrote (old records + new ones, in the resumed configuration's
                #      order) is cut again and the experiment is run a third time
                ncase += 1
                if kind == "plain" and ncase % ctx.pick(6, 40) == 0 and len(after) > b + 2:
                    ends2 = [i + 1 for i, c in enumerate(after) if c == 10]
                    b2 = rng.randrange(min(b, len(after) - 1), len(after))
                    nc2, torn2 = classify(ends2, b2)
                    cfg3 = CFGS[rng.randrange(3)]
                    case3 = dict(case, second_cut=b2, size2=len(after), complete2=nc2, torn2=torn2, cfg3=cfg3)
                    ctx.case(json.dumps([si, "second", nc2, torn2, cfg3["mt"]]))
                    open(f, "wb").write(after[:b2]); open(side, "w").close()
                    try:
                        got3 = explib.result_digest(resume(shape, side, f, cfg3, rng.randrange(1 << 30)))
                        fkeys3 = [k for k, _ in explib.log_records(open(f, "rb").read().decode().splitlines())]
                    except BaseException as e:
                        ctx.violation("unusable:second-interruption", "re-running after a second kill (byte %d/%d of the resumed run's file) raised %s: %s" % (b2, len(after), type(e).__name__, str(e)[:150]), case3); continue
                    dd = explib.diff_digest(ref, got3)
                    if dd: ctx.violation("result-differs:second-interruption", "Result after two interruptions differs from the uninterrupted one: %s" % dd, case3); continue
                    kept2 = nc2 + (1 if torn2 == 2 else 0)
                    dup = [k for k in fkeys3 if fkeys3.count(k) > 1]
                    if dup: ctx.violation("recorded-twice:second-interruption", "records %s appear twice in the file after two interruptions" % dup[:3], case3); continue
                    if fkeys3[:kept2] != fkeys[:kept2]: ctx.violation("prefix-changed:second-interruption", "records complete before the second crash changed", case3); continue
                    redone = [e for e in ([["I"] + json.loads(l) for l in open(side).read().splitlines()]) if e in fkeys[:kept2]]
                    if redone: ctx.violation("re-evaluated:second-interruption", "triples %s were already recorded in the file and were evaluated again" % redone[:3], case3); continue
    if traces: ctx.sample(traces[len(traces) // 3], limit=1)
    rej = tracecheck.validate(ctx, "ExperimentLogTrace", "ExperimentLogTrace.cfg", traces, name="explog_trace", workers=16)
    for i, reason, pos in rej:
        ctx.violation("trace-rejected:%s" % meta[i]["kind"], "%s (position code %s) history=%s" % (reason, pos, json.dumps(traces[i]["runs"])[:600]), dict(meta[i], trace=traces[i]))
    real_kills(ctx, rng)
    name_variants(ctx, rng)
    ctx.assumptions += ["flushed bytes survive a kill (no filesystem-level loss)", "resumes run in-process (maxtasksperchunk 0,1,2) and on the virtual multi-process layer (2 processes) under seeded schedules",
                        "a crash of run 1 is realised by truncating the log of an uninterrupted run (every byte prefix is a state a kill can leave, since each record is flushed before the next is produced); real SIGKILLs confirm this for a few instants"]


def evals_before(evalseq, keys, upto):
    """Triples an in-process run had evaluated when it had begun `upto` records: the evaluation order of the
    uninterrupted run (its side channel) up to the last triple that has a record among the first `upto`.  Failing
    triples in between are evaluated but leave no record."""
    have = [k for k in keys[:upto] if k[0] == "I"]
    if not have: return []
    return evalseq[:evalseq.index(have[-1]) + 1]


def real_kills(ctx, rng):
    """SIGKILL a child running an experiment at a few instants: what it leaves must be a byte prefix of the
    uninterrupted log (the enumeration above covers every such prefix)."""
    n = ctx.pick(3, 12)
    shape = SHAPES[0]
    d = os.path.join(ctx.scratch, "kill"); os.makedirs(d, exist_ok=True)
    full = os.path.join(d, "full.log"); explib.run_inprocess(explib.build(shape, n_int=40), full)
    blob = open(full, "rb").read()
    code = ("import sys; sys.path.insert(0, %r)\nfrom harness import explib\nimport json\n"
            "shape=json.loads(sys.argv[1]); explib.run_inprocess(explib.build(shape, n_int=40), sys.argv[2])\n") % os.path.dirname(os.path.dirname(os.path.dirname(os.path.abspath(__file__))))
    script = os.path.join(d, "child.py"); open(script, "w").write(code)
    import time, signal
    hits = 0
    for i in range(n):
        f = os.path.join(d, "k%d.log" % i)
        p = subprocess.Popen([sys.executable, "-W", "ignore", script, json.dumps(shape), f])
        time.sleep(0.25 + 0.05 * rng.random() * i)
        p.send_signal(signal.SIGKILL); p.wait()
        got = open(f, "rb").read() if os.path.exists(f) else b""
        ctx.case("kill%d" % i, nontrivial=False)
        if 0 < len(got) < len(blob): hits += 1
        if not _is_prefix_modulo_times(got, blob):
            ctx.violation("kill-not-a-prefix", "a SIGKILLed run left a file that is not a prefix of the uninterrupted log (%d bytes)" % len(got), dict(i=i, left=got[-200:].decode(errors="replace")))
    ctx.extra["real_kills"] = n; ctx.extra["real_kills_mid_run"] = hits


def name_variants(ctx, rng):
    """The property speaks of "a result file": any path.  A child process running the experiment in-process on a path with an
    unusual name kills itself (os._exit) at the start of its k-th evaluation - every earlier record is complete and flushed -
    and the experiment is run again on that path: same Result, nothing recorded is evaluated again, nothing recorded twice.
    Nothing here looks inside the file: how it is encoded is the code's own business (writer, reader and recovery must agree)."""
    shape = next(s for s in SHAPES if not s["fail"])
    d = os.path.join(ctx.scratch, "names"); os.makedirs(os.path.join(d, "sweep.gzipped")); os.makedirs(os.path.join(d, "res.gz.d"))
    ref = explib.result_digest(explib.run_inprocess(explib.build(shape)))
    total = len(shape["tr"])
    code = ("import sys, os; sys.path.insert(0, %r)\nfrom harness import explib\nimport json\n"
            "shape=json.loads(sys.argv[1]); K=int(sys.argv[4]); cnt=[0]; orig=explib.VEval.evaluate\n"
            "def ev(self, env, lrn):\n    cnt[0]+=1\n    if cnt[0]==K: os._exit(9)\n    return orig(self, env, lrn)\n"
            "explib.VEval.evaluate=ev\n"
            "explib.run_inprocess(explib.build(shape, side=sys.argv[3]), sys.argv[2])\n") % os.path.dirname(os.path.dirname(os.path.dirname(os.path.abspath(__file__))))
    script = os.path.join(d, "child.py"); open(script, "w").write(code)
    names = ["out.gz.log", "sweep.gzipped/out.log", "res.gz.d/out.log.gz", "out", "OUT.LOG.GZ", "out.gzip"]
    for name in names[:ctx.pick(4, 6)]:
        for K in ctx.pick((total,), (2, total)):
            f = os.path.join(d, name); side1 = os.path.join(d, "side1.txt"); side2 = os.path.join(d, "side2.txt")
            for x in (f, side1, side2):
                if os.path.exists(x): os.remove(x)
            open(side1, "w").close(); open(side2, "w").close()
            case = dict(name=name, killed_at_evaluation=K, shape=shape)
            ctx.case(json.dumps(["name", name, K]))
            p = subprocess.run([sys.executable, "-W", "ignore", script, json.dumps(shape), f, side1, str(K)], capture_output=True, text=True, timeout=120)
            if p.returncode != 9: raise RuntimeError("the child did not kill itself: rc=%s %s" % (p.returncode, p.stderr[-800:]))
            done1 = [json.loads(l) for l in open(side1).read().splitlines()][:K - 1]
            try:
                got = explib.result_digest(explib.run_inprocess(explib.build(shape, side=side2), f))
            except BaseException as e:
                ctx.violation("unusable:name", "re-running on %r after a kill raised %s: %s" % (name, type(e).__name__, str(e)[:150]), case); continue
            dd = explib.diff_digest(ref, got)
            if dd: ctx.violation("result-differs:name", "resumed Result on %r differs from the uninterrupted one: %s" % (name, dd), case); continue
            evals2 = [json.loads(l) for l in open(side2).read().splitlines()]
            redone = [e for e in evals2 if e in done1]
            if redone: ctx.violation("re-evaluated:name", "on %r triples %s were recorded before the kill and were evaluated again" % (name, redone[:3]), case); continue
            if len(evals2) + len(done1) != total: ctx.violation("evaluations:name", "on %r the two runs evaluated %d + %d of %d triples" % (name, len(done1), len(evals2), total), case); continue
            try:
                third = explib.result_digest(explib.run_inprocess(explib.build(shape, side=side2), f))
            except BaseException as e:
                ctx.violation("unusable:name", "a third run on the completed file %r raised %s: %s" % (name, type(e).__name__, str(e)[:150]), case); continue
            if explib.diff_digest(ref, third): ctx.violation("result-differs:name", "the completed file %r gives another Result when run again" % name, case); continue
            if len(open(side2).read().splitlines()) != len(evals2): ctx.violation("re-evaluated:name", "a run on the completed file %r evaluated triples again" % name, case)
    ctx.extra["name_variants"] = names[:ctx.pick(4, 6)]


def _is_prefix_modulo_times(got, blob):
    a = got.decode(errors="replace").split("\n"); b = blob.decode().split("\n")
    if len(a) > len(b): return False
    for i, ln in enumerate(a[:-1]):
        ka = explib.log_records([ln]); kb = explib.log_records([b[i]])
        if ka != kb: return False
    return True
