"""C16 - built-in learners always return a valid, self-consistent distribution: spec/Learners.tla (+ MC_Learners.tla).

Learners.tla is one learner object as a state machine (Predict / score / Learn, one action per public call) on top of
CobaRandom.tla.  It is the oracle:
  * Random, Fixed, epsilon-greedy (ties, never-seen actions, Misguided reward transforms) and UCB while an offered action
    is unobserved have an EXACT rational policy, and the returned action is the exact function of seed and history
    (CobaRandom!ChoiceU / ChoiceW with the real LCG constants); UCB afterwards = uniform over a non-empty subset;
  * Corral is structural: weights strictly positive and summing to 1 within 1e-4, p_bar the 1/T-mixture of p, reported
    probability = p_bar mass of the bases that chose the action, base choices exact for Fixed / Random bases, learn
    never raises or hangs.
A. spec -> code: TLC enumerates every behaviour of MaxOps calls (bounded-exhaustive; -simulate for long ones) and prints
   it with the observation set PredictObs after each predict; the driver replays each behaviour on the real learner under
   several action encodings (int / str / dense tuple / dense list / sparse dict / mixed) and compares after every call.
B. code -> spec: Corral rounds enumerated by TLC (inputs only) and seeded-random long histories of every learner kind
   (changing action sets, boundary rewards, every hyper-parameter corner, extreme importance weights) are run on the real
   learners with a per-call time budget; the recorded calls are validated by TLC against TraceSpec.
Python only builds objects, converts numbers (float -> nearest small rational within 1e-12, or sign + round(x*1e9)) and
compares."""
import hashlib, json, math, random, signal, time
from fractions import Fraction
from .. import tlc, tracecheck

FINISH = dict(level="model_checking",
              rule="a case = one behaviour (history of predict / score / learn calls on one learner): TLC-generated and replayed with the spec's expectation after every call, or recorded from the real learner and validated by TLC; distinct = distinct behaviours")

TOL = 1e-12
CALL_BUDGET = 5.0          # seconds per public call of the real learner (a call takes microseconds)
ENCODINGS = ("int", "str", "tuple", "list", "dict", "mixed")
CONTEXTS = (None, 1.5, (1, 2.5), {"x": 1}, "c", [0, 1])


class Hang(BaseException):
    pass


def _alarm(*_):
    raise Hang()


def budget(fn, *a, **k):
    """Run one call of the real code under the step budget."""
    signal.setitimer(signal.ITIMER_REAL, CALL_BUDGET)
    try:
        return fn(*a, **k)
    finally:
        signal.setitimer(signal.ITIMER_REAL, 0)


def enc(kind, i):
    """abstract action i (1..) -> a real action object; equal ids <=> equal objects"""
    if kind == "int": return i - 1
    if kind == "str": return "a%d" % i
    if kind == "tuple": return (i, 0.5)
    if kind == "list": return [i, 0.5]
    if kind == "dict": return {"f": i, "g": 1.5}
    return (i - 1, "a%d" % i, (i, 0.5), [i, 0.5], {"f": i}, 2.5 * i)[i % 6]     # mixed types in one action set


def make(cfg):
    """spec configuration -> (learner as the user holds it, the CorralLearner inside or None)"""
    from coba.learners import RandomLearner, FixedLearner, BanditEpsilonLearner, BanditUCBLearner, CorralLearner, MisguidedLearner
    def base(b):
        k = b["k"]
        if k == "fixed": return FixedLearner([w / b["wd"] for w in b["w"]], seed=b["seed"])
        if k == "random": return RandomLearner(seed=b["seed"])
        o = b["o"]
        inner = BanditEpsilonLearner(o.get("eps", 0.1), seed=b["seed"]) if o["t"] == "eps" else BanditUCBLearner(seed=b["seed"])
        return MisguidedLearner(inner, o["mis"][0], o["mis"][1]) if o.get("mis") else inner
    k = cfg["k"]; core = None
    if k == "random": L = RandomLearner(seed=cfg["seed"])
    elif k == "fixed": L = FixedLearner([w / cfg["wd"] for w in cfg["w"]], seed=cfg["seed"])
    elif k == "eps": L = BanditEpsilonLearner(cfg["en"] / cfg["ed"], seed=cfg["seed"])
    elif k == "ucb": L = BanditUCBLearner(seed=cfg["seed"])
    else:
        L = core = CorralLearner([base(b) for b in cfg["bases"]], eta=cfg["etan"] / cfg["etad"], T=(math.inf if cfg["T"] == 0 else cfg["T"]),
                                 mode=cfg["mode"], seed=cfg["seed"])
    if cfg["mis"]: L = MisguidedLearner(L, cfg["shn"] / cfg["md"], cfg["scn"] / cfg["md"])
    return L, core


def position(actions, a):
    for i, x in enumerate(actions):
        if x is a or (type(x) is type(a) and x == a) or (isinstance(x, (int, float)) and isinstance(a, (int, float)) and not isinstance(a, bool) and x == a): return i + 1
    return 0


# ------------------------------------------------------------------ A: replay of TLC-generated behaviours
def replay_exact(cfg, steps, ek, salt):
    """-> None or (signature, what).  The expectation after every call comes from the spec (step['out'])."""
    kind = cfg["k"] + ("+misguided" if cfg["mis"] else "")
    try: L, _ = make(cfg)
    except Exception as e: return ("%s:construct-raises" % kind, "constructing the learner raised %s: %s" % (type(e).__name__, e))
    lastp = 0.5; offer = []
    for n, step in enumerate(steps):
        ctxt = CONTEXTS[(salt + n) % len(CONTEXTS)]
        where = "call #%d %s" % (n + 1, {k: v for k, v in step.items() if k != "out"})
        if step["op"] == "learn":
            try: budget(L.learn, ctxt, enc(ek, step["a"]), step["r2"] / 2, (lastp, 1.0, 0.25)[(salt + n) % 3])
            except Hang: return ("%s:learn-hangs" % kind, "%s did not return within %ss" % (where, CALL_BUDGET))
            except Exception as e: return ("%s:learn-raises" % kind, "%s raised %s: %s" % (where, type(e).__name__, e))
            continue
        actions = [enc(ek, i) for i in step["acts"]]
        try:
            s1 = [budget(L.score, ctxt, _into(offer, actions), a) for a in actions]
            pred = budget(L.predict, ctxt, _into(offer, actions))
            s2 = [budget(L.score, ctxt, _into(offer, actions), a) for a in actions]
        except Hang: return ("%s:predict-hangs" % kind, "%s did not return within %ss" % (where, CALL_BUDGET))
        except Exception as e: return ("%s:predict-raises" % kind, "%s: predict / score raised %s: %s" % (where, type(e).__name__, e))
        try: a, p = pred[0], pred[1]
        except Exception: return ("%s:prediction-malformed" % kind, "%s returned %r" % (where, pred))
        def close(x, q): return isinstance(x, (int, float)) and math.isfinite(x) and abs(Fraction(x) - Fraction(q[0], q[1])) <= TOL
        cands = [o for o in step["out"] if len(o["pmf"]) == len(s1) and all(close(x, q) for x, q in zip(s1, o["pmf"]))]
        if not cands:
            return ("%s:score-not-policy" % kind, "%s: score over the offered actions = %r, the policy must be %s" % (where, s1, " or ".join(str(["%d/%d" % tuple(q) for q in o["pmf"]]) for o in step["out"][:4])))
        if s1 != s2: return ("%s:predict-changes-policy" % kind, "%s: scores %r before and %r after predict" % (where, s1, s2))
        i = position(actions, a)
        if not i: return ("%s:action-not-offered" % kind, "%s returned action %r which is not one of %r" % (where, a, actions))
        if not any(close(p, o["pmf"][i - 1]) for o in cands):
            return ("%s:prob-not-policy" % kind, "%s returned action #%d with probability %r, its policy probability is %r" % (where, i, p, s1[i - 1]))
        if not any(i in o["idx"] for o in cands):
            return ("%s:action-not-the-drawn-one" % kind, "%s returned action #%d; with this seed and history the generator selects #%s from %r" % (where, i, cands[0]["idx"], s1))
        lastp = p
    return None


# ------------------------------------------------------------------ B: recording of real calls
def rat(x):
    """float -> [num, den] of the nearest small rational when it is one within 1e-12, else [-1, 1] (no policy contains it)"""
    if isinstance(x, bool) or not isinstance(x, (int, float)) or not math.isfinite(x) or x < 0: return [-1, 1]
    fx = Fraction(x); fr = fx.limit_denominator(5000)
    return [fr.numerator, fr.denominator] if abs(fx - fr) <= TOL else [-1, 1]


def sv(x):
    """float -> [sign, round(|x| * 1e9)] (sign 2 = not a finite number below 2)"""
    if isinstance(x, bool) or not isinstance(x, (int, float)) or not math.isfinite(x) or abs(x) >= 2: return dict(sg=2, v=0)
    return dict(sg=(x > 0) - (x < 0), v=int(round(abs(x) * 1e9)))


def _into(offer, actions):
    """the caller keeps ONE list object for the offered actions and refills it in place every round (an environment that
    edits its action list rather than building a new one): what a learner is offered is the list's content at the call"""
    offer[:] = actions
    return offer


def outcome(fn, *a, **k):
    try: return "ok", budget(fn, *a, **k)
    except Hang: return "hang", None
    except Exception as e: return "raised:%s" % type(e).__name__, "%s: %s" % (type(e).__name__, str(e)[:200])


def record_exact(cfg, rounds, ek):
    """rounds: ('predict', acts) | ('learn', a, r2, reward, prob).  -> events, note on the first failed call"""
    L, _ = make(cfg); evs = []; note = None; offer = []
    for n, rd in enumerate(rounds):
        ctxt = CONTEXTS[n % len(CONTEXTS)]
        if rd[0] == "learn":
            res, out = outcome(L.learn, ctxt, enc(ek, rd[1]), rd[3], rd[4])
            evs.append(dict(op="learn", a=rd[1], r2=rd[2], res=res))
            if res != "ok": note = "learn(action #%d, reward %r, probability %r) -> %s %s" % (rd[1], rd[3], rd[4], res, out or ""); break
            continue
        actions = [enc(ek, i) for i in rd[1]]
        def call():
            s1 = [L.score(ctxt, _into(offer, actions), a) for a in actions]
            pred = L.predict(ctxt, _into(offer, actions))
            s2 = [L.score(ctxt, _into(offer, actions), a) for a in actions]
            return s1, pred, s2
        res, out = outcome(call)
        if res != "ok":
            evs.append(dict(op="predict", acts=rd[1], res=res)); note = "predict / score over %r -> %s %s" % (actions, res, out); break
        s1, pred, s2 = out
        try: a, p = pred[0], pred[1]
        except Exception: a, p = None, None
        pm = [rat(x) if x == y else [-1, 1] for x, y in zip(s1, s2)]          # score must not depend on predict having been called
        evs.append(dict(op="predict", acts=rd[1], pmf=pm, ret=position(actions, a), p=rat(p), res="ok", raw=[repr(s1), repr(p)]))
    return evs, note


def record_corral(cfg, rounds, ek):
    """rounds: (acts, a, reward, pk) with pk = 'own' | 'score' | float.  One round = predict, score of every offered action,
    learn (with the info of that predict).  -> events, note, smallest learn probability used"""
    L, core = make(cfg); evs = []; note = None; minp = 1.0; offer = []
    for n, (acts, aid, reward, pk) in enumerate(rounds):
        ctxt = CONTEXTS[n % len(CONTEXTS)]
        actions = [enc(ek, i) for i in acts]
        res, pred = outcome(L.predict, ctxt, _into(offer, actions))
        if res != "ok":
            evs.append(dict(op="cpredict", acts=acts, res=res)); note = "round %d predict -> %s %s" % (n + 1, res, pred); break
        try: a, p, info = pred
        except Exception:
            evs.append(dict(op="cpredict", acts=acts, res="malformed")); note = "round %d predict returned %r" % (n + 1, pred); break
        bacts = [position(actions, b) for b in info["info"][0]]
        evs.append(dict(op="cpredict", acts=acts, bacts=bacts, ret=position(actions, a), p=sv(p), res="ok", raw=repr(p)))
        bad = False
        for j, act in enumerate(actions):
            res, val = outcome(L.score, ctxt, _into(offer, actions), act)
            evs.append(dict(op="cscore", acts=acts, a=j + 1, val=sv(val) if res == "ok" else None, res=res, raw=repr(val)))
            if res != "ok": note = "round %d score(action #%d) -> %s %s" % (n + 1, j + 1, res, val); bad = True; break
        if bad: break
        la, lp = a, p
        if pk == "score":
            res, val = outcome(L.score, ctxt, _into(offer, actions), actions[aid - 1])
            evs.append(dict(op="cscore", acts=acts, a=aid, val=sv(val) if res == "ok" else None, res=res, raw=repr(val)))
            if res != "ok": note = "round %d score -> %s %s" % (n + 1, res, val); break
            if isinstance(val, (int, float)) and val > 0: la, lp = actions[aid - 1], val
        elif pk != "own":
            la, lp = actions[aid - 1], pk
        if isinstance(lp, (int, float)): minp = min(minp, lp)
        res, out = outcome(L.learn, ctxt, la, reward, lp, **info)
        evs.append(dict(op="clearn", res=res, ps=[sv(x) for x in core._ps], pb=[sv(x) for x in core._p_bars],
                        raw="learn(action #%d, reward=%r, probability=%r)" % (position(actions, la), reward, lp)))
        if res != "ok": note = "round %d learn(action #%d, reward=%r, probability=%r) -> %s %s" % (n + 1, position(actions, la), reward, lp, res, out or ""); break
    return evs, note, minp


def corral_signature(cfg, minp, ev):
    """Name the class of a rejected Corral call (the verdict is TLC's).  The two input corners in which the unchanged root
    search is known to break down get their own prefix so that everything else stays reported."""
    eta = cfg["etan"] / cfg["etad"]
    cls = "corral:eta>2" if eta > 2 else ("corral:probability<1e-3" if minp < 1e-3 else "corral")
    if ev is None: return cls + ":trace-rejected"
    op, res = ev["op"], ev.get("res")
    if op == "clearn":
        if res == "hang": return cls + ":learn-hangs"
        if cls != "corral": return cls + ":weight-update-fails"
        if res != "ok": return cls + ":learn-" + res.replace("raised:", "raises:")
        if any(x["sg"] != 1 for x in ev["ps"] + ev["pb"]): return cls + ":weights-not-positive"
        return cls + ":weights-not-a-distribution"
    name = "predict" if op == "cpredict" else "score"
    if res != "ok": return cls + ":%s-%s" % (name, res.replace("raised:", "raises:"))
    return cls + ":%s-inconsistent" % name


# ------------------------------------------------------------------ inputs drawn from ctx.seed
def base_cfg(k, seed, w=(), wd=1, o=None):
    d = dict(k=k, seed=seed, w=list(w), wd=wd)
    if o: d["o"] = o
    return d


def cfg_rec(k, seed=1, en=0, ed=1, w=(), wd=1, mis=None, M=0, bases=(), T=0, mode="importance", eta=(0, 1)):
    return dict(k=k, seed=seed, en=en, ed=ed, w=list(w), wd=wd, mis=bool(mis), shn=(mis or (0, 1, 1))[0], scn=(mis or (0, 1, 1))[1], md=(mis or (0, 1, 1))[2],
                M=M, bases=list(bases), T=T, mode=mode, etan=eta[0], etad=eta[1])


A_, C_, M_ = 116646453, 9, 2 ** 30
AINV = pow(A_, -1, M_)


def prev(s, k=1):
    for _ in range(k): s = ((s - C_) * AINV) % M_
    return s


def rand_exact(rng, nrounds):
    seed = rng.choice([1, rng.randrange(M_), rng.randrange(100), prev(0, rng.randrange(1, 6)), prev(2 ** 29, rng.randrange(1, 4)), prev(M_ - 1, rng.randrange(1, 4))])
    k = rng.choice(["random", "fixed", "eps", "eps", "eps", "ucb", "ucb"])
    mis = rng.choice([None, None, (-1, 2, 2), (1, -1, 1), (1, 1, 4), (0, 2, 1), (-3, 1, 2)])
    K = rng.randrange(1, 7)
    if k == "fixed":
        wd = rng.choice([1, 2, 4, 8, 10, 16]); n = rng.randrange(1, 6); cuts = sorted(rng.randrange(0, wd + 1) for _ in range(n - 1))
        w = [b - a for a, b in zip([0] + cuts, cuts + [wd])]
        cfg = cfg_rec("fixed", seed, w=w, wd=wd, mis=mis)
    elif k == "eps":
        en, ed = rng.choice([(0, 1), (1, 1), (1, 2), (1, 20), (1, 10), (1, 4), (3, 4), (1, 3)])
        cfg = cfg_rec("eps", seed, en=en, ed=ed, mis=mis)
    else: cfg = cfg_rec(k, seed, mis=mis)
    rounds = []
    pool = list(range(1, K + 1))
    for _ in range(nrounds):
        if k == "fixed": acts = rng.sample(range(1, 7), len(cfg["w"]))
        else:
            live = [a for a in pool if rng.random() < .8] or [rng.choice(pool)]        # actions appear and disappear
            rng.shuffle(live); acts = live[:rng.randrange(1, len(live) + 1)] if rng.random() < .3 else live
        rounds.append(("predict", acts))
        for _ in range(rng.choice([0, 1, 1, 1, 2])):
            a = rng.choice(acts) if rng.random() < .8 else rng.randrange(1, 7)        # logged data may name an action not offered now
            r2 = rng.choice([0, 1, 2]) if rng.random() < .7 else rng.choice([0, 2])
            if k == "ucb" and not cfg["mis"] and rng.random() < .5: reward = rng.choice([rng.random(), 0.0, 1.0, 1e-300, 1 - 2 ** -53])   # UCB's exact part ignores the value
            else: reward = r2 / 2
            rounds.append(("learn", a, r2, reward, rng.choice([1.0, 0.5, rng.random() or 1.0, 1e-6])))
    return cfg, rounds


def rand_corral(rng, nrounds, corner):
    """corner: None (ordinary use: eta <= 2, probabilities >= 0.02), 'eta' (eta > 2), 'prob' (logged probabilities down to 1e-12)"""
    M = rng.choice([2, 2, 3, 4]); K = rng.choice([2, 3, 3, 4, 5])
    kind = rng.choice(["onehot", "fixed", "random", "mixed", "opaque"])
    def one(i):
        s = rng.randrange(1, 1000)
        if kind == "onehot": return base_cfg("fixed", s, [int(j == i % K) for j in range(K)], 1)
        if kind == "random": return base_cfg("random", s)
        t = kind if kind in ("fixed", "opaque") else rng.choice(["fixed", "random", "opaque", "onehot"])
        if t == "onehot": return base_cfg("fixed", s, [int(j == i % K) for j in range(K)], 1)
        if t == "random": return base_cfg("random", s)
        if t == "fixed":
            wd = rng.choice([2, 4, 8]); cuts = sorted(rng.randrange(0, wd + 1) for _ in range(K - 1))
            return base_cfg("fixed", s, [b - a for a, b in zip([0] + cuts, cuts + [wd])], wd)
        return base_cfg("opaque", s, o=dict(t=rng.choice(["eps", "ucb"]), eps=rng.choice([0, .1, 1]), mis=rng.choice([None, None, (1.0, -1.0), (.25, .5)])))
    eta = rng.choice([(3, 40), (3, 40), (1, 1000), (1, 2), (1, 1), (3, 2), (2, 1)]) if corner != "eta" else rng.choice([(5, 1), (10, 1), (100, 1)])
    mis = rng.choice([None, None, None, (1, -1, 1), (1, 2, 4)])                       # 1-r and 1/4 + r/2 keep rewards inside [0,1]
    cfg = cfg_rec("corral", rng.randrange(1, 100), mis=mis, M=M, bases=[one(i) for i in range(M)], T=rng.choice([0, 0, 2, 10, 100, 500]),
                  mode=rng.choice(["importance", "off-policy"]), eta=eta)
    rounds = []
    fixed_size = any(b["k"] == "fixed" for b in cfg["bases"])
    for _ in range(nrounds):
        acts = rng.sample(range(1, 7), K) if fixed_size else rng.sample(range(1, 7), rng.randrange(1, 6))
        pk = rng.choice(["own", "own", "own", "score", 0.02, 0.1, 0.5, 1.0] if corner != "prob" else ["own", "own", 1e-4, 1e-6, 1e-6, 1e-12])
        reward = rng.choice([0.0, 0.5, 1.0, 0, 1, rng.random(), 1 - 1e-4 * rng.random(), 1e-4 * rng.random()])
        rounds.append((acts, rng.randrange(1, len(acts) + 1), reward, pk))
    return cfg, rounds


def onehot_corral(M, eta, mode="importance", T=0):
    """= MC_Learners!Cor: Corral over M one-hot FixedLearners on M actions"""
    return cfg_rec("corral", 1, M=M, bases=[base_cfg("fixed", i + 1, [int(j == i) for j in range(M)], 1) for i in range(M)], T=T, mode=mode, eta=eta)


DIRECTED_CORNERS = [
    (2, (100, 1), "importance", [(1, 0.0, "score")] * 3),                                                     # eta = 100, on-policy: the third full loss
    (2, (10, 1), "importance", [(1, 0.0, "score"), (1, 0.0, "score"), (2, 0.5, "score"), (2, 0.5, "score")]),
    (2, (5, 1), "importance", [(1, 0.0, 1e-12), (2, 0.0, 1e-12)]),                                            # eta = 5 and importance weight 1e12
    (2, (3, 40), "importance", [(1, 0.5, 1e-6), (2, 0.0, 1e-6)]),                                             # default eta, logged probability 1e-6
    (3, (3, 40), "importance", [(1, 0.0, 1e-12), (2, 0.5, 1e-12), (3, 0.0, 1e-12)]),
    (2, (2, 1), "off-policy", [(1, 0.5, "score"), (1, 0.5, "score"), (1, 0.0, 1e-12), (2, 0.0, 1e-12)]),
]


# ------------------------------------------------------------------ the check
def tlc_gen(ctx, name, sub, sim=None, depth=None, heap="8g"):
    cfg = tracecheck._cfg("Learners.cfg", sub, ctx.scratch, "lrn_%s.cfg" % name)
    empty = ctx.scratch + "/no_traces.json"; open(empty, "w").write("[]")
    kw = dict(simulate=sim, depth=depth) if sim else {}
    r = tlc.run("MC_Learners", cfg, ctx.scratch, workers=16, timeout=3000, heap=heap, seed=ctx.seed, env={"TRACE_FILE": empty}, **kw)
    ctx.add_tlc("Learners_" + name, r)
    for v in r.violations:
        ctx.violation("spec:%s" % (v["name"] or v["kind"]), "Learners.tla itself violates %s %s" % (v["kind"], v["name"]), v["trace"][:80])
    out = [b for b in r.json if isinstance(b, dict) and "steps" in b]
    r.json = None; r.out = ""
    return out


TRACE_SUB = {"SPECIFICATION GenSpec": "SPECIFICATION TraceSpec", "INVARIANT Emit": "INVARIANT Accept", "INVARIANT PolicyInv": "INVARIANT CorralInv",
             "INVARIANT EpsFloor\n": "", "INVARIANT UcbUnseenFirst\n": "", "PROPERTY NoLearnEffect\n": "", "MaxAct = 4": "MaxAct = 6", "Inst <- mcInst": "Inst <- mcInst"}


def _slim(t):
    cfg = dict(t["cfg"]); cfg["bases"] = [{k: v for k, v in b.items() if k != "o"} for b in cfg["bases"]]
    return dict(cfg=cfg, ev=[{k: v for k, v in e.items() if k != "raw"} for e in t["ev"]])


def validate(ctx, name, traces, meta):
    """traces: [{cfg, ev, ..}]; meta[i](event, position, reason) -> (signature, what).  One TLC run accepts / rejects the batch,
    a second one (Diag) reports for all rejected traces together how far the spec could follow them."""
    if not traces: return
    def go(tag, batch, extra_inv=""):
        tf = "%s/%s_%s.json" % (ctx.scratch, name, tag); json.dump(batch, open(tf, "w"))
        cfgp = tracecheck._cfg("Learners.cfg", TRACE_SUB, ctx.scratch, "%s_%s.cfg" % (name, tag))
        if extra_inv: open(cfgp, "a").write("\nINVARIANT %s\n" % extra_inv)
        return tlc.run("MC_Learners", cfgp, ctx.scratch, workers=6, env={"TRACE_FILE": tf}, timeout=3000, continue_=True, heap="16g", seed=ctx.seed)
    slim = [_slim(t) for t in traces]
    r = go("acc", slim)
    ctx.states += r.distinct; ctx.transitions += r.generated
    ctx.tlc_runs.append({"name": name, "generated": r.generated, "distinct": r.distinct, "depth": r.depth, "wall_s": round(r.wall, 2), "traces": len(traces)})
    acc = {j["acc"] for j in r.json if isinstance(j, dict) and "acc" in j}
    bad = {}
    for v in r.violations:
        for ln in v["trace"]:
            if "tid = " in ln:
                try: bad.setdefault(int(ln.split("tid = ")[1].split()[0]), "%s %s" % (v["kind"], v["name"]))
                except Exception: pass
    ctx.traces += len(traces)
    rej = [i for i in range(len(traces)) if (i + 1) not in acc or (i + 1) in bad]
    if not rej: return
    d = go("diag", [slim[i] for i in rej], "Diag")
    reach = {}
    for j in d.json:
        if isinstance(j, dict) and "l" in j and "tid" in j: reach[j["tid"]] = max(reach.get(j["tid"], 0), j["l"])
    for k, i in enumerate(rej):
        posn = reach.get(k + 1); evs = traces[i]["ev"]
        at = evs[posn - 1] if posn and posn <= len(evs) else None
        sig, what = meta[i](at, posn, bad.get(i + 1, "no behaviour of the specification explains the recorded calls"))
        ctx.violation(sig, what, dict(cfg=traces[i]["cfg"], input=traces[i].get("input"), encoding=traces[i].get("enc"), events=evs[:posn or len(evs)][-12:]))


def describe_corral(cfg, note, minp, rounds):
    def describe(at, posn, reason):
        sig = corral_signature(cfg, minp, at)
        what = "%s; call #%s %s %s   learner=%s rounds=%s" % (reason, posn, {k: v for k, v in (at or {}).items() if k in ("op", "res", "raw", "bacts", "ret")}, note or "", _short(cfg), json.dumps(rounds, default=str)[:260])
        return sig, what
    return describe


def describe_exact(cfg, note):
    def describe(at, posn, reason):
        kind = cfg["k"] + ("+misguided" if cfg["mis"] else "")
        op = (at or {}).get("op", "?"); res = (at or {}).get("res", "ok")
        sig = "%s:%s-%s" % (kind, op, res.replace("raised:", "raises:")) if res != "ok" else "%s:%s-rejected" % (kind, op)
        return sig, "%s; call #%s %s %s   learner=%s" % (reason, posn, {k: v for k, v in (at or {}).items() if k in ("op", "acts", "a", "r2", "ret", "raw", "res")}, note or "", _short(cfg))
    return describe


def replay_one(ctx, c):
    """./check C16 --replay replays/C16/<sha>.json : one recorded case against the current tree"""
    ctx.case("replay")
    if "steps" in c:
        bad = replay_exact(c["cfg"], c["steps"], c["encoding"], c["salt"]); ctx.traces += 1
        if bad: ctx.violation(bad[0], bad[1], c)
        return
    cfg, rounds, ek = c["cfg"], [tuple(r) for r in c["input"]], c["encoding"]
    if cfg["k"] == "corral":
        evs, note, minp = record_corral(cfg, rounds, ek); d = describe_corral(cfg, note, minp, rounds)
    else:
        evs, note = record_exact(cfg, rounds, ek); d = describe_exact(cfg, note)
    validate(ctx, "replay", [dict(cfg=cfg, ev=evs, input=rounds, enc=ek)], [d])


def run(ctx):
    signal.signal(signal.SIGALRM, _alarm)
    if ctx.replay: return replay_one(ctx, json.load(open(ctx.replay))["case"])
    rng = random.Random(ctx.seed)
    t0 = time.time()
    # ---------------- A: exact learners, TLC-enumerated behaviours replayed
    deep = {"ActSets <- AS3": "ActSets <- AS4", "LearnActs <- R3A": "LearnActs <- R4A"}
    if ctx.quick:
        runs = [("exact3", {}, None, None),
                ("exact-sim", dict(deep, **{"Configs <- ExactQuick": "Configs <- ExactAll", "MaxOps = 3": "MaxOps = 14"}), dict(num=6), 15)]
    else:
        runs = [("exact3-all", {"Configs <- ExactQuick": "Configs <- ExactAll"}, None, None),
                ("epsucb4", {"Configs <- ExactQuick": "Configs <- EpsUcbOnly", "ActSets <- AS3": "ActSets <- AS3s", "MaxOps = 3": "MaxOps = 4"}, None, None),
                ("exact-sim", dict(deep, **{"Configs <- ExactQuick": "Configs <- ExactAll", "MaxOps = 3": "MaxOps = 40"}), dict(num=40), 41)]
    nreplayed = 0
    for name, sub, sim, depth in runs:
        behs = tlc_gen(ctx, name, sub, sim, depth, heap="16g")
        if len(behs) < 1000: raise RuntimeError("Learners %s produced only %d behaviours" % (name, len(behs)))
        if not sim: ctx.exhaustive = True if ctx.exhaustive is None else ctx.exhaustive
        seen = set(); smp = None
        for b in behs:
            key = hashlib.sha1(json.dumps(b, sort_keys=True).encode()).hexdigest()[:20]
            if key in seen: continue
            seen.add(key); ctx.case(key)
            salt = int(key[:8], 16)                      # TLC's output order varies with its workers: everything per behaviour derives from its content
            if smp is None or key < smp[0]: smp = (key, b)
            if len(b["steps"]) >= 10: eks = (ENCODINGS[salt % 6],)
            elif ctx.quick: eks = (ENCODINGS[salt % 6], ENCODINGS[(salt // 6 + 3) % 6])
            elif len(b["steps"]) >= 4: eks = tuple(ENCODINGS[(salt + k) % 6] for k in (0, 2, 3))
            else: eks = ENCODINGS
            for ek in eks:
                bad = replay_exact(b["cfg"], b["steps"], ek, salt)
                nreplayed += 1
                if bad:
                    ctx.violation(bad[0], "%s [actions as %s] learner=%s calls=%s" % (bad[1], ek, _short(b["cfg"]), json.dumps([{k: v for k, v in s.items() if k != "out"} for s in b["steps"]])[:300]),
                                  dict(cfg=b["cfg"], steps=b["steps"], encoding=ek, salt=salt))
                    break
        if smp: ctx.sample(dict(cfg=_short(smp[1]["cfg"]), steps=smp[1]["steps"][:4]), limit=2)
        del behs
    ctx.traces += nreplayed
    ctx.extra["replayed_behaviour_x_encoding"] = nreplayed
    ctx.extra["seconds_A"] = round(time.time() - t0, 1); t1 = time.time()

    # ---------------- B: recorded calls of the real learners, judged by TraceSpec (in batches)
    traces = []; meta = []; stat = dict(batches=0, events=0, corral=0, exact=0, tval=0.0)
    def flush(force=False):
        if not traces or (not force and sum(len(t["ev"]) for t in traces) < 400000): return
        if stat["batches"] == 0:
            ctx.sample(dict(cfg=_short(traces[0]["cfg"]), ev=traces[0]["ev"][:5]), limit=3); ctx.sample(dict(cfg=_short(traces[-1]["cfg"]), ev=traces[-1]["ev"][:4]), limit=4)
        tv = time.time()
        validate(ctx, "lrn_trace%d" % stat["batches"], traces, meta)
        stat["tval"] += time.time() - tv; stat["batches"] += 1; stat["events"] += sum(len(t["ev"]) for t in traces)
        del traces[:]; del meta[:]
    def add_corral(cfg, rounds, ek):
        evs, note, minp = record_corral(cfg, rounds, ek)
        ctx.case(hashlib.sha1(json.dumps([cfg, rounds, ek], sort_keys=True, default=str).encode()).hexdigest()[:20])
        describe = describe_corral(cfg, note, minp, rounds)
        traces.append(dict(cfg=cfg, ev=evs, input=rounds, enc=ek)); meta.append(describe); stat["corral"] += 1
        flush()
    # B1: Corral rounds enumerated by TLC (inputs only): M one-hot bases on M actions
    cor = lambda configs, pks, rewards, n: {"Configs <- ExactQuick": "Configs <- " + configs, "PKs <- PKScore": "PKs <- " + pks, "Rewards <- R3": "Rewards <- " + rewards, "MaxOps = 3": "MaxOps = %d" % n,
                                           "INVARIANT PolicyInv\n": "", "INVARIANT EpsFloor\n": "", "INVARIANT UcbUnseenFirst\n": "", "PROPERTY NoLearnEffect\n": ""}
    if ctx.quick:
        cruns = [("corral23", cor("CorralQuick23", "PKSome", "R3", 2)), ("corral4", cor("CorralDeep4", "PKScore", "R2", 3))]
    else:
        cruns = [("corral2", cor("CorralAll2", "PKSome", "R3", 3)), ("corral3", cor("CorralAll3", "PKMore", "R3", 2)),
                 ("corral2-4", cor("CorralQuick", "PKScore", "R3", 4)), ("corral4", cor("CorralDeep4All", "PKScore", "R2", 4))]
    for name, sub in cruns:
        behs = tlc_gen(ctx, name, sub)
        if len(behs) < 500: raise RuntimeError("Learners %s produced only %d Corral histories" % (name, len(behs)))
        behs.sort(key=lambda b: json.dumps(b, sort_keys=True))
        for b in behs:
            rounds = [(s["acts"], s["a"], s["r2"] / 2, "score" if s["pk"]["t"] == "score" else s["pk"]["pn"] / s["pk"]["pd"]) for s in b["steps"]]
            j = int(hashlib.sha1(json.dumps(b, sort_keys=True).encode()).hexdigest()[:8], 16)
            add_corral(b["cfg"], rounds, ENCODINGS[j % 6] if j % 3 == 0 else "int")
        del behs
    # B2: seeded-random histories: Corral in ordinary use, then the two corners, then the other learners
    for j in range(ctx.pick(150, 1500)):
        cfg, rounds = rand_corral(rng, rng.choice([5, 15, 40]) if ctx.quick else rng.choice([5, 30, 100]), None)
        add_corral(cfg, rounds, ENCODINGS[j % 6])
    for M, eta, mode, rounds in DIRECTED_CORNERS:       # the smallest histories found for each way the corners fail (stable across seeds)
        add_corral(onehot_corral(M, eta, mode), [(list(range(1, M + 1)), a, r, pk) for a, r, pk in rounds], "int")
    for corner in ("eta", "prob"):
        for j in range(ctx.pick(30, 300)):
            cfg, rounds = rand_corral(rng, rng.choice([5, 20, 60]), corner)
            add_corral(cfg, rounds, ENCODINGS[j % 6])
    for j in range(ctx.pick(300, 3000)):
        nr = rng.choice([5, 20, 60]) if ctx.quick else rng.choice([10, 60, 150])
        cfg, rounds = rand_exact(rng, nr); ek = ENCODINGS[j % 6]
        evs, note = record_exact(cfg, rounds, ek)
        ctx.case(hashlib.sha1(json.dumps([cfg, rounds, ek], sort_keys=True, default=str).encode()).hexdigest()[:20])
        describe = describe_exact(cfg, note)
        traces.append(dict(cfg=cfg, ev=evs, input=rounds, enc=ek)); meta.append(describe); stat["exact"] += 1
        flush()
    flush(True)
    ctx.extra["recorded"] = dict(corral_histories=stat["corral"], other_histories=stat["exact"], calls=stat["events"])
    ctx.extra["seconds_B"] = round(time.time() - t1, 1); ctx.extra["seconds_B_tlc"] = round(stat["tval"], 1)
    ctx.assumptions += [
        "rewards given to the exact learners are 0, 1/2, 1 (dyadic after a Misguided transform with power-of-two denominators): the running mean is then a small rational; an exact tie that involves a rounded float mean may be broken either way (spec: firm)",
        "FixedLearner is used with action sets of the size of its pmf; action sets have no duplicates; Corral: T > 1, rewards in [0,1], probability > 0",
        "float-valued probabilities are compared to 1e-12 (exact learners) / 1e-9 (Corral's reported probability against its own p_bar) / 1e-4 (sum of Corral's weights); UCB's index and Corral's root are not recomputed",
        "at a generator state where u*total equals a cumulative weight exactly, either neighbouring action is accepted (float rounding of the rational weights)",
        "regret / statistical quality, VowpalWabbit, LinUCB, LinTS learners (optional packages) are not covered"]


def _short(cfg):
    d = {k: v for k, v in cfg.items() if not (k in ("M", "bases", "T", "mode", "etan", "etad") and cfg["k"] != "corral") and not (k in ("shn", "scn", "md") and not cfg["mis"])
         and not (k in ("en", "ed") and cfg["k"] != "eps") and not (k in ("w", "wd") and cfg["k"] != "fixed")}
    return d
