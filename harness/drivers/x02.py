"""X02 - rejection-sampling evaluation and the logging filter: spec/Rejection.tla, MC_Rejection.tla, LoggedFilter.tla.

Part A (RejectionCB).  TLC enumerates small logged environments x cpct x (cmax, cinit) x seed from MC_Rejection.tla
(checking the design invariants on the way); the driver adds seeded-random longer environments (also > 100
interactions so that the "first 100" rule matters, probabilities in eighths, sixteenths and twelfths), pairs of
environments with different probability scales evaluated one after the other by the SAME evaluator object, and
directed cases (the uniform exactly on the acceptance threshold at a chosen position, u = 0 with a zero score,
one-action interactions, invalid inputs).  Every case is run through the real RejectionCB with a recording learner
(every score / learn call, its own scores a function of context and of what it has learned, learning_info written
in both calls) and a recording generator (the CobaRandom the evaluator constructs: its seed and every uniform);
the recorded execution [rng probe score draw learn row ... end | reject] is validated by TLC against Rejection.tla:
one score per interaction with exactly its context / actions / logged action, one uniform, acceptance iff
u <= c*on/log with the exact rational c of the rule, learn(context, logged action, logged reward, on) and one row
with the requested fields on acceptance, nothing on rejection.

Part B (Logged / Environments.logged).  Simulated environments (unbatched and batched, changing action sets, list and
functional rewards, an extra field) are read several times through one Logged object (directly and through
Environments.logged) with a recording logging learner answering (action, probability) or a PMF; the recorded
executions are validated by TLC against LoggedFilter.tla (PMF draws computed with the real generator constants)."""
import json, random, math, os, copy, time
from fractions import Fraction
from .. import tlc, tracecheck

FINISH = dict(level="model_checking",
              rule="a case = one execution of the real RejectionCB (environment x mode x seed x record list) or of the real Logged filter (environment x format x seed x batching x reads) recorded as a call trace and validated by TLC; distinct = distinct traces")
NOVAL = -1
OFFGRID = -999
RG = 4
MOD = 2 ** 30
LCG_A, LCG_C = 116646453, 9
INV_A = pow(LCG_A, -1, MOD)
RECS = [["reward"], ["reward", "action", "probability"], ["context", "actions"], [], ["time", "reward"], ["probability"], ["reward", "context", "actions", "action", "probability", "time"]]

LOG = None        # the event list of the execution being recorded


def seed_for(target, k):
    """the seed whose k-th uniform (k >= 1) has the numerator `target`"""
    s = target
    for _ in range(k): s = ((s - LCG_C) * INV_A) % MOD
    return s


def grid(x, G):
    if x is None: return NOVAL
    v = float(x) * G; r = round(v)
    return r if abs(v - r) < 1e-9 else OFFGRID


def lcm(a, b): return a * b // math.gcd(a, b)


def validate(ctx, module, base_cfg, traces, name, workers, chunk=8000):
    """validate_chunk on at most `chunk` traces at a time (TLC reads a whole batch into memory)"""
    out = []
    for k in range(0, len(traces), chunk):
        out += [(k + i, reason, pos) for i, reason, pos in validate_chunk(ctx, module, base_cfg, traces[k:k + chunk], "%s_%d" % (name, k // chunk), workers)]
    return out


def validate_chunk(ctx, module, base_cfg, traces, name, workers):
    """Batch trace validation (tracecheck's scheme: one TLC run accepts / rejects the batch) with ONE further run that reports, for all
    rejected traces together, how far the specification could follow each (invariant Diag).  -> [(index, reason, position)]"""
    if not traces: return []
    def go(tag, batch, extra_inv=""):
        tf = os.path.join(ctx.scratch, "%s_%s.json" % (name, tag)); json.dump(batch, open(tf, "w"))
        cfgp = tracecheck._cfg(base_cfg, {}, ctx.scratch, "%s_%s.cfg" % (name, tag))
        if extra_inv: open(cfgp, "a").write("\nINVARIANT %s\n" % extra_inv)
        return tlc.run(module, cfgp, ctx.scratch, workers=workers, env={"TRACE_FILE": tf}, timeout=3000, continue_=True, heap="8g", seed=ctx.seed)
    r = go("acc", traces)
    ctx.states += r.distinct; ctx.transitions += r.generated; ctx.traces += len(traces)
    ctx.tlc_runs.append({"name": name, "generated": r.generated, "distinct": r.distinct, "depth": r.depth, "wall_s": round(r.wall, 2), "traces": len(traces)})
    acc = {j["acc"] for j in r.json if isinstance(j, dict) and "acc" in j}
    bad = {}
    for v in r.violations:
        for ln in v["trace"]:
            if "tid = " in ln:
                try: bad.setdefault(int(ln.split("tid = ")[1].split()[0]), "%s %s" % (v["kind"], v["name"]))
                except Exception: pass
    rej = [i for i in range(len(traces)) if (i + 1) not in acc or (i + 1) in bad]
    if not rej: return []
    d = go("diag", [traces[i] for i in rej], "Diag")
    reach = {}
    for j in d.json:
        if isinstance(j, dict) and "l" in j and "tid" in j: reach[j["tid"]] = max(reach.get(j["tid"], 0), j["l"])
    return [(i, bad.get(i + 1, "no behaviour of the specification explains the recorded execution"), reach.get(k + 1)) for k, i in enumerate(rej)]


# ------------------------------------------------------------------------------------------------ part A: recording pieces
def make_rec_random():
    from coba.random import CobaRandom

    class RecRandom(CobaRandom):
        """The generator the evaluator constructs, observed: its seed and every uniform it hands out."""
        def __init__(self, seed=None):
            super().__init__(seed)
            if LOG is not None: LOG.append(dict(e="rng", seed=seed if isinstance(seed, int) and not isinstance(seed, bool) and 0 <= seed < 2 ** 31 else (NOVAL if seed is None else OFFGRID)))
        def random(self, *a, **k):
            x = super().random(*a, **k)
            if LOG is not None: LOG.append(dict(e="draw", s=int(x * MOD) if not a and not k else OFFGRID))
            return x
    return RecRandom


class ScoreLearner:
    """Recording learner.  score of the logged action = table[(context id + learns so far * step) mod len] / G."""
    def __init__(self, ctx_id, act_id, G, table, step, info):
        self.ctx_id = ctx_id; self.act_id = act_id; self.G = G; self.table = table; self.step = step; self.info = info
        self.nscore = 0; self.nlearn = 0
    @property
    def params(self): return {"family": "x02"}
    def score(self, context, actions, action):
        from coba.context import CobaContext
        if actions is None and action is None and context is None:
            LOG.append(dict(e="probe")); return 1.0
        self.nscore += 1
        c = self.ctx_id(context)
        s = self.table[(c + self.nlearn * self.step) % len(self.table)]
        LOG.append(dict(e="score", ctx=c, acts=[self.act_id(a) for a in actions], a=self.act_id(action), rs=s))
        if self.info: CobaContext.learning_info["sc"] = self.nscore
        return s / self.G
    def learn(self, context, action, reward, probability):
        from coba.context import CobaContext
        self.nlearn += 1
        LOG.append(dict(e="learn", ctx=self.ctx_id(context), a=self.act_id(action), r=grid(reward, RG), p=grid(probability, self.G)))
        if self.info: CobaContext.learning_info["li"] = self.nlearn


class NoScoreLearner:
    @property
    def params(self): return {"family": "x02-noscore"}
    def predict(self, context, actions):
        LOG.append(dict(e="predict")); return actions[0], 1.0
    def learn(self, context, action, reward, probability):
        LOG.append(dict(e="learn", ctx=NOVAL, a=NOVAL, r=NOVAL, p=NOVAL))


class ListEnv:
    def __init__(self, its, batch=0): self.its = its; self.batch = batch
    @property
    def params(self): return {}
    def read(self):
        from coba.environments import Batch
        its = [dict(i) for i in self.its]
        return Batch(self.batch).filter(its) if self.batch else iter(its)


def ctx_id(c):
    if isinstance(c, dict): return int(c["f"])
    if isinstance(c, (tuple, list)): return int(c[0])
    return int(c)


def act_id(a):
    return int(a[1:]) if isinstance(a, str) else int(a)


def build_env(abst, ctxkind, actkind, with_rewards, extra):
    """abstract env [ctx, acts, la, lr, lp] + G -> coba interaction dicts"""
    its = []
    for x in abst["env"]:
        i = x["ctx"]
        ctx = {"scalar": i, "dense": (i, 1.5), "sparse": {"f": i}}[ctxkind]
        mk = (lambda a: "a%d" % a) if actkind == "str" else (lambda a: a)
        acts = [mk(a) for a in x["acts"]]
        it = dict(context=ctx, actions=acts, action=mk(x["la"]), reward=x["lr"] / RG, probability=x["lp"] / abst["G"])
        if with_rewards: it["rewards"] = [0.25] * len(acts)
        if extra: it["ex"] = 100 + i
        its.append(it)
    return its


def run_rejection(ctx, evaluator, abst, mode, table, step, variant):
    """One evaluate() of the real RejectionCB; returns the trace dict or None (violation already reported)."""
    global LOG
    from coba.exceptions import CobaException
    from coba.context import CobaContext
    its = build_env(abst, variant["ctxkind"], variant["actkind"], variant["with_rewards"], variant["extra"])
    kind = mode["kind"]; batch = 0
    if kind.startswith("nokey:"):
        for it in its: it.pop(kind.split(":")[1])
    if kind == "continuous":
        for it in its: it["actions"] = []
    if kind == "batched": batch = 2
    G = abst["G"]
    learner = NoScoreLearner() if kind == "noscore" else ScoreLearner(ctx_id, act_id, G, table, step, mode["info"])
    log = LOG = []
    CobaContext.store.pop("experiment_seed", None)
    if mode["sex"] != NOVAL: CobaContext.store["experiment_seed"] = mode["sex"]
    CobaContext.learning_info.clear(); CobaContext.learning_info["junk"] = 1          # left over from something earlier
    D = mode["D"]; ips = mode["ope"] == "ips"
    replay = dict(mode=mode, env=abst["env"], G=G, table=table, step=step, variant=variant)
    try:
        nrow = 0; since = 0; seen = 0
        for r in evaluator.evaluate(ListEnv(its, batch), learner):
            nrow += 1
            nscore = sum(1 for e in log[seen:] if e["e"] == "score"); seen = len(log)
            since = nscore if ips else 1
            ev = dict(e="row", n=nrow, ctx=ctx_id(r["context"]) if "context" in r else NOVAL, acts=[act_id(a) for a in r["actions"]] if "actions" in r else [],
                      a=act_id(r["action"]) if "action" in r else NOVAL, p=grid(r["probability"], G) if "probability" in r else NOVAL, rn=NOVAL, rc=NOVAL,
                      time=(1 if ("predict_time" in r and "learn_time" in r) else 0 if ("predict_time" not in r and "learn_time" not in r) else 2),
                      sc=r.get("sc", NOVAL), li=r.get("li", NOVAL),
                      junk=1 if set(r) - {"context", "actions", "action", "probability", "reward", "predict_time", "learn_time", "sc", "li"} else 0)
            if "reward" in r:
                v = float(r["reward"]) * since * D; rn = round(v)
                ev["rn"] = rn if abs(v - rn) < 1e-4 and abs(rn) < 2 ** 31 else OFFGRID; ev["rc"] = since
            log.append(ev)
        evs = list(log) + [dict(e="end")]
    except CobaException as e:
        evs = list(log) + [dict(e="reject")]
    except Exception as e:
        where = "other"
        if isinstance(e, ZeroDivisionError) and any(len(x["acts"]) == 1 for x in abst["env"][:100]): where = "first100:single-action"
        elif isinstance(e, IndexError) and not any(ev["e"] == "score" and ev["rs"] != 0 for ev in log): where = "update-c:no-ratio-seen"
        ctx.violation("raises:%s:%s" % (where, type(e).__name__), "RejectionCB(%s) raised %s: %s after %d recorded events" % (
            json.dumps({k: mode[k] for k in ("cpn", "cpd", "cmn", "cin", "sev", "sex", "ope")}), type(e).__name__, str(e)[:100], len(log)), replay)
        return None
    finally:
        LOG = None
        CobaContext.store.pop("experiment_seed", None); CobaContext.learning_info.clear()
    return dict(env=abst["env"], mode=mode, ev=evs, _replay=replay)


def mk_mode(G, env, rec, ope, cp, cmn, cin, sev, sex, kind="ok", info=False):
    L = 1
    for x in env: L = lcm(L, x["lp"])
    D = RG * L
    if ope == "ips" and len(env) * G * RG * L >= 2 ** 31: ope = "none"       # the reward sums must stay below 2^31 in TLC
    return dict(G=G, D=D, rec=list(rec), ope=ope, cpn=cp[0], cpd=cp[1], cmn=cmn, cin=cin, sev=sev, sex=sex, kind=kind, info=bool(info))


class Evaluators:
    """RejectionCB objects are REUSED for every case with the same constructor arguments: evaluate() calls on one object are independent."""
    def __init__(self): self.objs = {}; self.reused = 0
    def get(self, mode, fresh=False):
        from coba.evaluators import RejectionCB
        G = mode["G"]
        cpct = 0 if mode["cpn"] == 0 else 1 if mode["cpn"] == mode["cpd"] else (.005 if (mode["cpn"], mode["cpd"]) == (1, 200) else mode["cpn"] / mode["cpd"])
        args = dict(record=list(mode["rec"]), ope=None if mode["ope"] == "none" else mode["ope"], cpct=cpct, cmax=mode["cmn"] / G,
                    cinit=None if mode["cin"] == NOVAL else mode["cin"] / G, seed=None if mode["sev"] == NOVAL else mode["sev"])
        key = json.dumps(args, sort_keys=True)
        if fresh or key not in self.objs: self.objs[key] = RejectionCB(**args)
        else: self.reused += 1
        return self.objs[key]


def seed_variant(idx, s):
    """(evaluator seed, experiment seed): the effective seed is s in each variant"""
    return [(s, NOVAL), (NOVAL, s), (s, (s + 7) % MOD)][idx % 3]


def random_env(rng, G, n, small_after_100=False, k1_after=None):
    pool = rng.sample(range(1, G + 1), rng.choice([2, 3, 4]))
    if G == 16: pool = rng.sample([1, 2, 3, 4, 6, 8, 12, 16], rng.choice([2, 3, 4]))
    if small_after_100: pool = [p for p in pool if p * 2 >= G] or [G // 2, G]
    env = []
    for i in range(1, n + 1):
        k = rng.choice([2, 2, 3, 3, 4, 5]) if not (small_after_100 and i <= 100) else 2
        lp = rng.choice(pool)
        if small_after_100 and i > 100 and rng.random() < .3: lp = 1
        if k1_after is not None and i > k1_after and rng.random() < .1: k, lp = 1, G
        acts = [10 * (i % 90) + 1000 * (i // 90) + j for j in range(1, k + 1)]
        env.append(dict(ctx=i, acts=acts, la=rng.choice(acts), lr=rng.randrange(0, RG + 1), lp=lp))
    return env


def variant_of(rng):
    return dict(ctxkind=rng.choice(["scalar", "dense", "sparse"]), actkind=rng.choice(["int", "int", "str"]), with_rewards=rng.random() < .3, extra=rng.random() < .3)


def part_a(ctx, rng):
    import coba.evaluators.sequential as seqmod
    from coba.context import CobaContext, NullLogger
    CobaContext.logger = NullLogger()
    orig_random = seqmod.CobaRandom
    seqmod.CobaRandom = make_rec_random()          # a module-level name of the evaluator's module (no source hook)
    traces = []; evs = Evaluators()
    def add(t, group):
        if t is None: return
        t["_replay"]["group"] = group; traces.append(t)
    try:
        # ---- 1. the generator model: design invariants + the small cases
        cfg = tracecheck._cfg("MC_Rejection.cfg", {"MaxN = 2": "MaxN = %d" % ctx.pick(2, 3)}, ctx.scratch, "x02_gen.cfg")
        empty = os.path.join(ctx.scratch, "empty.json"); open(empty, "w").write("[]")
        r = tlc.run("MC_Rejection", cfg, ctx.scratch, workers=16, env={"TRACE_FILE": empty}, timeout=1500, heap="8g")
        if r.violations: raise RuntimeError("the generator model violates its own invariants: %s" % r.violations[0])
        ctx.add_tlc("rejection_gen", r, required_actions=())
        ctx.notes.append("generator model: %.1f s" % r.wall); t0 = time.time()
        cases = [j for j in r.json if isinstance(j, dict) and "hist" in j]
        cases.sort(key=lambda j: json.dumps(j, sort_keys=True))
        ctx.extra["generated_cases"] = len(cases)
        ctx.extra["generated_accept_patterns"] = len({tuple(h["acc"] for h in j["hist"]) for j in cases})
        ctx.extra["generated_cases_where_c_changes"] = sum(1 for j in cases if len({(h["cn"], h["cd"]) for h in j["hist"]}) > 1)
        # not vacuous: acceptances, rejections and re-estimated multipliers all occur among the finished cases
        if not (any(h["acc"] == 1 for j in cases for h in j["hist"]) and any(h["acc"] == 0 for j in cases for h in j["hist"]) and ctx.extra["generated_cases_where_c_changes"]):
            raise RuntimeError("vacuous generator model")
        # the naive reading "c*on/log <= 1 whenever cpct = 0" is NOT a property of the design: TLC must refute it
        cfg2 = tracecheck._cfg("MC_Rejection.cfg", {"INVARIANT Hindsight": "INVARIANT NaiveBound", "INVARIANT Emit\n": ""}, ctx.scratch, "x02_naive.cfg")
        r2 = tlc.run("MC_Rejection", cfg2, ctx.scratch, workers=4, env={"TRACE_FILE": empty}, timeout=600)
        ctx.extra["naive_bound_refuted_by_tlc"] = any(v["name"] == "NaiveBound" for v in r2.violations)
        if ctx.quick: cases = [c for k, c in enumerate(cases) if k % 2 == 0 or len(c["env"]) == 1]
        for idx, j in enumerate(cases):
            m = j["mode"]; env = [{k: x[k] for k in ("ctx", "acts", "la", "lr", "lp")} for x in j["env"]]
            table = [0] * (len(env) + 1)
            for x in j["env"]: table[x["ctx"]] = x["sc"]
            sev, sex = seed_variant(idx, m["sev"])
            mode = mk_mode(8, env, RECS[idx % len(RECS)], "ips" if idx % 2 else "none", (m["cpn"], m["cpd"]), m["cmn"], m["cin"], sev, sex, info=idx % 3 == 0)
            var = dict(ctxkind=["scalar", "dense", "sparse"][idx % 3], actkind=["int", "str"][(idx // 3) % 2], with_rewards=idx % 5 == 0, extra=idx % 4 == 0)
            ctx.case("gen:" + json.dumps([j["env"], j["mode"]], sort_keys=True))
            add(run_rejection(ctx, evs.get(mode), dict(env=env, G=8), mode, table, 0, var), "generated")
        ctx.notes.append("generated cases through the real RejectionCB: %.1f s" % (time.time() - t0)); t0 = time.time()
        # ---- 2. seeded-random longer environments
        nlong = ctx.pick(120, 1500)
        for k in range(nlong):
            G = [8, 16, 12][k % 3]
            big = k % 4 == 0
            n = rng.randrange(101, ctx.pick(180, 320)) if big else rng.randrange(3, 60)
            env = random_env(rng, G, n, small_after_100=big and k % 8 == 0, k1_after=100 if big else None)
            cp = rng.choice([(0, 1), (1, 200), (1, 200), (1, 4), (1, 2), (1, 1), (1, 10), (3, 4)])
            cmn = rng.choice([G, G, G // 2, 2 * G])
            cin = NOVAL if rng.random() < .7 else rng.randrange(1, cmn + 1)
            s = rng.choice([0, 1, 2, rng.randrange(MOD), rng.randrange(MOD)])
            sev, sex = seed_variant(rng.randrange(3), s)
            mode = mk_mode(G, env, rng.choice(RECS), rng.choice(["none", "ips"]), cp, cmn, cin, sev, sex, info=rng.random() < .5)
            table = [rng.randrange(0, G + 1) for _ in range(rng.choice([3, 5, 7]))]
            if rng.random() < .3: table = [t or 1 for t in table]
            ctx.case("long:%d:%s" % (k, json.dumps(mode, sort_keys=True)))
            add(run_rejection(ctx, evs.get(mode), dict(env=env, G=G), mode, table, rng.choice([0, 1, 2]), variant_of(rng)), "random")
        # ---- 3. one evaluator object, two environments with different probability scales, one after the other
        for k in range(ctx.pick(60, 500)):
            G = [8, 16, 12][k % 3]
            cp = rng.choice([(0, 1), (1, 200), (1, 2)]); s = rng.choice([0, 1, rng.randrange(MOD)])
            sev, sex = seed_variant(k, s); rec = rng.choice(RECS); ope = rng.choice(["none", "ips"])
            envs = []
            for scale in ("high", "low") if k % 2 == 0 else ("low", "high"):
                n = rng.randrange(4, 30); env = random_env(rng, G, n)
                for x in env: x["lp"] = rng.choice([G // 2, G * 3 // 4, G]) if scale == "high" else rng.choice([1, 2])
                envs.append(env)
            modes = [mk_mode(G, e, rec, ope, cp, G, NOVAL, sev, sex, info=k % 2 == 0) for e in envs]
            if modes[0]["ope"] != modes[1]["ope"]: modes = [dict(m, ope="none") for m in modes]
            ev = evs.get(modes[0], fresh=True)
            for e, m in zip(envs, modes):
                ctx.case("pair:%d:%d" % (k, len(e)))
                add(run_rejection(ctx, ev, dict(env=e, G=G), m, [G, G // 2, 1, G // 4], 1, variant_of(rng)), "same-object-pair")
        # ---- 4. directed cases
        def directed(name, G, env, table, step, **kw):
            mode = mk_mode(G, env, kw.pop("rec", ["reward", "probability"]), kw.pop("ope", "none"), kw.pop("cp", (1, 200)), kw.pop("cmn", G), kw.pop("cin", NOVAL),
                           kw.pop("sev", 1), kw.pop("sex", NOVAL), kind=kw.pop("kind", "ok"), info=kw.pop("info", False))
            ctx.case("directed:" + name)
            add(run_rejection(ctx, evs.get(mode, fresh=True), dict(env=env, G=G), mode, table, step, dict(ctxkind="scalar", actkind="int", with_rewards=False, extra=False)), "directed:" + name)
        def flat(G, n, lp, k=2): return [dict(ctx=i, acts=[10 * i + j for j in range(1, k + 1)], la=10 * i + 1, lr=i % 5, lp=lp) for i in range(1, n + 1)]
        for pos in (1, 2, 3, 5):
            for off, nm in ((0, "on"), (1, "above"), (-1, "below")):
                # c = 1, on/log = 1/2 throughout: the threshold is exactly 1/2
                directed("tie-%s-threshold@%d" % (nm, pos), 8, flat(8, 6, 4), [2], 0, cin=8, cp=(1, 1), sev=seed_for(2 ** 29 + off, pos))
                directed("tie-%s-threshold-first100@%d" % (nm, pos), 8, flat(8, 6, 4), [4], 0, cp=(0, 1), sev=seed_for(2 ** 29 + off, pos))      # c = min(1/2, (1/2)/1) = 1/2, on/log = 1
                directed("nonfirm-tie-%s@%d" % (nm, pos), 12, flat(12, 6, 8), [4], 0, cin=12, cp=(1, 1), sev=seed_for(2 ** 29 + off, pos))
        for pos in (2, 3):
            directed("u=0,on=0@%d" % pos, 8, flat(8, 4, 4), [4, 4, 0, 0, 4][: pos + 1] if pos == 2 else [4, 4, 4, 0], 0, cin=8, sev=seed_for(0, pos), info=True)
        directed("u=0,on=0@1", 8, flat(8, 3, 4), [4, 0, 4, 4], 0, cin=8, sev=seed_for(0, 1))
        directed("u=max", 8, flat(8, 3, 4), [4], 0, cin=8, sev=seed_for(MOD - 1, 1))
        one = flat(8, 4, 4); one[1] = dict(one[1], acts=[one[1]["acts"][0]], la=one[1]["acts"][0], lp=8)
        directed("single-action", 8, one, [4], 0)
        directed("single-action,cinit", 8, one, [4], 0, cin=4)
        directed("probability-one", 8, flat(8, 3, 8, k=3), [8, 0, 4], 0)
        late = flat(8, 130, 4); late[110] = dict(late[110], lp=1)
        directed("small-probability-after-100", 8, late, [4, 8], 1, cp=(0, 1))
        # the first uniform is 1/4, on = log: accepted at once iff c > 1/4.  c = 1/2 from the first 100 interactions; 1/8 if the
        # small probability at position 101 (or 130) were looked at; and 1/8 when it stands at position 100
        for at in (99, 100, 129):
            late = flat(8, 130, 4); late[at] = dict(late[at], lp=1)
            for cp in ((0, 1), (1, 200)):
                directed("first-uniform-1/4,small-probability@%d,cpct=%d/%d" % (at + 1, cp[0], cp[1]), 8, late, [4], 0, cp=cp, sev=seed_for(2 ** 28, 1))
        late1 = flat(8, 120, 4); late1[105] = dict(late1[105], acts=[late1[105]["acts"][0]], la=late1[105]["acts"][0], lp=8)
        directed("single-action-after-100", 8, late1, [4, 8], 1)
        directed("empty", 8, [], [4], 0)
        for kind in ("nokey:context", "nokey:action", "nokey:reward", "nokey:actions", "nokey:probability", "continuous", "batched", "noscore"):
            directed("invalid:" + kind, 8, flat(8, 4, 4), [4], 0, kind=kind)
            directed("invalid:" + kind + ",seed0", 8, flat(8, 4, 4), [4], 0, kind=kind, sev=0, cin=4, ope="ips")
        ctx.extra["evaluator_objects_reused"] = evs.reused
        ctx.notes.append("random / pair / directed cases through the real RejectionCB: %.1f s" % (time.time() - t0))
    finally:
        seqmod.CobaRandom = orig_random
    replays = [t.pop("_replay") for t in traces]
    ctx.sample(dict(traces[len(traces) // 3], env=traces[len(traces) // 3]["env"][:3], ev=traces[len(traces) // 3]["ev"][:12]), limit=2)
    ctx.extra["rejection_traces"] = len(traces)
    ctx.extra["rejection_events"] = sum(len(t["ev"]) for t in traces)
    ctx.extra["accepted_interactions"] = sum(1 for t in traces for e in t["ev"] if e["e"] == "learn")
    ctx.extra["scored_interactions"] = sum(1 for t in traces for e in t["ev"] if e["e"] == "score")
    order = sorted(range(len(traces)), key=lambda k: -len(traces[k]["ev"]))       # long traces first: better load balance
    rej = validate(ctx, "Rejection", "Rejection.cfg", [traces[k] for k in order], "x02_rejection", 16)
    for j, reason, pos in rej:
        k = order[j]; evl = traces[k]["ev"]; at = evl[pos - 1] if pos and pos <= len(evl) else None
        rp = replays[k]; grp = rp["group"].split("@")[0]
        where = at["e"] if at else "?"
        sig = "rejection:%s:%s" % ("invalid-input" if rp["mode"]["kind"] != "ok" else "same-object" if grp == "same-object-pair" else "trace", where)
        ctx.violation(sig, "%s; group %s; first unexplained event #%s of %d: %s (previous: %s)   mode=%s" % (
            reason, rp["group"], pos, len(evl), at, evl[pos - 2] if pos and pos >= 2 else None, json.dumps(rp["mode"])), dict(rp, ev=evl[: (pos or 0) + 3]))


# ------------------------------------------------------------------------------------------------ part B
LOGB = None
ORIG_CALLS = [0]
PMFS = {1: [[8]], 2: [[2, 6], [8, 0], [4, 4], [0, 8]], 3: [[2, 4, 2], [0, 3, 5], [8, 0, 0], [1, 1, 6]], 4: [[2, 2, 2, 2], [1, 0, 3, 4], [0, 0, 0, 8]]}


class LogLearner:
    """Recording logging policy.  Its answer depends on the context and on how many interactions it has learned."""
    def __init__(self, fmt, is_copy=False): self.fmt = fmt; self.seen = 0; self.is_copy = is_copy
    def __deepcopy__(self, memo):
        new = LogLearner(self.fmt, True); new.seen = self.seen; return new
    @property
    def params(self): return {"family": "x02-log", "fmt": self.fmt}
    def _chk(self, *xs):
        from coba.primitives import is_batch
        if any(is_batch(x) for x in xs): raise TypeError("this learner does not take batches")
    def predict(self, context, actions):
        self._chk(context, actions)
        if not self.is_copy: ORIG_CALLS[0] += 1
        c = ctx_id(context); k = len(actions)
        ev = dict(e="predict", ctx=c, acts=[act_id(a) for a in actions], seen=self.seen, ra=NOVAL, rp=NOVAL, w=[])
        if self.fmt == "ap":
            a = actions[(c + self.seen) % k]; p = [4, 2, 8][(c + 2 * self.seen) % 3]
            ev.update(ra=act_id(a), rp=p); LOGB.append(ev)
            return a, p / 8
        w = PMFS[k][(c + self.seen) % len(PMFS[k])]
        ev.update(w=list(w)); LOGB.append(ev)
        return [x / 8 for x in w]
    def learn(self, context, action, reward, probability):
        self._chk(context, action)
        if not self.is_copy: ORIG_CALLS[0] += 1
        LOGB.append(dict(e="learn", ctx=ctx_id(context), a=act_id(action), r=grid(reward, RG), p=grid(probability, 8), seen=self.seen))
        self.seen += 1


def part_b(ctx, rng):
    global LOGB
    from coba.environments import Logged, Environments, Batch
    from coba.exceptions import CobaException
    from coba.context import CobaContext, NullLogger
    CobaContext.logger = NullLogger()
    traces = []; replays = []
    SZERO = seed_for(0, 1)
    combos = [(fmt, sd, batch, via) for fmt in ("ap", "pmf") for sd in (0, 1, 7, "default", SZERO, seed_for(0, 2), 2.0) for batch in (0, 0, 2, 3) for via in ("filter", "environments")]
    reps = ctx.pick(2, 12)
    for (fmt, sd, batch, via) in combos * reps + [("pmf", 0, 0, "filter"), ("ap", 1, 0, "filter")] * 6:
        kind = "ok"; n = rng.choice([1, 3, 4, 7, 12]); nreads = rng.choice([1, 2, 2, 3])
        special = len(traces) % 23
        if special == 5: kind = "noactions"
        elif special == 11: kind = "norewards"
        elif special == 17: kind, n = "empty", 0
        ctxkind = rng.choice(["scalar", "dense", "sparse"]); actkind = rng.choice(["int", "int", "str"]); fn = rng.random() < .5; extra = rng.random() < .5
        its = []; abst = []
        for i in range(1, n + 1):
            k = rng.choice([1, 2, 2, 3, 3, 4])
            ids = [10 * i + j for j in range(1, k + 1)]
            acts = [("a%d" % a if actkind == "str" else a) for a in ids]
            rw = [rng.randrange(0, RG + 1) for _ in ids]
            it = dict(context={"scalar": i, "dense": (i, 1.5), "sparse": {"f": i}}[ctxkind], actions=acts)
            it["rewards"] = (lambda a, acts=acts, rw=rw: rw[acts.index(a)] / RG) if fn else [x / RG for x in rw]
            if extra: it["ex"] = 100 + i
            if kind == "noactions": it.pop("actions")
            if kind == "norewards": it.pop("rewards")
            its.append(it); abst.append(dict(ctx=i, acts=ids, rwds=rw, ex=100 + i if extra else NOVAL))
        if kind != "ok": batch = 0
        mode = dict(fmt=fmt, seed=int(sd) if sd != "default" else NOVAL, sbytes=list(b"1.23") if sd == "default" else [], batch=batch, kind=kind, reads=nreads)
        case = dict(mode=mode, n=n, context=ctxkind, actions=actkind, fn_rewards=fn, extra=extra, via=via, seed=sd)
        ctx.case("logged:" + json.dumps(case, sort_keys=True, default=str) + str(len(traces)))
        learner = LogLearner(fmt); ORIG_CALLS[0] = 0
        logged = Logged(learner) if sd == "default" else Logged(learner, sd)
        src = ListEnv(its, batch)
        if via == "environments":
            envs = Environments([src]).logged(learner) if sd == "default" else Environments([src]).logged(learner, sd)
            reader = lambda: envs[0].read()
        else:
            reader = lambda: logged.filter(src.read())
        log = LOGB = []; bad = None
        try:
            for _ in range(nreads):
                log.append(dict(e="read")); start = len(log)
                try:
                    outs = []
                    for o in reader(): outs.append(o)
                except CobaException:
                    log.append(dict(e="reject")); continue
                # regroup per interaction: predict, learn, out, keeping each interaction's own order (the outputs are collected after the read;
                # a batch is predicted and learned as a whole)
                body = log[start:]; del log[start:]
                for pos, o in enumerate(outs):
                    src_it = its[pos] if pos < len(its) else {}
                    keep = all(kk in o and (o[kk] is src_it[kk] or o[kk] == src_it[kk]) for kk in src_it)
                    body.append(dict(e="out", ctx=ctx_id(o["context"]), acts=[act_id(a) for a in o.get("actions", [])], a=act_id(o["action"]) if "action" in o else NOVAL,
                                     r=grid(o.get("reward"), RG), p=grid(o.get("probability"), 8), ex=o.get("ex", NOVAL), keep=1 if keep else 0,
                                     extra=len(set(o) - set(src_it) - {"action", "reward", "probability"}), _pos=pos + 1))
                order = {"predict": 0, "learn": 1, "out": 2}
                body = [e for _, e in sorted(enumerate(body), key=lambda t: (t[1].get("_pos", t[1].get("ctx")), order[t[1]["e"]], t[0]))]
                for e in body: e.pop("_pos", None)
                log.extend(body); log.append(dict(e="endread", n=len(outs)))
        except Exception as e:
            bad = e
        finally:
            LOGB = None
        if bad is not None:
            ctx.violation("logged:raises:%s" % type(bad).__name__, "Logged raised %s: %s   case=%s" % (type(bad).__name__, str(bad)[:120], json.dumps(case, default=str)), case); continue
        log.append(dict(e="end", orig=ORIG_CALLS[0]))
        traces.append(dict(env=abst, mode=mode, ev=log)); replays.append(case)
    ctx.sample(traces[1], limit=3)
    ctx.extra["logged_traces"] = len(traces)
    rej = validate(ctx, "LoggedFilter", "LoggedFilter.cfg", traces, "x02_logged", 8)
    for k, reason, pos in rej:
        evl = traces[k]["ev"]; at = evl[pos - 1] if pos and pos <= len(evl) else None
        ctx.violation("logged:trace:%s" % (at["e"] if at else "?"), "%s; first unexplained event #%s of %d: %s (previous: %s)   case=%s" % (
            reason, pos, len(evl), at, evl[pos - 2] if pos and pos >= 2 else None, json.dumps(replays[k], default=str)), dict(replays[k], trace=traces[k]))


def run(ctx):
    rng = random.Random(ctx.seed)
    part_a(ctx, rng)
    part_b(ctx, random.Random(ctx.seed + 1))
    ctx.assumptions += [
        "ope = 'dr' / 'dm' and the ope_loss record need vowpalwabbit and are not covered",
        "probabilities are multiples of 1/8, 1/16 or 1/12, rewards multiples of 1/4, cpct in {0, .005, .1, .25, .5, .75, 1}: c, the ratios and u <= c*on/log are exact integers / rationals in TLA+; the float computation of the code can differ from them only at an exact tie, where the specification accepts both outcomes unless every float operation involved is exact (dyadic values)",
        "the multiplier c is not observable; it is checked through the accept / reject decisions it causes",
        "the evaluator's generator is observed by replacing the module-level name coba.evaluators.sequential.CobaRandom with a recording subclass; if RejectionCB obtained its uniforms another way only the decisions would be checked",
        "seeds are ints in [0, 2^30) (RejectionCB) / ints, 2.0 and the default 1.23 (Logged); seed=None for Logged (a time dependent seed per read) is excluded",
        "Logged: the logging learners answer (action, probability) or a PMF with entries in eighths and refuse batches (the batch protocol of SafeLearner is C15's subject)",
        "quantile rule = coba.statistics.percentile (linear interpolation at position cpct*(n-1)): an implementation choice that the specification mirrors",
    ]
