"""X14 - the primitive value types of coba/primitives.py: spec/Primitives.tla.

Primitives.tla is the oracle.  It is one object machine: a constructor action makes one object of the subject (a reward
function, a Categorical / HashableDense / HashableSparse value, a minimal Dense / Sparse row, an interaction, a subclass of one of
the base classes, a batch of reward functions), then up to MaxOps public calls are made on it; every step carries the observation
the implementation must give, and for reward functions the complete call table over the action alphabet is the projection of the
object's state.  TLC enumerates ALL behaviours within the bounds (and checks the design laws on the oracle: == is an equivalence
that decides the function, equal actions earn equal rewards, first of duplicate actions, Binary / Hamming are the discrete tables
made from them, copies are the same function, hash follows == in every process, ...; five broken variants must be rejected).

The driver converts every behaviour to Python values, replays it on the REAL classes and compares after EVERY step: the step's
observation and the projection (the whole call table, asked forwards and then backwards on the same object; the table
DiscreteReward(actions, map(r, actions)) built from the real object must agree with it too).  pickle / copy / deepcopy /
coba.json steps replace the object by the real copy.  For the hashable values one step moves the pickled object into ANOTHER
python process whose str hashes are salted differently (what every spawned worker is): the rest of the behaviour is replayed
there.  Python computes no expectation: it converts, calls and compares."""
import os, sys, json, copy, pickle, random, subprocess, re, collections
from concurrent.futures import ThreadPoolExecutor

FINISH = dict(level="model_checking",
              rule="a case = one TLC-enumerated behaviour (constructor + up to MaxOps public calls) replayed on the real classes with the "
                   "observation of every step and the projection of the object compared after every step, or one ordered pair of reward "
                   "functions compared with ==; distinct = distinct behaviours")

ROOT = os.path.dirname(os.path.dirname(os.path.dirname(os.path.abspath(__file__))))
INF = float("inf")


# ====================================================== minimal subclasses of the abstract rows ======================================================
def _rows():
    import coba.primitives as P

    class DenseRow(P.Dense):                       # like the repository's test dummies: an ABC subclass over a list / tuple `_row`
        def __init__(self, row): self._row = row
        def __getitem__(self, k): return self._row[k]
        def __len__(self): return len(self._row)
        def __iter__(self): return iter(self._row)

    class DenseRow_(P.Dense_):                     # like coba/pipes/rows.py: slots only
        __slots__ = ()
        def __init__(self, row): self._row = row
        def __getitem__(self, k): return self._row[k]
        def __len__(self): return len(self._row)
        def __iter__(self): return iter(self._row)

    class SparseRow(P.Sparse):
        def __init__(self, row): self._row = row
        def __getitem__(self, k): return self._row[k]
        def __len__(self): return len(self._row)
        def __iter__(self): return iter(self._row)
        def keys(self): return self._row.keys()
        def items(self): return self._row.items()

    class SparseRow_(P.Sparse_):
        __slots__ = ()
        def __init__(self, row): self._row = row
        def __getitem__(self, k): return self._row[k]
        def __len__(self): return len(self._row)
        def __iter__(self): return iter(self._row)
        def keys(self): return self._row.keys()
        def items(self): return self._row.items()
    return {"Dense": DenseRow, "Dense_": DenseRow_, "Sparse": SparseRow, "Sparse_": SparseRow_}


_ROWS = None
def row_class(kind):
    global _ROWS
    if _ROWS is None:
        _ROWS = _rows()
        for c in _ROWS.values():                   # picklable by reference: harness.drivers.x14.<name>
            c.__module__ = __name__; c.__qualname__ = c.__name__; globals()[c.__name__] = c
    return _ROWS[kind]


def __getattr__(name):                              # unpickling in the other process asks for the row classes by name
    if name in ("DenseRow", "DenseRow_", "SparseRow", "SparseRow_"):
        row_class("Dense"); return globals()[name]
    raise AttributeError(name)


# ====================================================== abstract value -> Python value ======================================================
def py(v):
    """The Python value an abstract value of Primitives.tla stands for (a fresh object on every call)."""
    from coba.primitives import Categorical, HashableSparse, HashableDense
    t = v["t"]
    if t == "int": return int(v["v"])
    if t == "flt": return v["v"] / 2
    if t == "str": return str(v["v"])
    if t == "cat": return Categorical(v["v"], list(v["lv"]))
    if t == "tup": return tuple(py(x) for x in v["v"])
    if t == "lst": return [py(x) for x in v["v"]]
    if t == "map": return HashableSparse({k: py(x) for k, x in v["v"]})
    if t == "dct": return {k: py(x) for k, x in v["v"]}
    if t == "inf": return INF
    if t == "none": return None
    if t == "fn": return mk_reward(v["r"])
    if t == "row": return row_class(v["k"])(py(v["v"]))
    if t == "hd": return HashableDense([py(x) for x in v["v"]], v["h"])
    raise ValueError(t)


def pyval(v):
    """The hashable values of the `values` section: a tuple stands for HashableDense, a map for HashableSparse."""
    from coba.primitives import HashableDense
    if v["t"] == "tup": return HashableDense([py(x) for x in v["v"]])
    return py(v)


def plain(v):
    """The plain builtin equal to a hashable value: tuple / dict / str."""
    t = v["t"]
    if t in ("tup", "hd"): return tuple(py(x) for x in v["v"])
    if t == "map": return {k: py(x) for k, x in v["v"]}
    if t == "cat": return str(v["v"])
    return py(v)


def mk_reward(r):
    from coba.primitives import L1Reward, BinaryReward, HammingReward, DiscreteReward
    c = r["c"]
    if c == "L1": return L1Reward(py(r["am"]))
    if c == "BR": return BinaryReward(py(r["am"]), py(r["val"])) if r["vg"] else BinaryReward(py(r["am"]))
    if c == "HR": return HammingReward([py(x) for x in r["am"]] if r["ct"] == "lst" else tuple(py(x) for x in r["am"]))
    if c == "DR":
        kw = {"default": py(r["def"])} if r["dg"] else {}
        acts = [py(x) for x in r["acts"]]; rews = [py(x) for x in r["rews"]]
        if r["f"] == "map": return DiscreteReward(dict(zip(acts, rews)), **kw)
        if r["ct"] == "tup": return DiscreteReward(tuple(acts), tuple(rews), **kw)
        return DiscreteReward(acts, rews, **kw)
    raise ValueError(c)


CLASSNAME = {"L1": "L1Reward", "BR": "BinaryReward", "HR": "HammingReward", "DR": "DiscreteReward"}


def isnum(x): return isinstance(x, (int, float)) and not isinstance(x, bool)


def same_res(got, exp):
    """got (what the real call returned) is the number the spec states."""
    if not isnum(got): return False
    t = exp["t"]
    if t == "q": return got == exp["n"] / exp["d"]
    if t == "int": return got == exp["v"]
    if t == "flt": return got == exp["v"] / 2
    if t == "inf": return got == INF
    return False


def match(got, v):
    """got has the type and the content of the abstract value v."""
    from coba.primitives import Categorical, HashableSparse
    t = v["t"]
    if t == "int": return type(got) is int and got == v["v"]
    if t == "flt": return type(got) is float and got == v["v"] / 2
    if t == "str": return type(got) is str and got == v["v"]
    if t == "cat": return type(got) is Categorical and str.__eq__(got, v["v"]) and type(got.levels) is list and list(got.levels) == list(v["lv"])
    if t == "tup": return isinstance(got, tuple) and len(got) == len(v["v"]) and all(match(g, x) for g, x in zip(got, v["v"]))
    if t == "lst": return type(got) is list and len(got) == len(v["v"]) and all(match(g, x) for g, x in zip(got, v["v"]))
    if t == "map": return type(got) is HashableSparse and [k for k in got] == [k for k, _ in v["v"]] and all(match(got[k], x) for k, x in v["v"])
    if t == "dct": return type(got) is dict and list(got) == [k for k, _ in v["v"]] and all(match(got[k], x) for k, x in v["v"])
    if t == "inf": return type(got) is float and got == INF
    if t == "none": return got is None
    if t == "fn":
        r = v["r"]
        if type(got).__name__ != CLASSNAME[r["c"]]: return False
        twin = mk_reward(r)
        probes = [1, 1.5, 2] if r["c"] == "L1" else [1, 2, "a", (1, 0)]
        return all(got(a) == twin(a) for a in probes)
    raise ValueError(t)


def show(x):
    try: return "%r (%s)" % (x, type(x).__name__)
    except Exception as e: return "<unprintable %s: %s>" % (type(x).__name__, e)


class Mismatch(Exception):
    def __init__(self, sig, what): self.sig = sig; self.what = what


def outcome(f):
    """('ok', value) or ('raise', exception) - never lets an Exception of the code under test escape."""
    try: return "ok", f()
    except Exception as e: return "raise", e


# ====================================================== rewards ======================================================
def check_table(robj, r, table, where):
    """The projection of a reward function: its whole call table - asked forwards, then backwards on the same object (a function
    must not remember earlier calls), and the DiscreteReward table made from the real answers must give the same answers."""
    from coba.primitives import DiscreteReward
    cls = CLASSNAME[r["c"]]
    answers = []
    for rnd, seq in enumerate((table, table[::-1])):
        for a, exp in seq:
            k, got = outcome(lambda: robj(py(a)))
            if k == "raise":
                q = ":no-actions" if r["c"] == "DR" and not r["acts"] else ""
                raise Mismatch("rewards:%s:call:raises%s" % (cls, q), "%s: %r(%s) raised %s: %s; the spec says %s" % (where, robj, show(py(a)), type(got).__name__, got, exp))
            if not same_res(got, exp):
                raise Mismatch("rewards:%s:call:wrong-number%s" % (cls, ":second-asking" if rnd else ""),
                               "%s: %r(%s) = %s; the spec says %s" % (where, robj, show(py(a)), show(got), exp))
            if rnd == 0: answers.append(got)
    if r["c"] != "HR" and table:
        acts = [py(a) for a, _ in table]
        k, tb = outcome(lambda: DiscreteReward(acts, list(map(robj, acts))))
        if k == "raise": raise Mismatch("rewards:%s:as-table:raises" % cls, "%s: DiscreteReward(actions, map(r, actions)) raised %r" % (where, tb))
        for (a, exp), ans in zip(table, answers):
            k, got = outcome(lambda: tb(py(a)))
            if k == "raise" or not same_res(got, exp):
                raise Mismatch("rewards:%s:as-table:differs" % cls, "%s: the table made from %r answers %s for %s; %r itself %s" % (where, robj, show(got), show(py(a)), robj, show(ans)))


def reward_step(robj, cur, st, first):
    """One step of a rewards / rhist behaviour on the real object; returns the (possibly replaced) object."""
    from coba import json as cjson
    op, arg, obs = st["op"], st["arg"], st["obs"]
    cls = CLASSNAME[cur["c"]]
    if op == "call":
        k, got = outcome(lambda: robj(py(arg)))
        if k == "raise":
            q = ":no-actions" if cur["c"] == "DR" and not cur["acts"] else ""
            raise Mismatch("rewards:%s:call:raises%s" % (cls, q), "%r(%s) raised %s: %s; the spec says %s" % (robj, show(py(arg)), type(got).__name__, got, obs))
        if not same_res(got, obs): raise Mismatch("rewards:%s:call:wrong-number" % cls, "%r(%s) = %s; the spec says %s" % (robj, show(py(arg)), show(got), obs))
        return robj
    if op == "repr":
        k, got = outcome(lambda: repr(robj))
        if k == "raise": raise Mismatch("rewards:%s:repr:raises" % cls, "repr raised %r" % got)
        if obs == "U":
            if not (isinstance(got, str) and got.startswith(cls + "(")): raise Mismatch("rewards:%s:repr:differs" % cls, "repr = %r" % got)
        elif got != obs: raise Mismatch("rewards:%s:repr:differs" % cls, "repr = %r; the spec says %r" % (got, obs))
        return robj
    if op == "hash":
        k, got = outcome(lambda: hash(robj))
        if obs == "id":
            if k == "raise" or hash(robj) != got: raise Mismatch("rewards:%s:hash" % cls, "hash(%r): %r" % (robj, got))
        elif k == "raise" and not isinstance(got, TypeError): raise Mismatch("rewards:%s:hash" % cls, "hash(%r) raised %r" % (robj, got))
        return robj
    if op == "eqself":
        k, got = outcome(lambda: (robj == robj, robj != robj))
        if k == "raise" or got != (True, False): raise Mismatch("rewards:%s:eq:not-reflexive" % cls, "r == r, r != r on %r: %r" % (robj, got))
        if obs["twin"] != "U":
            twin = mk_reward(cur)
            k, got = outcome(lambda: (robj == twin, twin == robj, robj != twin))
            if k == "raise" or got != (True, True, False): raise Mismatch("rewards:%s:eq:twin" % cls, "%r against a reward made from the same arguments: ==, reflected ==, != gave %r" % (robj, got))
        return robj
    if op == "eqplain":
        x = py(arg)
        builtin = type(x) in (int, float, str, list, tuple, dict)      # a builtin defers to the reward's __eq__; other classes decide for themselves
        k, got = outcome(lambda: (robj == x, (x == robj) if builtin else (obs == "T"), robj != x))
        want = obs == "T"
        if k == "raise" or got != (want, want, not want):
            raise Mismatch("rewards:%s:eq:plain-value" % cls, "%r == %s, reflected, != gave %r; the spec says == is %s" % (robj, show(x), got, want))
        return robj
    if op == "props":
        k, got = outcome(lambda: (robj.actions, robj.rewards))
        if k == "raise" or not (match(got[0], obs["actions"]) and match(got[1], obs["rewards"])):
            raise Mismatch("rewards:%s:actions-rewards" % cls, ".actions, .rewards of %r = %r; the spec says %s" % (robj, got, obs))
        return robj
    if op in ("pickle", "json", "deepcopy"):
        if op == "pickle": fs = [lambda: pickle.loads(pickle.dumps(robj)), lambda: pickle.loads(pickle.dumps(robj, 2))]
        elif op == "json": fs = [lambda: cjson.loads(cjson.dumps(robj)), lambda: cjson.loads(cjson.dumps([robj]))[0]]
        else: fs = [lambda: copy.deepcopy(robj), lambda: copy.copy(robj)]
        new = None
        for f in fs:
            k, got = outcome(f)
            if k == "raise": raise Mismatch("rewards:%s:%s:raises" % (cls, op), "%s of %r (state %r) raised %s: %s" % (op, robj, outcome(robj.__getstate__)[1], type(got).__name__, got))
            if type(got) is not type(robj): raise Mismatch("rewards:%s:%s:type" % (cls, op), "%s of %r gave %s" % (op, robj, show(got)))
            if got is robj: raise Mismatch("rewards:%s:%s:same-object" % (cls, op), "%s of %r gave the object itself" % (op, robj))
            if new is None: new = got
        FORMS[(cls, op, "text" if isinstance(outcome(robj.__getstate__)[1], str) else "raw")] += 1
        if op != "json" and cur["c"] != "HR":          # the copy is equal to the original (EqPreserved)
            k, got = outcome(lambda: (new == robj, robj == new))
            if k == "raise" or got != (True, True): raise Mismatch("rewards:%s:%s:copy-not-equal" % (cls, op), "%r and its %s copy %r: == gave %r" % (robj, op, new, got))
        return new
    raise ValueError(op)


FORMS = collections.Counter()
NORMAL_AFTER = {"pickle", "json", "deepcopy"}


def replay_reward(case):
    steps = case["steps"]; r = steps[0]["arg"]; table = case["table"]
    cls = CLASSNAME[r["c"]]
    k, robj = outcome(lambda: mk_reward(r))
    if steps[0]["obs"] == "CobaException":
        from coba.exceptions import CobaException
        if k != "raise" or not isinstance(robj, CobaException): raise Mismatch("rewards:%s:new:not-refused" % cls, "actions and rewards that do not line up gave %s" % show(robj))
        return 1
    if k == "raise": raise Mismatch("rewards:%s:new:raises" % cls, "the constructor raised %s: %s" % (type(robj).__name__, robj))
    check_table(robj, r, table, "after the constructor")
    n = 1
    cur = r
    for i, st in enumerate(steps[1:], 1):
        robj = reward_step(robj, cur, st, steps[0])
        if st["op"] in NORMAL_AFTER: cur = st["obs"]["now"]           # the abstract object the copy must be
        check_table(robj, cur, table, "after step %d (%s)" % (i, st["op"]))
        n += 1
    return n


def pair_qualifier(r1, r2):
    """names the class of a wrong == for the signature (not an expectation)"""
    if r1["c"] != r2["c"]: return "classes-differ"
    if r1["c"] == "DR": return "same-rewards" if [py(x) for x in r1["rews"]] == [py(x) for x in r2["rews"]] else "rewards-differ"
    if r1["c"] == "BR": return "same-argmax" if py(r1["am"]) == py(r2["am"]) else "argmax-differs"
    return "arguments-differ"


def replay_pair(case):
    st = case["steps"][0]; r1, r2 = st["arg"]; exp = st["obs"]
    a, b = mk_reward(r1), mk_reward(r2)
    cls = CLASSNAME[r1["c"]]
    k, got = outcome(lambda: (a == b, a != b))
    if k == "raise": raise Mismatch("pairs:%s:eq:raises" % cls, "%r == %r raised %r" % (a, b, got))
    if got[0] is not True and got[0] is not False or got[1] is not (not got[0]):
        raise Mismatch("pairs:%s:eq:not-boolean" % cls, "%r == %r, != gave %r" % (a, b, got))
    if exp != "U" and got[0] != (exp == "T"):
        kind = "true-for-different-functions" if got[0] else "false-for-equal-functions"
        raise Mismatch("pairs:%s:eq:%s:%s" % (cls, kind, pair_qualifier(r1, r2)), "%r == %r is %s; the spec says %s" % (a, b, got[0], exp))
    if got[0]:
        ha, hb = outcome(lambda: hash(a)), outcome(lambda: hash(b))
        if ha[0] == "ok" and hb[0] == "ok" and ha[1] != hb[1] and a is not b:
            raise Mismatch("pairs:%s:hash:equal-but-hash-differs" % cls, "%r == %r but their hashes differ" % (a, b))
    return 1


# ====================================================== values ======================================================
def value_kind(v): return {"cat": "Categorical", "tup": "HashableDense", "hd": "HashableDense", "map": "HashableSparse", "str": "str"}[v["t"]]


def check_value(x, v, where):
    """projection: the real object still is the abstract value"""
    from coba.primitives import HashableDense
    kind = value_kind(v)
    ok = (type(x) is HashableDense and match(tuple(x), {"t": "tup", "v": v["v"]})) if v["t"] in ("tup", "hd") else match(x, v)
    if not ok: raise Mismatch("values:%s:content" % kind, "%s: the object is %s; the spec says %s" % (where, show(x), v))
    if v["t"] != "hd":
        twin = pyval(v)
        k, got = outcome(lambda: (x == twin, twin == x, x != twin))
        if k == "raise" or got != (True, True, False): raise Mismatch("values:%s:eq:twin" % kind, "%s: %s against a freshly made equal value: %r" % (where, show(x), got))


def value_step(x, v, st, proc):
    from coba.primitives import Dense, Sparse, is_materialized, HashableDense, HashableSparse, Categorical
    op, arg, obs = st["op"], st["arg"], st["obs"]
    kind = value_kind(v)
    here = "" if proc == 0 else ":other-process"
    if op == "attrs":
        if v["t"] == "cat":
            got = outcome(lambda: dict(str=str(x), levels=list(x.levels), as_int=x.as_int, as_onehot=x.as_onehot, repr=repr(x)))
            ok = got[0] == "ok" and got[1]["str"] == obs["str"] and type(got[1]["str"]) is str and got[1]["levels"] == list(obs["levels"]) and type(x.levels) is list \
                and type(got[1]["as_int"]) is int and got[1]["as_int"] == obs["as_int"] and match(got[1]["as_onehot"], obs["as_onehot"]) and type(x.as_onehot) is tuple and got[1]["repr"] == obs["repr"]
        elif v["t"] == "str":
            got = outcome(lambda: dict(str=str(x), repr=repr(x))); ok = got[0] == "ok" and got[1] == {"str": obs["str"], "repr": obs["repr"]}
        elif v["t"] in ("tup", "hd"):
            got = outcome(lambda: dict(len=len(x), items=list(x), byindex=[x[i] for i in range(len(x))], repr=repr(x), str=str(x), dense=isinstance(x, Dense), sparse=isinstance(x, Sparse), mat=is_materialized(x)))
            ok = got[0] == "ok" and got[1]["len"] == obs["len"] and match(got[1]["items"], {"t": "lst", "v": obs["items"]}) and match(got[1]["byindex"], {"t": "lst", "v": obs["items"]}) \
                and got[1]["repr"] == obs["repr"] and got[1]["str"] == obs["repr"] and got[1]["dense"] is True and got[1]["sparse"] is False and got[1]["mat"] is True
        else:
            got = outcome(lambda: dict(len=len(x), keys=list(x), keys2=list(x.keys()), items=list(x.items()), bykey=[x[k] for k in x], repr=repr(x), str=str(x), dense=isinstance(x, Dense), sparse=isinstance(x, Sparse),
                                       mat=is_materialized(x), cp=x.copy()))
            ok = got[0] == "ok" and got[1]["len"] == obs["len"] and got[1]["keys"] == list(obs["keys"]) and got[1]["keys2"] == list(obs["keys"]) \
                and [k for k, _ in got[1]["items"]] == list(obs["keys"]) and all(match(g[1], e[1]) for g, e in zip(got[1]["items"], obs["items"])) \
                and all(match(g, e[1]) for g, e in zip(got[1]["bykey"], obs["items"])) and got[1]["repr"] == obs["repr"] and got[1]["str"] == obs["repr"] \
                and got[1]["dense"] is False and got[1]["sparse"] is True and got[1]["mat"] is False and match(got[1]["cp"], {"t": "dct", "v": obs["items"]}) and got[1]["cp"] is not x._item
        if not ok: raise Mismatch("values:%s:attributes%s" % (kind, here), "%s: %r; the spec says %s" % (show(x), got[1], obs))
        return x
    if op == "hash":
        k, got = outcome(lambda: hash(x))
        if k == "raise": raise Mismatch("values:%s:hash:raises%s" % (kind, here), "hash(%s) raised %r" % (show(x), got))
        if obs["c"] == "explicit":
            if got != obs["p"]: raise Mismatch("values:HashableDense:explicit-hash" + (":zero" if obs["p"] == 0 else ""), "hash(HashableDense(%r, %d)) = %d" % (list(x), obs["p"], got))
            return x
        # the spec: the hash is a function of the canonical text and of the process - the hash of an equal value made in this process
        fresh = [plain(v)] if v["t"] != "map" else [py({"t": "map", "v": v["v"][::-1]})]      # the same mapping built in the other order
        fresh.append(pyval(v))
        for f in fresh:
            if hash(f) != got or hash(x) != got:
                raise Mismatch("values:%s:hash:differs-from-equal-value%s" % (kind, here), "hash(%s) = %d but hash(%s) = %d and they are equal" % (show(x), got, show(f), hash(f)))
        return x
    if op == "eq":
        want = obs
        others = [pyval(arg) if arg["t"] in ("tup", "map", "cat", "str") else py(arg)]
        if arg["t"] in ("tup", "map", "cat"): others.append(plain(arg))
        for o in others:
            k, got = outcome(lambda: (x == o, o == x, x != o))
            if k == "raise" or got != (want, want, not want):
                raise Mismatch("values:%s:eq%s" % (kind, here), "%s == %s, reflected, != gave %r; the spec says == is %s" % (show(x), show(o), got, want))
        return x
    if op == "lookup":
        w = pyval(arg)
        k, got = outcome(lambda: ({x: 1}.get(w) == 1, {w: 1}.get(x) == 1, x in {w}, w in {x}))
        if k == "raise" or got != (obs,) * 4:
            raise Mismatch("values:%s:lookup%s" % (kind, here), "{x: 1}.get(w), {w: 1}.get(x), x in {w}, w in {x} for x = %s, w = %s (x == w is %s): %r; the spec says %s"
                           % (show(x), show(w), outcome(lambda: x == w)[1], got, obs))
        return x
    if op in ("pickle", "copy"):
        fs = [lambda: pickle.loads(pickle.dumps(x)), lambda: pickle.loads(pickle.dumps(x, 2))] if op == "pickle" else [lambda: copy.deepcopy(x), lambda: copy.copy(x)]
        new = None
        for f in fs:
            k, got = outcome(f)
            if k == "raise": raise Mismatch("values:%s:%s:raises%s" % (kind, op, here), "%s of %s raised %r" % (op, show(x), got))
            if type(got) is not type(x): raise Mismatch("values:%s:%s:type%s" % (kind, op, here), "%s of %s gave %s" % (op, show(x), show(got)))
            k2, e = outcome(lambda: (got == x, x == got, hash(got) == hash(x)))
            if k2 == "raise" or e != (True, True, True): raise Mismatch("values:%s:%s:copy-differs%s" % (kind, op, here), "%s of %s gave %s: ==, reflected, same hash: %r" % (op, show(x), show(got), e))
            if new is None: new = got
        return new
    raise ValueError(op)


def replay_value_from(x, v, steps, proc, start):
    """steps[start:] on the real object x in this process; returns ('done', n) or ('transport', pickled bytes, index of the next step)"""
    n = 0
    for i in range(start, len(steps)):
        st = steps[i]
        if st["op"] == "transport":
            k, got = outcome(lambda: pickle.dumps(x))
            if k == "raise": raise Mismatch("values:%s:pickle:raises" % value_kind(v), "pickle.dumps(%s) raised %r" % (show(x), got))
            return "transport", got, i + 1, n
        x = value_step(x, v, st, proc)
        check_value(x, v, "after step %d (%s)%s" % (i, st["op"], "" if proc == 0 else " in the other process"))
        n += 1
    return "done", None, len(steps), n


def replay_value(case):
    from coba.primitives import Categorical
    steps = case["steps"]; v = steps[0]["arg"]
    k, x = outcome(lambda: pyval(v))
    if steps[0]["obs"] == "ValueError":
        from coba.exceptions import CobaException
        if k != "raise" or not isinstance(x, (ValueError, CobaException)): raise Mismatch("values:Categorical:new:not-refused", "Categorical(%r, %r) gave %s" % (v["v"], v["lv"], show(x)))
        return ("done", None, 1, 1)
    if k == "raise": raise Mismatch("values:%s:new:raises" % value_kind(v), "the constructor raised %r" % x)
    check_value(x, v, "after the constructor")
    r = replay_value_from(x, v, steps, 0, 1)
    return (r[0], r[1], r[2], r[3] + 1)


def other_process_main(infile, outfile):
    """Runs in a python process with another PYTHONHASHSEED: the rest of the behaviours whose object was pickled over."""
    jobs = pickle.load(open(infile, "rb"))
    out = []
    for idx, blob, steps, start in jobs:
        v = steps[0]["arg"]
        try:
            k, x = outcome(lambda: pickle.loads(blob))
            if k == "raise": raise Mismatch("values:%s:pickle:raises:other-process" % value_kind(v), "pickle.loads raised %r" % x)
            check_value(x, v, "after arriving in the other process")
            r = replay_value_from(x, v, steps, 1, start)
            out.append((idx, None, None, r[3]))
        except Mismatch as m:
            out.append((idx, m.sig, m.what, 0))
    json.dump(out, open(outfile, "w"))


# ====================================================== rows ======================================================
def row_content(row): return list(row) if hasattr(row, "_row") and not hasattr(row._row, "items") else dict(row.items())


def replay_row(case):
    from coba.primitives import Dense, Sparse, is_materialized
    steps = case["steps"]; r = steps[0]["arg"]; kind = r["k"]; dense = kind in ("Dense", "Dense_")
    row = row_class(kind)(py(r["v"]))
    want = {"t": "lst", "v": r["v"]["v"]} if dense else {"t": "dct", "v": r["v"]["v"]}

    def project(where, row):
        k, got = outcome(lambda: list(row) if dense else dict(row.items()))
        if k == "raise" or not match(got, want): raise Mismatch("rows:%s:content" % kind, "%s: the row holds %r; the spec says %s" % (where, got, want))
    project("after the constructor", row)
    n = 1
    for i, st in enumerate(steps[1:], 1):
        op, arg, obs = st["op"], st["arg"], st["obs"]
        if op == "eq":
            o = py(arg)
            k, got = outcome(lambda: (row == o, o == row, row != o))
            if k == "raise" or got != (obs, obs, not obs):
                raise Mismatch("rows:%s:eq:%s" % (kind, arg["t"]), "%s row over %r == %s, reflected, != gave %r; the spec says == is %s" % (kind, row._row, show(o), got, obs))
        elif op == "hash":
            k, got = outcome(lambda: hash(row))
            if k == "raise" and not isinstance(got, TypeError): raise Mismatch("rows:%s:hash" % kind, "hash raised %r" % got)
            if k == "ok" and dense and got != hash(tuple(row)): raise Mismatch("rows:%s:hash" % kind, "the row equals tuple(row) but hashes differently")
        elif op == "copy":
            k, got = outcome(lambda: row.copy())
            if k == "raise" or not match(got, obs) or got is row._row: raise Mismatch("rows:%s:copy" % kind, "copy() gave %s; the spec says a new %s" % (show(got), obs))
            if dense: got.append("changed")
            else: got["changed"] = 1
        elif op == "getattr":
            name = arg if arg == "nothing" else ("count" if dense else "get")
            k, got = outcome(lambda: getattr(row, name))
            if obs == "AttributeError":
                if k != "raise" or not isinstance(got, AttributeError): raise Mismatch("rows:%s:getattr" % kind, "row.%s gave %s" % (name, show(got)))
            elif k == "raise" or got != getattr(row._row, name): raise Mismatch("rows:%s:getattr" % kind, "row.%s gave %s, not the attribute of the wrapped row" % (name, show(got)))
        elif op == "classify":
            got = (isinstance(row, Dense), isinstance(row, Sparse), is_materialized(row))
            if got != (obs["dense"], obs["sparse"], obs["materialized"]): raise Mismatch("rows:%s:classify" % kind, "isinstance Dense, Sparse, is_materialized = %r; the spec says %s" % (got, obs))
        elif op == "pickle":
            for f in (lambda: pickle.loads(pickle.dumps(row)), lambda: pickle.loads(pickle.dumps(row, 2)), lambda: copy.deepcopy(row)):
                k, got = outcome(f)
                if k == "raise" or type(got) is not type(row) or got is row: raise Mismatch("rows:%s:pickle" % kind, "a pickled / deep-copied row came back as %s" % show(got))
                project("the pickled copy", got)
                if (got == row) is not True: raise Mismatch("rows:%s:pickle" % kind, "the pickled copy is not equal to the row")
            row = pickle.loads(pickle.dumps(row))
        else: raise ValueError(op)
        project("after step %d (%s)" % (i, op), row)
        n += 1
    return n


# ====================================================== interactions ======================================================
ICLASS = {"sim": "SimulatedInteraction", "gnd": "GroundedInteraction", "log": "LoggedInteraction"}


def replay_inter(case):
    import coba.primitives as P
    from coba.primitives import is_batch
    steps = case["steps"]; i = steps[0]["arg"]; cls = getattr(P, ICLASS[i["c"]]); name = ICLASS[i["c"]]
    args = [(k, v) for k, v in i["args"] if v["t"] != "omitted"]
    kw = {k: py(v) for k, v in i["kw"]}
    k, obj = outcome(lambda: cls(*[py(v) for _, v in args], **kw))
    if steps[0]["obs"] == "TypeError":
        if k != "raise" or not isinstance(obj, TypeError): raise Mismatch("inter:%s:new:missing-argument-accepted" % name, "%s(%s) gave %s" % (name, [a for a, _ in args], show(obj)))
        return 1
    if k == "raise": raise Mismatch("inter:%s:new:raises" % name, "the constructor raised %r" % obj)
    mapping = steps[0]["obs"]

    def project(where, o):
        ks = outcome(lambda: list(o.keys()))
        if ks[0] == "raise" or ks[1] != [k for k, _ in mapping]:
            raise Mismatch("inter:%s:keys" % name, "%s: keys %r; the spec says %r" % (where, ks[1], [k for k, _ in mapping]))
        for k, v in mapping:
            if not match(o[k], v): raise Mismatch("inter:%s:value:%s" % (name, k), "%s: [%r] is %s; the spec says %s" % (where, k, show(o[k]), v))
    project("after the constructor", obj)
    # the same arguments given by name
    k, obj2 = outcome(lambda: cls(**{a: py(v) for a, v in args}, **kw))
    if k == "raise": raise Mismatch("inter:%s:new:raises" % name, "the constructor with named arguments raised %r" % obj2)
    project("constructed with named arguments", obj2)
    n = 1
    for j, st in enumerate(steps[1:], 1):
        op, arg, obs = st["op"], st["arg"], st["obs"]
        if op == "items":
            got = list(obj.items())
            if [k for k, _ in got] != [k for k, _ in obs] or not all(match(g[1], e[1]) for g, e in zip(got, obs)): raise Mismatch("inter:%s:items" % name, "items() = %r; the spec says %s" % (got, obs))
        elif op in ("pickle", "deepcopy"):
            fs = [lambda: pickle.loads(pickle.dumps(obj)), lambda: pickle.loads(pickle.dumps(obj, 2))] if op == "pickle" else [lambda: copy.deepcopy(obj), lambda: copy.copy(obj)]
            new = None
            for f in fs:
                k, got = outcome(f)
                if k == "raise": raise Mismatch("inter:%s:%s:raises" % (name, op), "%s raised %s: %s" % (op, type(got).__name__, got))
                if type(got) is not cls or got is obj: raise Mismatch("inter:%s:%s:type" % (name, op), "%s gave %s" % (op, show(got)))
                project("the %s copy" % op, got)
                if new is None: new = got
            obj = new
        elif op == "classify":
            got = dict(dict=isinstance(obj, dict), interaction=isinstance(obj, P.Interaction), batch=is_batch(obj), **{"class": type(obj).__name__})
            if got != obs: raise Mismatch("inter:%s:classify" % name, "%r; the spec says %s" % (got, obs))
        elif op == "callentry":
            key, a = arg
            k, got = outcome(lambda: obj[key](py(a)))
            if k == "raise" or not same_res(got, obs): raise Mismatch("inter:%s:call-entry" % name, "i[%r](%s) gave %s; the spec says %s" % (key, show(py(a)), show(got), obs))
        else: raise ValueError(op)
        project("after step %d (%s)" % (j, op), obj)
        n += 1
    return n


# ====================================================== base classes ======================================================
ABSTRACT = {"Environment": "read", "Evaluator": "evaluate", "EnvironmentFilter": "filter", "Source": "read", "Filter": "filter", "Sink": "write", "Line": "run"}


def make_base(b, implement=True):
    import coba.primitives as P
    base = getattr(P, b["k"])
    body = {}
    if implement and b["k"] in ABSTRACT: body[ABSTRACT[b["k"]]] = lambda self, *a: None
    if b["given"]:
        ps = {k: py(v) for k, v in b["ps"]}
        body["params"] = property(lambda self: dict(ps))
    return type("My" + b["k"], (base,), body)


def replay_base(case):
    steps = case["steps"]; b = steps[0]["arg"]; kind = b["k"]
    k, obj = outcome(lambda: make_base(b)())
    if k == "raise": raise Mismatch("base:%s:new:raises" % kind, "a complete subclass could not be instantiated: %r" % obj)
    n = 1
    for st in steps[1:]:
        op, arg, obs = st["op"], st["arg"], st["obs"]
        if op == "params":
            k, got = outcome(lambda: obj.params)
            if k == "raise" or not match(dict(got), {"t": "dct", "v": obs}) or not hasattr(got, "keys"): raise Mismatch("base:%s:params" % kind, "params = %s; the spec says %s" % (show(got), obs))
        elif op == "str":
            k, got = outcome(lambda: str(obj))
            if k == "raise" or (obs != "U" and got != obs.replace("<classname>", type(obj).__name__)): raise Mismatch("base:%s:str" % kind, "str = %r; the spec says %r" % (got, obs))
        elif op == "unimplemented":
            call = {"score": lambda: obj.score(None, [1, 2], 1), "predict": lambda: obj.predict(None, [1, 2]), "learn": lambda: obj.learn(None, 1, 1., .5)}[arg]
            k, got = outcome(call)
            if k != "raise" or not isinstance(got, NotImplementedError) or ("`%s`" % arg) not in str(got): raise Mismatch("base:Learner:unimplemented:%s" % arg, "%s gave %s" % (arg, show(got)))
        elif op == "abstract":
            k, got = outcome(lambda: make_base(b, implement=False)())
            if obs == "TypeError":
                if k != "raise" or not isinstance(got, TypeError): raise Mismatch("base:%s:abstract" % kind, "a subclass without %s was instantiated" % arg)
            elif k == "raise": raise Mismatch("base:%s:abstract" % kind, "a bare subclass could not be instantiated: %r" % got)
        else: raise ValueError(op)
        n += 1
    return n


# ====================================================== batch ======================================================
def replay_batch(case):
    from coba.primitives import is_batch, SimulatedInteraction, BinaryReward
    from coba.environments.filters import Batch
    steps = case["steps"]; b = steps[0]["arg"]
    bc = Batch.Callable([mk_reward(r) for r in b["rs"]])
    n = 1
    for st in steps[1:]:
        op, arg, obs = st["op"], st["arg"], st["obs"]
        if op == "callbatch":
            for mk in (lambda: Batch.List([py(a) for a in arg]), lambda: [py(a) for a in arg]):
                k, got = outcome(lambda: bc(mk()))
                if k == "raise": raise Mismatch("batch:call:raises", "the batch call raised %r" % got)
                if type(got) is not Batch.List or not is_batch(got) or len(got) != len(obs) or not all(same_res(g, e) for g, e in zip(got, obs)):
                    raise Mismatch("batch:call:differs", "Batch.Callable(%r)(%r) = %s; the spec says %s" % (list(bc), [py(a) for a in arg], show(got), obs))
        elif op == "is_batch":
            thing = {"Batch.List": lambda: Batch.List([1]), "Batch.Callable": lambda: Batch.Callable([]), "list": lambda: [1], "tuple": lambda: (1,), "None": lambda: None, "int": lambda: 1,
                     "dict": lambda: {"a": 1}, "interaction": lambda: SimulatedInteraction(1, [1], [1]), "reward": lambda: BinaryReward(1)}[arg]()
            got = is_batch(thing)
            if got is not obs: raise Mismatch("batch:is_batch:%s" % arg, "is_batch(%s) = %r; the spec says %s" % (show(thing), got, obs))
        else: raise ValueError(op)
        n += 1
    return n


REPLAY = {"rewards": replay_reward, "rewards2": replay_reward, "rhist": replay_reward, "pairs": replay_pair, "rows": replay_row, "inter": replay_inter, "base": replay_base, "batch": replay_batch}

# op of a printed step -> the action of Primitives.tla it is
ACTION = {"rewards": {"new": "NewReward", "call": "CallOne", "repr": "ReprOf", "hash": "HashOf", "eqself": "EqSelf", "eqplain": "EqPlain", "props": "PropsOf", "pickle": "Pickle", "json": "Json", "deepcopy": "DeepCopy"},
          "pairs": {"compare": "Compare"},
          "values": {"new": "NewValue", "attrs": "AttrsOf", "hash": "TakeHash", "eq": "EqWith", "lookup": "Lookup", "pickle": "PickleHere", "copy": "CopyValue", "transport": "PickleOther"},
          "rows": {"new": "NewRow", "eq": "RowEq", "hash": "RowHash", "copy": "RowCopy", "getattr": "RowAttr", "classify": "RowClass", "pickle": "RowPickle"},
          "inter": {"new": "NewInter", "items": "ItemsOf", "pickle": "InterPickle", "deepcopy": "InterCopy", "classify": "InterClass", "callentry": "CallEntry"},
          "base": {"new": "NewBase", "params": "ParamsOf", "str": "StrOfBase", "unimplemented": "Unimpl", "abstract": "Abstract"},
          "batch": {"new": "NewBatch", "callbatch": "CallBatch", "is_batch": "IsBatchOf"}}
ACTION["rhist"] = ACTION["rewards2"] = ACTION["rewards"]
ACTION["values4"] = ACTION["values"]
ALL_ACTIONS = sorted({a for d in ACTION.values() for a in d.values()})

GUARDS = [("dup_last", "DiscreteReward answers with the LAST of several equal actions", "rhist", {"FirstOfDuplicates"}),
          ("eq_by_rewards", "two DiscreteRewards are equal as soon as their reward lists are (BinaryRewards: their argmax)", "pairs", {"Extensional", "EqTransitive"}),
          ("literal_all", "every reward function pickles itself as the repr of its arguments", "rhist", {"PickleTotal"}),
          ("stale_hash", "the cached hash of HashableDense / HashableSparse travels with the pickle", "values", {"HashFollowsEq", "LookupFindsEqual"}),
          ("hamming_sum", "Hamming's union is |argmax| + |labels|", "rhist", {"HammingOnSets"})]


ALL_SECTIONS = ["rewards", "rhist", "pairs", "values", "rows", "inter", "base", "batch"]


def sections(ctx): return ALL_SECTIONS + ([] if ctx.quick else ["rewards2", "values4"])


def subst(secs, size, variant="ok"):
    return {'Sections = {"rewards", "rhist", "pairs", "values", "rows", "inter", "base", "batch"}': "Sections = {%s}" % ", ".join('"%s"' % x for x in secs),
            'Size = "quick"': 'Size = "%s"' % size, 'Variant = "ok"': 'Variant = "%s"' % variant}


def case_key(j): return json.dumps(j["steps"], sort_keys=True)


def run(ctx):
    from .. import tlc, tracecheck
    SECS = sections(ctx)
    C = [dict(name=x, sec=x) for x in SECS]

    # ---- 1. TLC: the oracle, its laws, its broken variants (all sections in one run, one run per broken variant) ----
    def tlc_job(job):
        name, sub, guard = job
        cfg = tracecheck._cfg("Primitives.cfg", sub, ctx.scratch, "prim_%s.cfg" % name)
        return name, tlc.run("Primitives", cfg, ctx.scratch, workers=1 if guard else 8, timeout=ctx.pick(300, 1100), heap="2g" if guard else ctx.pick("6g", "12g"), seed=ctx.seed)
    jobs = [("main", subst(SECS, ctx.pick("quick", "thorough")), False)]
    jobs += [("guard-" + g, subst([sec], "quick", g), True) for g, _, sec, _ in GUARDS]
    with ThreadPoolExecutor(max_workers=6) as ex:
        results = dict(ex.map(tlc_job, jobs))
    rejected = {}
    for g, what, sec, expect in GUARDS:
        r = results["guard-" + g]
        ctx.add_tlc("Primitives guard " + g, r)
        names = {v["name"] for v in r.violations}
        if not (names & expect):
            raise RuntimeError("the broken design %r (%s) is not rejected by any of %s (violated: %s): the invariants are vacuous" % (g, what, sorted(expect), sorted(names)))
        rejected[g] = sorted(names)
    ctx.extra["guards_rejected"] = rejected
    r = results["main"]
    ctx.add_tlc("Primitives " + "+".join(SECS), r)
    for v in r.violations:
        ctx.violation("spec:%s" % (v["name"] or v["kind"]), "Primitives.tla itself violates %s" % v["name"], v["trace"][:60])
    r.out = ""
    tables = {}                                    # the call table of a reward function is printed once, where it is constructed
    bysec = {c["sec"]: {} for c in C}
    for j in r.json:
        if not isinstance(j, dict) or j.get("sec") not in bysec: continue
        if "table" in j: tables[json.dumps(j["reward"], sort_keys=True)] = j["table"]
        elif "steps" in j: bysec[j["sec"]].setdefault(case_key(j), j)
    r.json = []
    cases = {}
    for c in C:
        seen = bysec.pop(c["sec"])
        cases[c["name"]] = [seen[k] for k in sorted(seen)]
        if len(cases[c["name"]]) < 20: raise RuntimeError("Primitives %s produced only %d behaviours" % (c["name"], len(cases[c["name"]])))
        if c["sec"] in ("rewards", "rewards2", "rhist"):
            for j in cases[c["name"]]:
                j["table"] = tables[json.dumps(j["steps"][0]["arg"], sort_keys=True)] if j["steps"][0]["obs"] == "ok" else []
    ctx.exhaustive = True
    ctx.extra["behaviours"] = {k: len(v) for k, v in cases.items()}

    import time
    ctx.extra["seconds_tlc"] = round(time.time() - ctx.t0, 1)
    # ---- 2. replay on the real classes ----
    taken = collections.Counter()
    steps_total = 0
    corrupt_seen = {}
    rng = random.Random(ctx.seed)

    def count(c, j):
        for st in j["steps"]: taken[ACTION[c["sec"]][st["op"]]] += 1

    for c in C:
        if c["sec"] in ("values", "values4"): continue
        fn = REPLAY[c["sec"]]
        for j in cases[c["name"]]:
            ctx.case(case_key(j)); count(c, j)
            try:
                steps_total += fn(j)
            except Mismatch as m:
                ctx.violation(m.sig, m.what, j)
        for j in cases[c["name"]][::max(1, len(cases[c["name"]]) // 3)][:3]: ctx.sample({"config": c["name"], "steps": j["steps"][:4]}, limit=12)
        ctx.extra.setdefault("seconds_elapsed_after", {})[c["name"]] = round(time.time() - ctx.t0, 1)

    # ---- values: the part of a behaviour after `transport` runs in a python process with another hash salt ----
    pending_all = 0
    for c in C:
        if c["sec"] not in ("values", "values4"): continue
        pending = []
        for idx, j in enumerate(cases[c["name"]]):
            ctx.case(case_key(j)); count(c, j)
            try:
                r = replay_value(j)
                steps_total += r[3]
                if r[0] == "transport": pending.append((idx, r[1], j["steps"], r[2]))
            except Mismatch as m:
                ctx.violation(m.sig, m.what, j)
        pending_all += len(pending)
        ctx.extra["behaviours_continued_in_other_process"] = pending_all
        if pending:
            fin, fout = os.path.join(ctx.scratch, "transport_in_%s.pkl" % c["name"]), os.path.join(ctx.scratch, "transport_out_%s.json" % c["name"])
            pickle.dump(pending, open(fin, "wb"))
            env = dict(os.environ); env["PYTHONHASHSEED"] = "1"      # this process runs with 0
            assert os.environ.get("PYTHONHASHSEED") == "0", "the check must run with PYTHONHASHSEED=0 (./check sets it)"
            p = subprocess.run([sys.executable, "-W", "ignore", "-m", "harness.drivers.x14", "--other", fin, fout], cwd=ROOT, env=env, stdout=subprocess.PIPE, stderr=subprocess.STDOUT, text=True, timeout=900)
            if p.returncode != 0 or not os.path.exists(fout): raise RuntimeError("the other process failed:\n" + p.stdout[-3000:])
            back = json.load(open(fout))
            if len(back) != len(pending): raise RuntimeError("the other process answered %d of %d behaviours" % (len(back), len(pending)))
            for idx, sig, what, n in back:
                steps_total += n
                if sig: ctx.violation(sig, what, cases[c["name"]][idx])
        for j in cases[c["name"]][::max(1, len(cases[c["name"]]) // 3)][:3]: ctx.sample({"config": c["name"], "steps": j["steps"][:4]}, limit=12)

    # ---- 3. the binding is not vacuous: one corrupted observation / table entry per section must be noticed ----
    def corrupted(sec, j):
        j = copy.deepcopy(j)
        if sec in ("rewards", "rewards2", "rhist") and j["table"]:
            e = j["table"][len(j["table"]) // 2][1]
            if e["t"] == "q": e["n"], e["d"] = e["n"] + 1, e["d"] + 1
            elif e["t"] == "inf": e["t"] = "int"; e["v"] = 3
            else: e["v"] += 3
            return j
        if sec == "pairs":
            if j["steps"][0]["obs"] == "U": return None
            j["steps"][0]["obs"] = "F" if j["steps"][0]["obs"] == "T" else "T"; return j
        if sec == "inter" and isinstance(j["steps"][0]["obs"], list) and j["steps"][0]["obs"]:
            j["steps"][0]["obs"] = j["steps"][0]["obs"][::-1] if len(j["steps"][0]["obs"]) > 1 else []; return j
        for st in j["steps"][1:]:
            if sec == "rows" and st["op"] == "eq": st["obs"] = not st["obs"]; return j
            if sec == "base" and st["op"] == "params": st["obs"] = st["obs"] + [["zz", {"t": "int", "v": 1}]]; return j
            if sec == "batch" and st["op"] == "is_batch": st["obs"] = not st["obs"]; return j
            if sec in ("values", "values4") and st["op"] == "eq": st["obs"] = not st["obs"]; return j
        return None
    for c in C:
        pool = cases[c["name"]]
        done = False
        fn = replay_value if c["sec"] in ("values", "values4") else REPLAY[c["sec"]]
        for j in (pool[rng.randrange(len(pool))] for _ in range(400)):
            bad = corrupted(c["sec"], j)
            if bad is None: continue
            try: fn(j)
            except Mismatch: continue            # a case the real code already fails cannot show that the corruption is noticed
            try: fn(bad)
            except Mismatch as m:
                corrupt_seen[c["name"]] = m.sig; done = True; break
            raise RuntimeError("a corrupted %s case was accepted by the comparison: the binding is vacuous (%s)" % (c["name"], json.dumps(bad)[:400]))
        if not done: raise RuntimeError("no corruptible case found for %s" % c["name"])
    ctx.extra["corrupted_cases_noticed"] = corrupt_seen

    # ---- 4. coverage: every action of the spec was taken in a replayed behaviour, both pickle forms occurred ----
    missing = [a for a in ALL_ACTIONS if taken[a] == 0]      # (counted over the behaviours handed to the replay)
    if missing: raise RuntimeError("actions of Primitives.tla never exercised: %s" % missing)
    ctx.extra["steps_per_action"] = dict(sorted(taken.items()))
    ctx.extra["getstate_forms"] = {"%s %s %s" % k: v for k, v in sorted(FORMS.items())}
    for cls in ("BinaryReward", "HammingReward", "DiscreteReward"):
        for form in ("text", "raw"):
            if not FORMS[(cls, "pickle", form)] and not ctx.viol: raise RuntimeError("no %s was pickled in its %s form" % (cls, form))
    ctx.traces += sum(len(v) for v in cases.values())
    ctx.extra["steps_compared"] = steps_total
    ctx.assumptions += [
        "domain: the action alphabet of Primitives.tla (ints, floats equal to ints, strings, Categoricals with two level orders, tuples, one-hot tuples, HashableSparse, one plain dict); "
        "no numpy / torch actions (not installed), no nan",
        "HammingReward: argmax non-empty without duplicates; an action is a list / tuple of labels without duplicates or one scalar label",
        "DiscreteReward mapping form is asked about hashable actions only; == between reward functions is stated for list collections (what (1,2) == [1,2] makes of mixed ones is not)",
        "== of two distinct HammingRewards is not stated (the class defines no __eq__); hash of the other reward classes may raise TypeError",
        "Dense rows are compared with sequences only: what == makes of iterables that are not sequences (str, dict, set) is not stated",
        "coba.json round trips are stated only where json can carry the arguments (no inf, no sparse action, no tuple-valued action next to a Categorical, text keys)",
        "aliasing: the check demands equal values and types, not identity, of what a constructor stores",
        "the other process is a python started with PYTHONHASHSEED=1 (this one runs with 0)",
    ]


if __name__ == "__main__":
    if len(sys.argv) == 4 and sys.argv[1] == "--other":
        other_process_main(sys.argv[2], sys.argv[3])
