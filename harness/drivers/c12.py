"""C12 - what coba reads from a dataset file is what the file says: spec/DatasetFiles.tla.

The spec has two halves (constant Mode).

"delim": texts over x, y (a blank), a 2-byte and a 3-byte character, LF and CR LF, delivered as bytes cut at arbitrary
positions; the reference line assembler Feed/End is model-checked against SplitLines(Decode(bytes)) for every
chunking and every case is printed with its expected lines.  The driver delivers each (text, chunking) to the
real HttpSource._byte_it_ as identity / gzip / deflate (stored blocks, so that the cuts fall exactly where the
spec put them, plus really compressed streams in every fixed chunk size), and pushes the text through
DiskSink -> DiskSource and raw LF / CRLF files -> DiskSource (plain and .gz).

"arff" / "csv" / "svm": a table and a value for every lexical choice point of the format grammar, at most K
fields away from the common dialect; TLC writes the file, parses it back with the reference grammar
(WriterSound) and prints file + table + whether the spelling is the common dialect.  The driver feeds the file
to ArffReader / CsvReader / LibsvmReader / ManikReader and compares names, values, levels, missing markers and
labels; a sample also goes from disk through Environments.from_supervised and (numeric / nominal tables)
OpenmlSource(drop_missing=True).  Oracle: the common dialect must parse to the table; any other spelling must
parse to the table or raise.

Signatures: `<reader>:<outcome>:<cause>` where cause is the smallest set of departures from the default case
(generalised: cell type + value, lexical field + option) for which the same outcome is seen, so that one
defect keeps one name however many other quirks surround it."""
import os, io, json, gzip, zlib, random, re
from .. import tlc, tracecheck

FINISH = dict(level="model_checking",
              rule="a case = one TLC-generated (text, chunking) delivered through the real byte/line sources in three content encodings, or one TLC-generated dataset file (table + lexical choices) read by the real reader; distinct = distinct byte deliveries / files")

NONASCII = "\u00e9"          # the spec's "~" / E
BYTE = {"x": b"x", "y": b" ", "M1": b"\xc3", "M2": b"\xa9", "T1": b"\xe2", "T2": b"\x82", "T3": b"\xac", "LF": b"\n", "CR": b"\r"}


def txt(s): return s.replace("~", NONASCII)


# =====================================================================================================
#                                              delim
# =====================================================================================================
class Chunked:
    """A byte stream whose read(n) hands out the given chunks (a short read is what a socket does)."""
    def __init__(self, chunks): self.chunks = list(chunks); self.i = 0
    def read(self, n=-1):
        if self.i >= len(self.chunks): return b""
        c = self.chunks[self.i]; self.i += 1; return c
    def __enter__(self): return self
    def __exit__(self, *a): return False


def split_at(b, cuts):
    out = []; p = 0
    for c in sorted(cuts):
        if 0 < c < len(b): out.append(b[p:c]); p = c
    out.append(b[p:])
    return [c for c in out if c != b""] or []


def compress(raw, enc, level):
    if enc == "gzip": co = zlib.compressobj(level, zlib.DEFLATED, 16 + zlib.MAX_WBITS)
    else: co = zlib.compressobj(level, zlib.DEFLATED, -zlib.MAX_WBITS)
    return co.compress(raw) + co.flush()


def plain_cuts(enc, chunks):
    """Where the chunk boundaries fall in the decoded byte stream (a conversion, not an oracle)."""
    if enc is None: d = lambda x: x
    elif enc == "gzip": d = zlib.decompressobj(16 + zlib.MAX_WBITS).decompress
    else: d = zlib.decompressobj(-zlib.MAX_WBITS).decompress
    cuts = set(); n = 0
    for c in chunks:
        n += len(d(c)); cuts.add(n)
    return cuts


def delim_features(raw, cuts):
    crlf = any(0 < c < len(raw) and raw[c - 1:c] == b"\r" and raw[c:c + 1] == b"\n" for c in cuts)
    char = any(0 < c < len(raw) and (raw[c] & 0xC0) == 0x80 for c in cuts)
    return crlf, char


def is_with_extra_empties(got, exp):
    """got = exp with some additional '' elements"""
    i = 0
    for g in got:
        if i < len(exp) and g == exp[i]: i += 1
        elif g == "": continue
        else: return False
    return i == len(exp) and len(got) > len(exp)


def deliver(ctx, HttpSource, enc, raw, chunks, exp, how):
    cuts = plain_cuts(enc, chunks)
    crlf, char = delim_features(raw, cuts)
    ctx.case(("d", enc, tuple(chunks)))
    ctx.traces += 1
    rep = dict(encoding=enc, raw=raw.decode("utf-8"), chunks=[c.hex() for c in chunks], expected=exp, how=how)
    try:
        got = list(HttpSource._byte_it_(enc, "utf-8", 1 << 20, Chunked(chunks)))
    except Exception as e:
        if isinstance(e, UnicodeDecodeError) and char:
            sig = "delim:cut-inside-multibyte-char:raises-UnicodeDecodeError"
        else:
            sig = "delim:%s:raises-%s" % (enc or "identity", type(e).__name__)
        ctx.violation(sig, "HttpSource._byte_it_(%r) on %r delivered as %r raised %s: %s (the text read at once has lines %r)" % (enc, raw, chunks if enc is None else "%d chunks" % len(chunks), type(e).__name__, str(e)[:80], exp), rep)
        return
    if got != exp:
        if crlf and is_with_extra_empties(got, exp): sig = "delim:cut-between-CR-and-LF:spurious-empty-line"
        else: sig = "delim:%s:lines-differ" % (enc or "identity")
        ctx.violation(sig, "HttpSource._byte_it_(%r) on %r delivered as %r gave lines %r, the text read at once has %r" % (enc, raw, chunks if enc is None else "%d chunks cut at plain offsets %s" % (len(chunks), sorted(cuts)), got, exp), rep)


class TlcPool:
    """The TLC runs of one check are independent of each other: they are started together (a few at a time) and
    each result is taken when the replay needs it.  Nothing depends on which finishes first."""
    def __init__(self, ctx, parallel):
        from concurrent.futures import ThreadPoolExecutor
        self.ctx = ctx; self.ex = ThreadPoolExecutor(parallel); self.f = {}
    def submit(self, mode, name, sub, heap):
        sub = dict(sub)
        if mode != "delim": sub['Mode = "delim"'] = 'Mode = "%s"' % mode
        cfg = tracecheck._cfg("DatasetFiles.cfg", sub, self.ctx.scratch, "%s_%s.cfg" % (mode, name))
        self.f[(mode, name)] = self.ex.submit(tlc.run, "DatasetFiles", cfg, self.ctx.scratch, workers=16, timeout=3000, heap=heap)
    def get(self, mode, name):
        r = self.f.pop((mode, name)).result()
        self.ctx.add_tlc("DatasetFiles_%s_%s" % (mode, name), r)
        for v in r.violations:
            self.ctx.violation("spec:%s" % (v["name"] or v["kind"]), "DatasetFiles.tla (%s) itself violates %s: the spec's writer / reference grammar / line assembler disagree" % (mode, v["name"]), v["trace"][:40])
        return r


def delim_runs(ctx):
    if ctx.quick:
        return [("all3", {'Syms = {"x", "E", "L", "C"}': 'Syms = {"x", "y", "E", "W", "L", "C"}'}),
                ("uniform5", {"MaxSyms = 3": "MaxSyms = 5", 'CutMode = "all"': 'CutMode = "uniform"'})]
    return [("all4", {'Syms = {"x", "E", "L", "C"}': 'Syms = {"x", "y", "E", "W", "L", "C"}', "MaxSyms = 3": "MaxSyms = 4", "Reads = 2": "Reads = 1"}),
            ("all5", {"MaxSyms = 3": "MaxSyms = 5", "Reads = 2": "Reads = 1"}),
            ("uniform7", {"MaxSyms = 3": "MaxSyms = 7", 'CutMode = "all"': 'CutMode = "uniform"'})]


def table_runs(ctx):
    if ctx.quick:
        return [("arff", "k2", {"K = 1": "K = 2"}),
                ("arff", "k2ssn", {"K = 1": "K = 2", 'Shapes = {"nsc"}': 'Shapes = {"ssn"}', "SparseSet = {FALSE, TRUE}": "SparseSet = {FALSE}"}),
                ("arff", "k1", {'Shapes = {"nsc"}': 'Shapes = {"sc", "cns", "dn", "s", "ssn", "nnc"}', "Rich = FALSE": "Rich = TRUE"}),
                ("csv", "k2", {"K = 1": "K = 2", 'Shapes = {"nsc"}': 'Shapes = {"c2"}'}),
                ("csv", "k1", {'Shapes = {"nsc"}': 'Shapes = {"c1", "c3"}', "Rich = FALSE": "Rich = TRUE"}),
                ("svm", "k", {"K = 1": "K = 2"})]
    return [("arff", "k2rich", {"K = 1": "K = 2", 'Shapes = {"nsc"}': 'Shapes = {"nsc", "sc", "cns", "dn", "s", "nnc", "ssn"}', "Rich = FALSE": "Rich = TRUE"}),
            ("arff", "k3", {"K = 1": "K = 3", 'Shapes = {"nsc"}': 'Shapes = {"sc"}', "SparseSet = {FALSE, TRUE}": "SparseSet = {FALSE}"}),
            ("csv", "k2", {"K = 1": "K = 2", 'Shapes = {"nsc"}': 'Shapes = {"c1", "c2", "c3"}', "Rich = FALSE": "Rich = TRUE"}),
            ("csv", "k3", {"K = 1": "K = 3", 'Shapes = {"nsc"}': 'Shapes = {"c2"}'}),
            ("svm", "k", {"K = 1": "K = 3"})]


class FakeResponse:
    """What urllib hands to HttpSource.read: headers, charset, a byte stream (HTTP itself is not exercised)."""
    def __init__(self, body, enc): self.b = io.BytesIO(body); self.headers = {"Content-Encoding": enc} if enc else {}
    def info(self): return self
    def get_charsets(self): return ["utf-8"]
    def read(self, n=-1): return self.b.read(n)
    def __enter__(self): return self
    def __exit__(self, *a): return False


def lines_or_error(f):
    try: return list(f())
    except Exception as e: return "raised %s: %s" % (type(e).__name__, str(e)[:60])


def reuse_sources(ctx, d, n, raw, exp, prev, HttpSource, DiskSource, DelimSource, ListSource, DiskSink):
    """One object, several applications (the spec's Again / AppendRead / reuse rule): every application is compared
    with the expectation for what it was applied to; `prev` is another text (the second, different input)."""
    import urllib.request, codecs
    praw, pexp = prev
    def bad(sig, what, rep): ctx.violation(sig, what, rep)
    for ext in ("txt", "txt.gz"):
        opener = gzip.open if ext.endswith("gz") else open
        kind = "gz" if ext.endswith("gz") else "plain"
        # ---- the same DiskSource: read, read again, two reads open at once, the file replaced by another text ----
        p = os.path.join(d, "re%d.%s" % (n, ext))
        with opener(p, "wb") as f: f.write(raw)
        src = DiskSource(p)
        ctx.case(("disk2", ext, raw)); ctx.traces += 1
        got1 = lines_or_error(src.read); got2 = lines_or_error(src.read)
        def inter():
            g1 = src.read(); head = [x for _, x in zip(range(1), g1)]
            whole = list(src.read())
            return [head + list(g1), whole]
        got3 = lines_or_error(inter)
        with opener(p, "wb") as f: f.write(praw)
        got4 = lines_or_error(src.read)
        rep = dict(raw=raw.decode(), expected=exp, other=praw.decode(), ext=ext)
        if got1 != exp: bad("disk:source:%s" % kind, "DiskSource on a %s file holding %r gave %r, expected lines %r" % (ext, raw, got1, exp), rep)
        elif got2 != exp: bad("disk:reused-source:second-read", "the same DiskSource (%s file holding %r) read a second time gave %r, expected %r as the first time" % (ext, raw, got2, exp), rep)
        elif got3 != [exp, exp]: bad("disk:reused-source:two-reads-open-at-once", "two reads of the same DiskSource (%s file holding %r) consumed alternately gave %r, expected twice %r" % (ext, raw, got3, exp), rep)
        elif got4 != pexp: bad("disk:reused-source:file-replaced-between-reads", "the same DiskSource read again after its %s file was rewritten with %r gave %r, expected %r" % (ext, praw, got4, pexp), rep)
        os.remove(p)
        # ---- the same DiskSink: two writes in a row, inside one `with`, a new sink appending to the file ----
        for batch in (None, 2):
            p = os.path.join(d, "app%d.%s" % (n, ext))
            ctx.case(("sink2", ext, batch, raw)); ctx.traces += 1
            rep = dict(first=exp, second=pexp, ext=ext, batch=batch)
            def write2():
                sink = DiskSink(p, batch=batch)
                sink.write(list(exp)); sink.write(iter(pexp))
                return list(DiskSource(p).read()) if os.path.exists(p) else []
            got = lines_or_error(write2)
            if got != exp + pexp: bad("disk:reused-sink:second-write", "DiskSink(batch=%r) wrote %r and then %r to a %s file; DiskSource read back %r" % (batch, exp, pexp, ext, got), rep)
            def append():
                DiskSink(p, batch=batch).write(list(exp))
                return list(DiskSource(p).read())
            got = lines_or_error(append)
            if got != exp + pexp + exp: bad("disk:reused-sink:append-to-existing-file", "a new DiskSink(batch=%r) appended %r to a %s file holding the lines %r; DiskSource read back %r" % (batch, exp, ext, exp + pexp, got), rep)
            if os.path.exists(p): os.remove(p)
            def within():
                sink = DiskSink(p, batch=batch)
                with sink:
                    sink.write(list(pexp)); sink.write(list(exp))
                sink.write(list(pexp))
                return list(DiskSource(p).read()) if os.path.exists(p) else []
            got = lines_or_error(within)
            if got != pexp + exp + pexp: bad("disk:reused-sink:writes-inside-with", "DiskSink(batch=%r) wrote %r and %r inside one `with` and %r after it (%s file); DiskSource read back %r" % (batch, pexp, exp, pexp, ext, got), rep)
            if os.path.exists(p): os.remove(p)
    # ---- the same DelimSource over a re-readable source of text chunks ----
    k = 1 + n % 4
    dec = codecs.getincrementaldecoder("utf-8")()
    chunks = [dec.decode(raw[i:i + k]) for i in range(0, len(raw), k)]
    ds = DelimSource(ListSource(chunks))
    ctx.case(("delim2", k, raw)); ctx.traces += 1
    got1 = lines_or_error(ds.read); got2 = lines_or_error(ds.read)
    if got1 != exp: bad("delim:source:lines-differ", "DelimSource over the text chunks %r gave %r, expected %r" % (chunks, got1, exp), dict(chunks=chunks, expected=exp))
    elif got2 != exp: bad("delim:reused-source:second-read", "the same DelimSource over the text chunks %r read a second time gave %r, expected %r" % (chunks, got2, exp), dict(chunks=chunks, expected=exp))
    # ---- the same HttpSource object: three requests answered with this text, the other text, this text again ----
    encs = (None, "gzip", "deflate")
    e1, e2 = encs[n % 3], encs[(n // 3) % 3]
    body = lambda r, e: r if e is None else compress(r, e, 6)
    queue = [FakeResponse(body(raw, e1), e1), FakeResponse(body(praw, e2), e2), FakeResponse(body(raw, e1), e1)]
    real = urllib.request.urlopen
    urllib.request.urlopen = lambda req, timeout=None: queue.pop(0)
    try:
        http = HttpSource("http://c12.invalid/data", chunk_size=1 + n % 5)
        ctx.case(("http", n % 5, e1, e2, raw, praw)); ctx.traces += 1
        got = [lines_or_error(http.read) for _ in range(3)]
    finally:
        urllib.request.urlopen = real
    rep = dict(raw=raw.decode(), other=praw.decode(), encodings=[e1, e2, e1], chunk_size=1 + n % 5, expected=[exp, pexp, exp])
    if got[0] != exp: bad("http:source:lines-differ", "HttpSource(chunk_size=%d).read() on a response holding %r (%s) gave %r, expected %r" % (1 + n % 5, raw, e1 or "identity", got[0], exp), rep)
    elif got[1] != pexp: bad("http:reused-source:second-response", "the same HttpSource read a second response holding %r (%s) as %r, expected %r (the first response held %r)" % (praw, e2 or "identity", got[1], pexp, raw), rep)
    elif got[2] != exp: bad("http:reused-source:first-response-again", "the same HttpSource read %r (%s) a second time as %r, expected %r" % (raw, e1 or "identity", got[2], exp), rep)


# ---- long, highly compressible bodies (spec: ConcatLines / ArffRepeat / CsvRepeat / SvmRepeat) ----
def encodings_of(body, split_at_byte):
    """(label, Content-Encoding, bytes, must_be_accepted): level 9; gzip in one member and in two, raw deflate (what
    coba's own unit test sends) and zlib-wrapped deflate (RFC 9110's form: may be refused, must never be misread)."""
    raw9 = zlib.compressobj(9, zlib.DEFLATED, -zlib.MAX_WBITS)
    return [("gzip", "gzip", gzip.compress(body, 9), True),
            ("gzip-multi-member", "gzip", gzip.compress(body[:split_at_byte], 9) + gzip.compress(body[split_at_byte:], 9), True),
            ("deflate", "deflate", raw9.compress(body) + raw9.flush(), True),
            ("deflate-zlib-wrapped", "deflate", zlib.compress(body, 9), False),
            ("identity", None, body, True)]


def through_http(HttpSource, header, data, size, wrap=None):
    """The real HttpSource object (urllib's urlopen answers with a canned response): its lines, or what `wrap` makes
    of the source (a format source built on it)."""
    import urllib.request
    real = urllib.request.urlopen
    urllib.request.urlopen = lambda req, timeout=None: FakeResponse(data, header)
    try:
        src = HttpSource("http://c12.invalid/long", chunk_size=size)
        if wrap: return list(wrap(src).read())
        got = src.read()
        return got.splitlines() if isinstance(got, str) else list(got)
    finally:
        urllib.request.urlopen = real


def sig_long(label, what): return ("http:long-body:identity:%s" if label == "identity" else "http:compressed-long-body:" + label + ":%s") % what


def long_texts(ctx, HttpSource, texts):
    """Every k-th TLC text, closed by LF, repeated 50 / 200 / 500 times (expected lines = the spec's `unit` lines
    repeated, ConcatLines), compressed for real and delivered through HttpSource in many chunk sizes."""
    n_del = n_rej = 0
    step = ctx.pick(6, 8)
    for n, (raw, (exp, unit)) in enumerate(sorted(texts.items())):
        if n % step != 2: continue
        piece = raw if raw.endswith(b"\n") else raw + b"\n"
        reps = (50, 200, 500)[(n // step) % 3]
        body = piece * reps; want = unit * reps
        for label, header, data, must in encodings_of(body, len(piece) * (reps // 2)):
            sizes = (7, 64, 1024, len(data) + 10, None) if label == "identity" else (1, 2, 3, 7, 64, 1024, len(data) + 10, None)
            for size in sizes:
                ctx.case(("long", label, size, raw, reps)); ctx.traces += 1; n_del += 1
                rep = dict(piece=piece.decode("utf-8"), repeated=reps, encoding=label, chunk_size=size, compressed_bytes=len(data), plain_bytes=len(body), expected_lines=len(want))
                try: got = through_http(HttpSource, header, data, size)
                except Exception as e:
                    if not must: n_rej += 1; continue
                    ctx.violation(sig_long(label, "raises-" + type(e).__name__), "HttpSource(chunk_size=%r) on %r x %d (%s, %d -> %d bytes) raised %s: %s" % (size, piece, reps, label, len(body), len(data), type(e).__name__, str(e)[:80]), rep); continue
                if got != want:
                    k = next((i for i, (a, b) in enumerate(zip(got, want)) if a != b), min(len(got), len(want)))
                    ctx.violation(sig_long(label, "lines-differ"), "HttpSource(chunk_size=%r) on %r x %d (%s, %d -> %d bytes) gave %d lines, the text has %d; first difference at line %d: %r" % (size, piece, reps, label, len(body), len(data), len(got), len(want), k, got[k:k + 2]), rep)
    ctx.extra["long_text_deliveries"] = n_del; ctx.extra["zlib_wrapped_deflate_refused"] = n_rej


def long_tables(ctx, rng, okcases, failures):
    """A few TLC table files with their data lines repeated to >= 1000 rows (expected rows = the spec's rows repeated,
    ArffRepeat / CsvRepeat / SvmRepeat), compressed for real, read end to end by ArffSource / CsvSource / LibSvmSource /
    ManikSource built on the real HttpSource in several chunk sizes: lines, row count and rows must be the file's."""
    from coba.pipes.sources import HttpSource
    from coba.environments.supervised import ArffSource, CsvSource, LibSvmSource, ManikSource
    groups = {}
    for k in okcases:
        fmt, c = k[0], k[1]
        if len(c["devs"]) > 2: continue
        g = ("arff", c["sparse"]) if fmt == "arff" else ("csv", c["hdr"]) if fmt == "csv" else ("svm", c["manik"])
        groups.setdefault(g, []).append(k)
    n_files = n_runs = 0
    for g in sorted(groups, key=str):
        for n, (fmt, c, lines, attrs, rows) in enumerate(rng.sample(groups[g], min(len(groups[g]), ctx.pick(2, 8)))):
            if fmt == "arff":
                d = max(i for i, l in enumerate(lines) if l.strip().lower() == "@data")
                head, data, nrows = lines[:d + 1], lines[d + 1:], len(rows)
            elif fmt == "csv": head, data, nrows = (lines[:1], lines[1:], len(c["rows"])) if c["hdr"] else ([], lines, len(c["rows"]))
            else: head, data, nrows = (lines[:1], lines[1:], len(c["rows"])) if c["manik"] else ([], lines, len(c["rows"]))
            if not nrows or not data: continue
            m = -(-1000 // nrows)
            long_lines = head + data * m
            nl = "\r\n" if n % 2 else "\n"
            body = (nl.join(long_lines) + nl).encode("utf-8")
            want_lines = [l for l in long_lines]
            if fmt == "arff":
                wrap = ArffSource; judge_rows = lambda got: read_arff(long_lines, attrs, rows * m, c["sparse"], None, got)
            elif fmt == "csv":
                cc = dict(c, rows=c["rows"] * m, lines=long_lines)
                wrap = lambda src: CsvSource(src, has_header=c["hdr"], **csv_kw(c)); judge_rows = lambda got: read_csv(cc, None, got)
            else:
                cc = dict(c, rows=c["rows"] * m, lines=long_lines)
                wrap = ManikSource if c["manik"] else LibSvmSource; judge_rows = lambda got: read_svm(cc, None, got)
            n_files += 1
            half = len((nl.join(long_lines[:len(long_lines) // 2]) + nl).encode("utf-8"))
            for label, header, data_z, must in encodings_of(body, half):
                if not must: continue
                sizes = (64, 1024, len(data_z) + 10) if label == "identity" else (1, 3, 64, 1024, len(data_z) + 10)
                for size in sizes:
                    ctx.case(("longtab", fmt, label, size, tuple(lines))); ctx.traces += 1; n_runs += 1
                    rep = dict(file_head=long_lines[:len(head) + len(data)], data_lines_repeated=m, rows=nrows * m, encoding=label, chunk_size=size, compressed_bytes=len(data_z), plain_bytes=len(body))
                    descr = "%s file of %d rows (%s, %d -> %d bytes) through HttpSource(chunk_size=%d)" % (fmt, nrows * m, label, len(body), len(data_z), size)
                    try: got_lines = through_http(HttpSource, header, data_z, size)
                    except Exception as e:
                        failures.append(("http", "long", sig_long(label, "raises-" + type(e).__name__), "%s raised %s: %s" % (descr, type(e).__name__, str(e)[:80]), rep)); continue
                    if got_lines != want_lines:
                        failures.append(("http", "long", sig_long(label, "lines-differ"), "%s gave %d lines, the file has %d (last line read: %r)" % (descr, len(got_lines), len(want_lines), got_lines[-1:] ), rep)); continue
                    try: o = judge_rows(through_http(HttpSource, header, data_z, size, wrap))
                    except Exception as e: o = Outcome("raises", "", "%s: %s" % (type(e).__name__, str(e)[:100]))
                    if o.kind != "ok":
                        failures.append(("http", "long", sig_long(label, "%s-%s" % (fmt, o.aspect or "raises")), "%s read by %s: %s" % (descr, "the format source built on it", o.what), rep))
    ctx.extra["long_table_files"] = n_files; ctx.extra["long_table_reads"] = n_runs


def run_delim(ctx, rng, pool):
    from coba.pipes.sources import HttpSource, DiskSource, DelimSource, ListSource
    from coba.pipes.sinks import DiskSink
    texts = {}
    d = os.path.join(ctx.scratch, "disk"); os.makedirs(d, exist_ok=True)
    for name, sub in delim_runs(ctx):
        r = pool.get("delim", name)
        cases = [j for j in r.json if isinstance(j, dict) and j.get("mode") == "delim"]
        if len(cases) < 500: raise RuntimeError("delim %s produced only %d cases" % (name, len(cases)))
        cases.sort(key=lambda c: json.dumps(c, sort_keys=True))
        ctx.sample(dict(bytes=cases[len(cases) // 2]["bytes"], cuts=cases[len(cases) // 2]["cuts"], lines=cases[len(cases) // 2]["lines"]), limit=2)
        for c in cases:
            raw = b"".join(BYTE[b] for b in c["bytes"])
            cuts = [i + 1 for i, f in enumerate(c["cuts"]) if f]
            exp = [l.replace("E", NONASCII).replace("W", "\u20ac").replace("y", " ") for l in c["lines"]]
            conv = lambda ls: [l.replace("E", NONASCII).replace("W", "\u20ac").replace("y", " ") for l in ls]
            texts.setdefault(raw, (exp, conv(c["unit"])))
            if not raw: continue
            # identity: the chunks are the spec's
            deliver(ctx, HttpSource, None, raw, split_at(raw, cuts), exp, "identity")
            # gzip / deflate in stored blocks: the same cuts, shifted by the header; header and trailer ride along
            for enc in ("gzip", "deflate"):
                comp = compress(raw, enc, 0)
                off = comp.find(raw)
                if off < 0: raise RuntimeError("stored block not found")
                deliver(ctx, HttpSource, enc, raw, split_at(comp, [off + k for k in cuts]), exp, "stored")
    ctx.exhaustive = True
    # every text once more: really compressed, every fixed chunk size; whole text in one piece; disk round trips
    n = 0
    prev = (b"x \r\n\xc3\xa9\n", ["x ", NONASCII])
    long_texts(ctx, HttpSource, texts)
    for raw, (exp, unit) in sorted(texts.items()):
        if n % ctx.pick(3, 2) == 1:
            reuse_sources(ctx, d, n, raw, exp, prev, HttpSource, DiskSource, DelimSource, ListSource, DiskSink)
            prev = (raw, exp)
        if raw:
            for enc in ("gzip", "deflate"):
                comp = compress(raw, enc, 6)
                sizes = range(1, len(comp) + 1) if (not ctx.quick or n % 4 == 0) else (1, 2, 3, 5, len(comp))
                for k in sizes:
                    chunks = [comp[i:i + k] for i in range(0, len(comp), k)]
                    deliver(ctx, HttpSource, enc, raw, chunks, exp, "level6/size%d" % k)
        # whole text at once (chunk = None returns the text; its lines are the reference)
        try:
            whole = HttpSource._byte_it_(None, "utf-8", None, io.BytesIO(raw)).splitlines()
        except Exception as e:
            whole = "raised %s" % type(e).__name__
        if whole != exp:
            ctx.violation("delim:whole-text", "the text %r read at once has lines %r, the spec says %r" % (raw, whole, exp), dict(raw=raw.decode(), expected=exp))
        # disk: raw LF / CRLF bytes -> DiskSource, DiskSink -> DiskSource, plain and .gz
        if n % ctx.pick(3, 1) == 0:
            for ext in ("txt", "txt.gz"):
                p = os.path.join(d, "raw%d.%s" % (n, ext))
                with (gzip.open if ext.endswith("gz") else open)(p, "wb") as f: f.write(raw)
                ctx.case(("disk", ext, raw)); ctx.traces += 1
                try: got = list(DiskSource(p).read())
                except Exception as e: got = "raised %s: %s" % (type(e).__name__, str(e)[:60])
                if got != exp:
                    ctx.violation("disk:source:%s" % ("gz" if ext.endswith("gz") else "plain"), "DiskSource on a %s file holding %r gave %r, expected lines %r" % (ext, raw, got, exp), dict(raw=raw.decode(), expected=exp, ext=ext))
                os.remove(p)
                for batch in (None, 1, 2):
                    p = os.path.join(d, "sink%d.%s" % (n, ext))
                    ctx.case(("sink", ext, batch, raw)); ctx.traces += 1
                    try:
                        DiskSink(p, batch=batch).write(iter(exp)) if batch else DiskSink(p).write(list(exp))
                        got = list(DiskSource(p).read()) if os.path.exists(p) else []
                    except Exception as e: got = "raised %s: %s" % (type(e).__name__, str(e)[:60])
                    if got != exp:
                        ctx.violation("disk:sink-source:%s" % ("gz" if ext.endswith("gz") else "plain"), "lines %r written by DiskSink(batch=%r) to a %s file were read back by DiskSource as %r" % (exp, batch, ext, got), dict(lines=exp, ext=ext, batch=batch))
                    if os.path.exists(p): os.remove(p)
        n += 1
    ctx.extra["delim_texts"] = len(texts)


# =====================================================================================================
#                                         table readers
# =====================================================================================================
class Outcome:
    def __init__(self, kind, aspect="", what="", got=None, exp=None):
        self.kind = kind; self.aspect = aspect; self.what = what; self.got = got; self.exp = exp


def cell_ok(exp, got, sparse):
    from coba.primitives import Categorical
    t = exp["t"]
    if t == "miss": return got is None
    if t == "num": return isinstance(got, (int, float)) and not isinstance(got, bool) and got == exp["n"] / 10
    if t == "nom":
        if not isinstance(got, Categorical) or str(got) != exp["s"]: return False
        return list(got.levels) == exp["levels"] or (sparse and list(got.levels) == ["0"] + exp["levels"])
    return isinstance(got, str) and not isinstance(got, Categorical) and got == exp["s"]


def arff_expected(c):
    attrs = [dict(name=txt(a["name"]), type=a["type"], levels=[txt(l) for l in a["levels"]]) for a in c["attrs"]]
    rows = []
    for r in c["rows"]:
        row = []
        for a, cell in zip(attrs, r):
            if cell["t"] == "miss": row.append(dict(t="miss"))
            elif cell["t"] == "num": row.append(dict(t="num", n=cell["n"]))
            elif a["type"] == "nom": row.append(dict(t="nom", s=txt(cell["s"]), levels=a["levels"]))
            else: row.append(dict(t="str", s=txt(cell["s"])))
        rows.append(row)
    return attrs, rows


def obtain(reader, lines):
    """reader.filter(lines) as a list of (lazy) rows, or the Outcome of its failure"""
    try: return list(reader.filter(iter(lines)))
    except Exception as e: return Outcome("raises", "", "%s: %s" % (type(e).__name__, str(e)[:100]))


def read_arff(lines, attrs, rows, sparse, reader, got=None):
    if got is None: got = obtain(reader, lines)
    if isinstance(got, Outcome): return got
    if len(got) != len(rows): return Outcome("misread", "row-count", "%d rows instead of %d" % (len(got), len(rows)))
    names = [a["name"] for a in attrs]
    for i, (g, e) in enumerate(zip(got, rows)):
        any_missing = any(x["t"] == "miss" for x in e)
        try:
            if not sparse:
                vals = list(g)
                hdr = [k for k, _ in sorted(g.headers.items(), key=lambda kv: kv[1])]
                if hdr != names: return Outcome("misread", "names", "column names %r instead of %r" % (hdr, names))
                if len(vals) != len(e): return Outcome("misread", "value", "row %d has %d values" % (i, len(vals)))
                for k, (x, v) in enumerate(zip(e, vals)):
                    if not cell_ok(x, v, False): return Outcome("misread", "missing-value" if x["t"] == "miss" or v is None else ("levels" if x["t"] == "nom" and str(v) == x["s"] else "value"), "row %d column %r is %r, the file says %s" % (i, names[k], v, show(x)), got=v, exp=x)
                    if not cell_ok(x, g[k], False) or not cell_ok(x, g[names[k]], False): return Outcome("misread", "value-by-key", "row %d column %r read by index / name is %r / %r, the file says %s" % (i, names[k], g[k], g[names[k]], show(x)))
            else:
                items = dict(g.items())
                keys = set(g.keys())
                for k, x in enumerate(e):
                    nm = names[k]
                    if x["t"] == "num" and x["n"] == 0:
                        if nm in items and items[nm] != 0: return Outcome("misread", "value", "row %d column %r is %r, the file says 0" % (i, nm, items[nm]))
                        continue
                    if nm not in items: return Outcome("misread", "value", "row %d has no entry %r (keys %r), the file says %s" % (i, nm, sorted(map(str, items)), show(x)))
                    if not cell_ok(x, items[nm], True): return Outcome("misread", "missing-value" if x["t"] == "miss" or items[nm] is None else ("levels" if x["t"] == "nom" and str(items[nm]) == x["s"] else "value"), "row %d column %r is %r, the file says %s" % (i, nm, items[nm], show(x)))
                    if not cell_ok(x, g[nm], True): return Outcome("misread", "value-by-key", "row %d column %r read by name is %r, the file says %s" % (i, nm, g[nm], show(x)))
                if not keys <= set(names): return Outcome("misread", "names", "row %d has keys %r outside the declared names %r" % (i, sorted(map(str, keys)), names))
            marker = g.missing
        except Exception as ex:
            return Outcome("raises", "", "%s: %s" % (type(ex).__name__, str(ex)[:100]))
        if bool(marker) != any_missing:
            return Outcome("misread", "missing-marker", "row %d (%r) has row.missing == %r but the file %s a missing value in that row" % (i, lines_row(lines, i), marker, "has" if any_missing else "does not have"))
    return Outcome("ok")


def lines_row(lines, i):
    try:
        d = [k for k, l in enumerate(lines) if l.strip().lower() == "@data"][0]
        body = [l for l in lines[d + 1:] if l.strip() and not l.strip().startswith("%")]
        return body[i]
    except Exception:
        return "?"


def show(x):
    if x["t"] == "miss": return "missing (?)"
    if x["t"] == "num": return repr(x["n"] / 10)
    return repr(x["s"])


def csv_kw(c): return {} if c["delim"] == "," else dict(delimiter=c["delim"])


def read_csv(c, reader, got=None):
    lines = [txt(l) for l in c["lines"]]
    names = [txt(n) for n in c["names"]]
    rows = [[txt(v) for v in r] for r in c["rows"]]
    if got is None: got = obtain(reader, lines)
    if isinstance(got, Outcome): return got
    try:
        if len(got) != len(rows): return Outcome("misread", "row-count", "%d rows instead of %d" % (len(got), len(rows)))
        for i, (g, e) in enumerate(zip(got, rows)):
            vals = list(g)
            if c["hdr"]:
                hdr = [k for k, _ in sorted(g.headers.items(), key=lambda kv: kv[1])]
                if hdr != names: return Outcome("misread", "names", "column names %r instead of %r" % (hdr, names))
            if vals != e: return Outcome("misread", "value", "row %d is %r, the file says %r" % (i, vals, e))
            if c["hdr"] and [g[n] for n in names] != e: return Outcome("misread", "value-by-key", "row %d read by name is %r, the file says %r" % (i, [g[n] for n in names], e))
    except Exception as ex:
        return Outcome("raises", "", "%s: %s" % (type(ex).__name__, str(ex)[:100]))
    return Outcome("ok")


def read_svm(c, reader, got=None):
    lines = c["lines"]
    exp = [({f["i"]: f["n"] / 10 for f in r["feats"]}, list(r["labels"])) for r in c["rows"]]
    if got is None: got = obtain(reader, lines)
    if isinstance(got, Outcome): return got
    try:
        if len(got) != len(exp): return Outcome("misread", "row-count", "%d rows instead of %d" % (len(got), len(exp)))
        for i, (g, e) in enumerate(zip(got, exp)):
            feats, labels = g
            if dict(feats) != e[0] or not all(isinstance(v, float) for v in feats.values()): return Outcome("misread", "value", "row %d has features %r, the file says %r" % (i, dict(feats), e[0]))
            if list(labels) != e[1]: return Outcome("misread", "label", "row %d has labels %r, the file says %r" % (i, labels, e[1]))
    except Exception as ex:
        return Outcome("raises", "", "%s: %s" % (type(ex).__name__, str(ex)[:100]))
    return Outcome("ok")


# ---- generalised tags of a case's departures from the default case ----
def arff_tags(c):
    types = [a["type"] for a in c["attrs"]]; nc = len(types)
    def pos(k): return "first" if k == 1 else ("last" if k == nc else "mid")
    out = []
    for d in c["devs"]:
        f, v = d["f"], txt(d["v"])
        m = re.fullmatch(r"c(\d)(\d)", f)
        if m:
            col = int(m.group(2))
            out.append("%s-cell%s=%s" % (types[col - 1], "@" + pos(col) if v == "?missing" else "", v)); continue
        m = re.fullmatch(r"vq(\d)(\d)", f)
        if m: out.append("quoted-%s-value=%s" % (types[int(m.group(2)) - 1], v)); continue
        m = re.fullmatch(r"(name|nq|lvl)(\d)", f)
        if m: out.append("%s=%s" % ({"name": "attribute-name", "nq": "quoted-name", "lvl": "level"}[m.group(1)], v)); continue
        out.append("%s=%s" % (f, v))
    return frozenset(out)


def plain_tags(c):
    out = []
    for d in c["devs"]:
        f, v = d["f"], txt(d["v"])
        f = re.sub(r"^c\d(\d)$", "cell", f); f = re.sub(r"^vq\d\d$", "quoted-value", f); f = re.sub(r"^name\d$", "column-name", f)
        f = re.sub(r"^(lab|fts)\d$", lambda m: {"lab": "labels", "fts": "features"}[m.group(1)], f)
        out.append("%s=%s" % (f, v))
    return frozenset(out)


def data_lines(lines):
    d = [k for k, l in enumerate(lines) if l.strip().lower() == "@data"]
    return [l for l in lines[d[0] + 1:] if l.strip() and not l.strip().startswith("%")] if d else []


def diagnose(reader, c, o, lines):
    """Name of the known mechanism a failing case shows (a label for the report, never part of the verdict):
    a case that fits none of them keeps the generic signature built from its departures from the default file."""
    devs = {d["f"]: txt(d["v"]) for d in c["devs"]}
    if reader.startswith("arff"):
        names = [txt(a["name"]) for a in c["attrs"]]
        levels = [txt(l) for a in c["attrs"] for l in a["levels"]]
        strs = [txt(x["s"]) for r in c["rows"] for x in r if x["t"] == "s"]
        data = data_lines(lines)
        both = lambda ls: any("'" in l for l in ls) and any('"' in l for l in ls)
        if "?" in strs + levels and (o.aspect == "missing-value" or o.kind == "raises") and reader == "arff-sparse" and any("'?'" in l or '"?"' in l for l in data + lines):
            return "arff:quoted-question-mark:confused-with-missing"      # the sparse face of the quoted '?' finding
        if reader == "arff-sparse" and any("'" in l or '"' in l for l in data):
            return "arff-sparse:quoted-value-in-row:not-unquoted"
        if any("\\" in v for v in names + levels) and (o.aspect in ("names", "levels") or (o.kind == "raises" and ("unable to find" in o.what or "identical header" in o.what))
                                                          or (reader == "arff-sparse" and o.aspect in ("value", "value-by-key") and any("\\" in v for v in names))):
            return "arff:backslash-in-attribute-name-or-level:deleted"
        if "?" in strs + levels and (o.aspect == "missing-value" or o.kind == "raises"):
            return "arff:quoted-question-mark:confused-with-missing"
        if reader == "arff-dense":
            if devs.get("dsep") in (" ,", " , ") and isinstance(o.got, str) and o.got != o.got.rstrip(" \t"):
                return "arff-dense:blank-before-separator:kept-in-value"
            if o.aspect == "value" and isinstance(o.got, str) and len(o.got) >= 2 and o.got[0] in "'\"" and o.got[-1] == o.got[0] and both(data):
                return "arff-dense:both-quote-styles-after-first-row:quotes-kept"
            if o.aspect == "value" and isinstance(o.got, str) and o.exp and "\\" in o.exp.get("s", "") and o.got == o.exp["s"].replace("\\", "") and both(data):
                return "arff-dense:backslash-in-value-with-both-quote-styles:deleted"
            if o.kind == "raises" and both(data) and (o.what.startswith("IndexError") or any(v.endswith("\\") or v.startswith(",") for v in strs)):
                return "arff-dense:fallback-parser-with-both-quote-styles:rejects-valid-row"
            if "," not in devs.get("dsep", ",") and any("," in v for v in strs) and o.kind == "misread" and o.aspect in ("value", "missing-value", "value-by-key"):
                return "arff-dense:tab-or-blank-separated-with-comma-in-a-value:wrong-delimiter-inferred"
            if o.aspect == "missing-marker":
                if any(",?," in v.replace(" ", "") for v in strs): return "arff-dense:missing-marker:question-mark-between-commas-inside-quotes"
                if len(names) == 1: return "arff-dense:missing-marker:single-column"
                if "\t" in devs.get("dsep", ""): return "arff-dense:missing-marker:tab-separated"
        if reader == "arff-sparse" and o.aspect == "missing-marker" and (devs.get("bpad") == "inner" or devs.get("dsep") == " , " or devs.get("isep") == "\t"):
            return "arff-sparse:missing-marker:blank-or-tab-next-to-question-mark"
    if reader == "csv" and any(l != l.strip() for l in lines):
        return "csv:blank-at-line-edge:stripped"
    if reader in ("libsvm", "manik") and devs.get("sep") == "\t" and o.aspect == "row-count":
        return "libsvm-manik:tab-separated:rows-skipped"
    return None


def report(ctx, failures):
    """failures: [(reader, outcome kind+aspect, tags, what, replay)] -> signatures by smallest failing tag subset."""
    by = {}
    for reader, kind, tags, what, rep in failures:
        if not isinstance(tags, str): by.setdefault((reader, kind), set()).add(tags)
    for reader, kind, tags, what, rep in sorted(failures, key=lambda f: (f[0], f[1], len(f[2]), sorted(f[2]))):
        if isinstance(tags, str):
            ctx.violation(tags, what, rep); continue
        cands = [t for t in by[(reader, kind)] if t <= tags]
        cause = min(cands, key=lambda t: (len(t), sorted(t)))
        sig = "%s:%s:%s" % (reader, kind, " + ".join(sorted(cause)) or "default-file")
        ctx.violation(sig, what, rep)


def run_tables(ctx, rng, pool):
    from coba.pipes.readers import ArffReader, CsvReader, LibsvmReader, ManikReader
    failures = []
    stats = dict(ok=0, rejected=0)
    okcases = []; rejcases = []
    def tlc_cases(mode, name):
        r = pool.get(mode, name)
        cases = [j for j in r.json if isinstance(j, dict) and j.get("mode") == mode]
        if len(cases) < 100: raise RuntimeError("%s %s produced only %d cases" % (mode, name, len(cases)))
        cases.sort(key=lambda c: (len(c["devs"]), json.dumps(c, sort_keys=True)))
        return cases
    seen = set()
    def judge(reader, c, o, tags, lines):
        if o.kind == "ok": stats["ok"] += 1; return True
        if o.kind == "raises" and not c["common"]: stats["rejected"] += 1; return False
        kind = "common-dialect-rejected" if o.kind == "raises" else "misread-" + o.aspect
        what = "%s: %s%s | file: %r" % (reader, "a file in the common dialect was rejected: " if o.kind == "raises" else "silently misread: ", o.what, lines)
        failures.append((reader, kind, diagnose(reader, c, o, lines) or tags, what, dict(lines=lines, case={k: v for k, v in c.items() if k != "lines"})))
        return False
    # ---------------- ARFF ----------------
    runs = table_runs(ctx)
    for name in [n for m, n, _ in runs if m == "arff"]:
        cases = tlc_cases("arff", name)
        ctx.sample(dict(lines=cases[len(cases) // 3]["lines"], rows=cases[len(cases) // 3]["rows"], common=cases[len(cases) // 3]["common"]), limit=4)
        for c in cases:
            lines = [txt(l) for l in c["lines"]]
            key = ("arff", tuple(lines))
            if key in seen: continue
            seen.add(key); ctx.case(key); ctx.traces += 1
            attrs, rows = arff_expected(c)
            o = read_arff(lines, attrs, rows, c["sparse"], ArffReader())
            if judge("arff-sparse" if c["sparse"] else "arff-dense", c, o, arff_tags(c), lines):
                okcases.append(("arff", c, lines, attrs, rows))
            elif o.kind == "raises" and not c["common"]: rejcases.append(("arff", c, lines, attrs, rows))
    # ---------------- CSV ----------------
    for name in [n for m, n, _ in runs if m == "csv"]:
        cases = tlc_cases("csv", name)
        ctx.sample(dict(lines=cases[len(cases) // 3]["lines"], rows=cases[len(cases) // 3]["rows"]), limit=5)
        for c in cases:
            lines = [txt(l) for l in c["lines"]]
            key = ("csv", c["hdr"], c["delim"], tuple(lines))
            if key in seen: continue
            seen.add(key); ctx.case(key); ctx.traces += 1
            o = read_csv(c, CsvReader(c["hdr"], **csv_kw(c)))
            if judge("csv", c, o, plain_tags(c), lines): okcases.append(("csv", c, lines, None, None))
            elif o.kind == "raises" and not c["common"]: rejcases.append(("csv", c, lines, None, None))
    # ---------------- LibSVM / Manik ----------------
    cases = tlc_cases("svm", "k")
    ctx.sample(dict(lines=cases[len(cases) // 3]["lines"], rows=cases[len(cases) // 3]["rows"]), limit=6)
    for c in cases:
        lines = list(c["lines"])
        key = ("svm", c["manik"], tuple(lines))
        if key in seen: continue
        seen.add(key); ctx.case(key); ctx.traces += 1
        o = read_svm(c, ManikReader() if c["manik"] else LibsvmReader())
        if judge("manik" if c["manik"] else "libsvm", c, o, plain_tags(c), lines): okcases.append(("svm", c, lines, None, None))
        elif o.kind == "raises" and not c["common"]: rejcases.append(("svm", c, lines, None, None))
    # ---------------- from disk through Environments.from_supervised / OpenmlSource ----------------
    reuse_readers(ctx, rng, okcases, rejcases, failures)
    long_tables(ctx, rng, okcases, failures)
    pipeline(ctx, rng, okcases, failures)
    report(ctx, failures)
    ctx.extra["files_read_to_the_table"] = stats["ok"]; ctx.extra["uncommon_spellings_rejected_with_an_error"] = stats["rejected"]


def reuse_readers(ctx, rng, okcases, rejcases, failures):
    """The reuse rule for readers: ONE reader object filters file A, then a different file B of the same format
    (other attribute list / header / dense vs sparse / dialect choices - another TLC case), then A again; in a
    third of the histories both row lists are obtained first and B's lazy rows are read before A's; in a quarter the
    first file is one the reader rejects with an error.  Every application is compared with the spec's table for
    ITS OWN file; only files a fresh reader reads correctly are used, so any failure here is one of reuse."""
    from coba.pipes.readers import ArffReader, CsvReader, LibsvmReader, ManikReader
    groups = {}
    for k in okcases:
        fmt, c = k[0], k[1]
        g = ("arff",) if fmt == "arff" else ("csv", c["hdr"], c["delim"]) if fmt == "csv" else ("svm", c["manik"])
        groups.setdefault(g, ([], []))[0].append(k)
    for k in rejcases:
        fmt, c = k[0], k[1]
        g = ("arff",) if fmt == "arff" else ("csv", c["hdr"], c["delim"]) if fmt == "csv" else ("svm", c["manik"])
        if g in groups: groups[g][1].append(k)
    budget = {"arff": ctx.pick(4000, 40000), "csv": ctx.pick(1600, 12000), "svm": ctx.pick(600, 4000)}
    total = {f: sum(len(v[0]) for g, v in groups.items() if g[0] == f) for f in budget}
    n_hist = 0
    def apply(k, reader, got=None):
        fmt, c, lines, attrs, rows = k
        if fmt == "arff": return read_arff(lines, attrs, rows, c["sparse"], reader, got)
        if fmt == "csv": return read_csv(c, reader, got)
        return read_svm(c, reader, got)
    for g in sorted(groups, key=str):
        oks, rejs = groups[g]
        if len(oks) < 2: continue
        name = "arff" if g[0] == "arff" else "csv" if g[0] == "csv" else ("manik" if g[1] else "libsvm")
        for i in range(max(2, budget[g[0]] * len(oks) // max(1, total[g[0]]))):
            a, b = rng.choice(oks), rng.choice(oks)
            if a[2] == b[2]: continue
            reader = ArffReader() if g[0] == "arff" else CsvReader(g[1], **({} if g[2] == "," else dict(delimiter=g[2]))) if g[0] == "csv" else (ManikReader() if g[1] else LibsvmReader())
            hist = []            # (position, case, outcome)
            if i % 4 == 3 and rejs:
                r = rng.choice(rejs)
                apply(r, reader)                                      # raises (or not): whatever it does, the next file is read right
                hist.append(("file-after-a-rejected-file", b, apply(b, reader)))
                hist.append(("file-after-a-rejected-file", a, apply(a, reader)))
                first = r
            elif i % 3 == 1:
                ga, gb = obtain(reader, a[2]), obtain(reader, b[2])  # both applications made, nothing consumed yet
                hist.append(("second-file-rows-read-first", b, apply(b, reader, gb)))
                hist.append(("first-file-rows-read-last", a, apply(a, reader, ga)))
                first = a
            else:
                hist.append(("first-file", a, apply(a, reader)))
                hist.append(("second-file", b, apply(b, reader)))
                hist.append(("first-file-again", a, apply(a, reader)))
                first = a
            ctx.case(("reuse", name, tuple(first[2]), tuple(b[2]), i % 12)); ctx.traces += 1; n_hist += 1
            for pos, k, o in hist:
                if o.kind == "ok": continue
                what = "ONE %s object was applied to several files; the %s was %s: %s | this file: %r | the other file: %r" % (
                    type(reader).__name__, pos.replace("-", " "), "rejected" if o.kind == "raises" else "misread (" + o.aspect + ")", o.what, k[2], (b if k is not b else first)[2])
                failures.append((name, "reused-reader", "%s:reused-reader:%s" % (name, pos), what, dict(first=first[2], second=b[2], failing=k[2], position=pos)))
                break
    ctx.extra["reader_reuse_histories"] = n_hist


def pipeline(ctx, rng, okcases, failures):
    """Files the reader got right, once more from disk (LF / CRLF, plain / .gz): ONE ArffSource / CsvSource /
    LibSvmSource / ManikSource object read twice, ONE supervised environment built on it by
    Environments.from_supervised read twice (contexts and the rewarded action must be the file's features and
    label both times), ONE OpenmlSource read twice.  A failure of the first read is a failure of the pipeline; a
    failure of the second read only is one of reuse."""
    from coba.environments import Environments
    from coba.environments.supervised import ArffSource, CsvSource, LibSvmSource, ManikSource
    from coba.environments.openml import OpenmlSource
    from coba.context import CobaContext, MemoryCacher, NullLogger
    from coba.pipes import DiskSource
    d = os.path.join(ctx.scratch, "sup"); os.makedirs(d, exist_ok=True)
    def simulation(*a, **k):
        """The SupervisedSimulation that Environments.from_supervised builds (Environments appends its Finalize
        filter - one-hot actions, hardened contexts - which is C10's subject; we read what comes before it)."""
        from coba.environments.supervised import SupervisedSimulation
        env = Environments.from_supervised(*a, **k)[0]
        return env if isinstance(env, SupervisedSimulation) else env[0]

    def arff_check(c, attrs, rows, names, lab, ltype):
        def check(ints):
            if len(ints) != len(rows): return ("row-count", "%d interactions for %d rows" % (len(ints), len(rows)))
            for i, (it, r) in enumerate(zip(ints, rows)):
                cx = it["context"]
                if not c["sparse"]:
                    vals = list(cx)
                    if len(vals) != lab or not all(cell_ok(x, v, False) for x, v in zip(r[:lab], vals)): return ("context", "interaction %d has context %r, the file says %s" % (i, vals, [show(x) for x in r[:lab]]))
                else:
                    items = dict(cx.items())
                    for k, x in enumerate(r[:lab]):
                        if x["t"] == "num" and x["n"] == 0:
                            if items.get(names[k], 0) != 0: return ("context", "interaction %d context %r" % (i, items))
                        elif names[k] not in items or not cell_ok(x, items[names[k]], True): return ("context", "interaction %d has context %r, the file says %s for %r" % (i, items, show(x), names[k]))
                    if names[lab] in items: return ("context", "interaction %d still holds the label column: %r" % (i, items))
                x = r[lab]
                if ltype == "r":
                    if it["rewards"](x["n"] / 10) != 0 or it["rewards"](x["n"] / 10 + 1) != -1: return ("label", "interaction %d rewards do not peak at the label %s" % (i, show(x)))
                else:
                    best = [a for a in it["actions"] if it["rewards"](a) == 1]
                    if len(best) != 1 or str(best[0]) != x["s"]: return ("label", "interaction %d rewards %r, the file's label is %s (actions %r)" % (i, best, show(x), it["actions"]))
            return None
        return check

    def csv_check(rws, lab):
        def check(ints):
            if len(ints) != len(rws): return ("row-count", "%d interactions for %d rows" % (len(ints), len(rws)))
            for i, (it, r) in enumerate(zip(ints, rws)):
                if list(it["context"]) != r[:lab]: return ("context", "interaction %d has context %r, the file says %r" % (i, list(it["context"]), r[:lab]))
                best = [a for a in it["actions"] if it["rewards"](a) == 1]
                if best != [r[lab]]: return ("label", "interaction %d rewards %r, the file's label is %r" % (i, best, r[lab]))
            return None
        return check

    def svm_check(exp, multi):
        def check(ints):
            if len(ints) != len(exp): return ("row-count", "%d interactions for %d rows" % (len(ints), len(exp)))
            for i, (it, (fe, la)) in enumerate(zip(ints, exp)):
                if dict(it["context"]) != fe: return ("context", "interaction %d has context %r, the file says %r" % (i, dict(it["context"]), fe))
                if not multi:
                    best = [a for a in it["actions"] if it["rewards"](a) == 1]
                    if best != la: return ("label", "interaction %d rewards %r, the file's label is %r" % (i, best, la))
            return None
        return check

    few = [k for k in okcases if len(k[1]["devs"]) <= 1]          # every file at most one step from the default, and a sample of the rest
    rest = [k for k in okcases if len(k[1]["devs"]) > 1]
    sample = few + rng.sample(rest, min(len(rest), ctx.pick(1200, 12000)))
    n_sup = n_oml = 0
    for n, (fmt, c, lines, attrs, rows) in enumerate(sample):
        nl = "\r\n" if n % 2 else "\n"; gz = (n // 2) % 2 == 1
        p = os.path.join(d, "f%d.%s%s" % (n, fmt, ".gz" if gz else ""))
        how = "%s line ends, %s" % ("CRLF" if nl == "\r\n" else "LF", ".gz" if gz else "plain")
        if fmt == "arff":
            names = [a["name"] for a in attrs]; lab = len(names) - 1
            if any(r[lab]["t"] == "miss" for r in rows) or len(names) < 2: continue
            ltype = "r" if attrs[lab]["type"] == "num" else "c"
            mk_src = lambda: ArffSource(DiskSource(p))
            mk_sim = lambda src: simulation(src, label_col=names[lab], label_type=ltype)
            check = arff_check(c, attrs, rows, names, lab, ltype)
            rows_ok = lambda got: read_arff(lines, attrs, rows, c["sparse"], None, got)
        elif fmt == "csv":
            if not c["hdr"] or len(c["names"]) < 2: continue
            names = [txt(x) for x in c["names"]]; lab = len(names) - 1
            mk_src = lambda: CsvSource(DiskSource(p), has_header=True, **csv_kw(c))
            mk_sim = lambda src: simulation(src, label_col=names[lab], label_type="c")
            check = csv_check([[txt(v) for v in r] for r in c["rows"]], lab)
            rows_ok = lambda got: read_csv(c, None, got)
        else:
            exp = [({f["i"]: f["n"] / 10 for f in r["feats"]}, list(r["labels"])) for r in c["rows"]]
            multi = any(len(l) > 1 for _, l in exp)
            mk_src = lambda: (ManikSource if c["manik"] else LibSvmSource)(DiskSource(p))
            mk_sim = lambda src: simulation(src, label_type="m" if multi else "c")
            check = svm_check(exp, multi)
            rows_ok = lambda got: read_svm(c, None, got)
        with (gzip.open if gz else open)(p, "wb") as f: f.write((nl.join(lines) + (nl if n % 3 else "")).encode("utf-8"))
        tags = arff_tags(c) if fmt == "arff" else plain_tags(c)
        ctx.case(("sup", fmt, n)); ctx.traces += 1; n_sup += 1
        # ---- one source object, read twice ----
        src = mk_src()
        for k, which in enumerate(("first", "second")):
            try: o = rows_ok(list(src.read()))
            except Exception as ex: o = Outcome("raises", "", "%s: %s" % (type(ex).__name__, str(ex)[:100]))
            if o.kind != "ok":
                what = "%s over DiskSource (%s), %s read of the same object: %s %s | file: %r" % (type(src).__name__, how, which, "raised" if o.kind == "raises" else "misread " + o.aspect + ":", o.what, lines)
                failures.append(("source-" + fmt, "pipeline-" + (o.aspect or "raises"), tags if k == 0 else "source-%s:reused-source:second-read" % fmt, what, dict(lines=lines, how=how, read=which)))
                break
        # ---- one environment from Environments.from_supervised, read twice ----
        try: sim = mk_sim(mk_src())
        except Exception as ex: sim = None; failures.append(("from_supervised-" + fmt, "pipeline-raises", tags, "Environments.from_supervised(%s) raised %s: %s | file: %r" % (how, type(ex).__name__, str(ex)[:100], lines), dict(lines=lines, how=how)))
        for k, which in enumerate(("first", "second")):
            if sim is None: break
            try: bad = check(list(sim.read()))
            except Exception as ex: bad = ("raises", "%s: %s" % (type(ex).__name__, str(ex)[:100]))
            if bad:
                what = "Environments.from_supervised on the file (%s) that the reader alone reads correctly, %s read of the same environment: %s | file: %r" % (how, which, bad[1], lines)
                failures.append(("from_supervised-" + fmt, "pipeline-" + bad[0], tags if k == 0 else "from_supervised-%s:reused-environment:second-read" % fmt, what, dict(lines=lines, how=how, read=which)))
                break
        os.remove(p)
        # ---- OpenmlSource(drop_missing=True) from a pre-filled cache: rows with a missing value go, the others stay ----
        # (the feature description is JSON beside the file: names that OpenmlSource._clean_name would alter - quotes
        #  or blanks at the edges, backslashes - are outside this check)
        clean = lambda nm: nm.strip().strip('\'"').replace('\\', '') == nm and nm != ""
        if fmt == "arff" and all(a["type"] in ("num", "nom") for a in attrs) and attrs[-1]["type"] == "nom" and len(attrs) >= 2 and all(clean(a["name"]) for a in attrs):
            CobaContext.api_keys = {"openml": None}; CobaContext.cacher = MemoryCacher(); CobaContext.logger = NullLogger(); CobaContext.store = {}
            names = [a["name"] for a in attrs]
            data = {"data_set_description": {"id": "7", "file_id": "7", "status": "active", "default_target_attribute": names[-1]}}
            feat = {"data_features": {"feature": [{"index": str(i), "name": a["name"], "data_type": "numeric" if a["type"] == "num" else "nominal", "is_ignore": "false", "is_row_identifier": "false"} for i, a in enumerate(attrs)]}}
            CobaContext.cacher.get_set("openml_000007_data", json.dumps(data).splitlines())
            CobaContext.cacher.get_set("openml_000007_feat", json.dumps(feat).splitlines())
            CobaContext.cacher.get_set("openml_000007_arff", list(lines))
            keep = [r for r in rows if not any(x["t"] == "miss" for x in r)]
            oml = OpenmlSource(data_id=7)
            ctx.case(("oml", n)); ctx.traces += 1; n_oml += 1
            for k, which in enumerate(("first", "second")):
                bad = None
                try:
                    got = list(oml.read())
                    if len(got) != len(keep): bad = ("row-count", "%d rows survive drop_missing, the file has %d rows without a missing value" % (len(got), len(keep)))
                    for g, r in zip(got, keep):
                        if bad: break
                        feats, label, _ = g.labeled
                        if not c["sparse"]:
                            if not all(cell_ok(x, v, False) for x, v in zip(r[:-1], list(feats))) or not cell_ok(r[-1], label, False): bad = ("value", "row %r / label %r, the file says %s" % (list(feats), label, [show(x) for x in r]))
                        else:
                            if not cell_ok(r[-1], label, True): bad = ("value", "label %r, the file says %s" % (label, show(r[-1])))
                except Exception as ex:
                    bad = ("raises", "%s: %s" % (type(ex).__name__, str(ex)[:100]))
                if bad:
                    name = "openml-" + ("sparse" if c["sparse"] else "dense")
                    failures.append((name, "pipeline-" + bad[0], arff_tags(c) if k == 0 else name + ":reused-source:second-read", "OpenmlSource(drop_missing=True) on a cached ARFF file the reader alone reads correctly, %s read of the same object: %s | file: %r" % (which, bad[1], lines), dict(lines=lines, read=which)))
                    break
    ctx.extra["from_supervised_runs"] = n_sup; ctx.extra["openml_runs"] = n_oml


def run(ctx):
    import sys, time
    rng = random.Random(ctx.seed)
    # LazyDense._enc_all (rows.py 54-61) has a bare `except:` around its yield: a half-consumed row that is
    # garbage-collected prints "generator ignored GeneratorExit" to stderr; harmless noise, not C12's subject
    sys.unraisablehook = lambda *a: None
    pool = TlcPool(ctx, ctx.pick(4, 3))
    for name, sub in delim_runs(ctx): pool.submit("delim", name, sub, "16g")
    for mode, name, sub in table_runs(ctx): pool.submit(mode, name, sub, ctx.pick("8g", "16g"))
    t0 = time.time(); run_delim(ctx, rng, pool); t1 = time.time()
    run_tables(ctx, rng, pool)
    ctx.extra["seconds"] = dict(delim=round(t1 - t0, 1), tables=round(time.time() - t1, 1))
    ctx.assumptions += [
        "characters outside the spec's alphabet (letters, digits, blank, tab as separator only, , ' \" \\ % ? { } and one non-ASCII character) are not explored; values never contain a line break or a tab",
        "line terminators are LF and CR LF (a lone CR is not a terminator of the property's domain); text is valid UTF-8",
        "the Weka tokenizer (blank, tab and comma separate tokens; ' and \" quote; backslash escapes the next character; % starts a comment) is taken as the ARFF grammar, RFC 4180 as the CSV grammar, strtok(\" \\t\") words as the LibSVM / Manik grammar",
        "sparse ARFF: a nominal cell is always written (coba deliberately reads an omitted nominal cell as an extra level '0', readers.py 111-115), an omitted numeric cell may be absent or 0, the level list may carry coba's extra '0'",
        "LibSVM / Manik rows always carry at least one label (coba documents that it skips unlabeled rows); relational attributes, inline comments after a value and HTTP itself are not covered",
        "a short read (a chunk smaller than the requested size) is a legal way for a byte stream to deliver data"]
