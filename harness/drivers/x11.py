"""X11 - the safety wrappers and the IGL evaluator: spec/SafeWrap.tla (decision tables) + spec/IGL.tla (trace specification).

Part A (SafeWrap.tla -> code).  TLC enumerates every case of the five tables (shape of the wrapped object x program of
public calls) and prints, per call, what the wrapper must return or raise.  For every case a synthetic recording learner /
environment / evaluator of that shape is put behind the REAL SafeLearner / SafeEnvironment / SafeEvaluator, the program is
executed on ONE wrapper object (`pickle` replaces it by its pickled copy) and the real result is compared with the spec's
after EVERY call: params / full_name / str, the calls the learner accepted (arguments, kwargs, batched or row by row, in
order), score values, the identity of passed-through objects, CobaException vs. the learner's own exception object.
The three broken designs of the module (Variant) must be rejected by TLC.

Part B (code -> IGL.tla).  The real SequentialIGL is run with a recording learner on generated grounded environments
(context kinds, action sets A,B,A, list / functional rewards and feedbacks, extra keys, every record list, learner answer
formats incl. PMFs drawn with the evaluator's / the experiment's seed, environments lacking a required key, empty ones),
one evaluator object evaluating several environments in a row and two evaluations interleaved.  Every execution is a
trace [predict, learn, row]* end | reject that TLC validates against IGL.tla (tracecheck.validate); where a trace is not
explained the spec prints what it waited for and the driver names the differing field.  The two broken variants of
IGL.tla must reject recorded executions.

Self-tests in every run: a corrupted case and a corrupted trace must be noticed."""
import json, random, pickle, types, copy, os
from .. import tlc, tracecheck
from ..core import MachineryError

FINISH = dict(level="model_checking",
              rule="a case = one table row of SafeWrap.tla (shape x program) replayed call by call on the real wrapper, or one recorded execution of the real SequentialIGL validated by TLC against IGL.tla; distinct = distinct cases / traces")
NOVAL = -1
ACTIONS_A = ["Params", "FullName", "EnvRead", "PickleObj", "EvalParams", "Evaluate", "PickleEval", "LearnCall", "PickleLearner", "ScoreCall", "HasScore", "PredictCall", "Finish"]


class B(list):
    is_batch = True


# ======================================================================================================================
#  synthetic wrapped objects (module level / nested classes so that pickle finds them; __name__ is what the wrapper reports)
# ======================================================================================================================
class _Attr:
    def __init__(self, own): self.params = own                     # the very dict object (may be shared)
class _Prop:
    def __init__(self, own): self._own = own
    @property
    def params(self): return dict(self._own)
class _Method:
    def __init__(self, own): self._own = own
    def params(self): return dict(self._own)
class _Mapping:
    def __init__(self, own): self._own = own
    @property
    def params(self): return types.MappingProxyType(dict(self._own))
class _AttrErr:
    def __init__(self, own): pass
    @property
    def params(self): return self._not_there                      # a params that fails with AttributeError
class _Absent:
    def __init__(self, own): pass
_PK = dict(attr=_Attr, prop=_Prop, method=_Method, mapping=_Mapping, attrerr=_AttrErr, absent=_Absent, nondict=_Attr)


def _holder(names, extra_base=None, body=None):
    """-> {pk: {name: class}} classes called `name` for every params kind"""
    out = {}
    for pk, base in _PK.items():
        out[pk] = {}
        for nm in names:
            bases = (base,) + ((extra_base,) if extra_base else ())
            cls = type(nm, bases, dict(body or {}))
            cls.__qualname__ = "%s_%s_%s" % (nm, pk, (extra_base.__name__ if extra_base else "x"))
            cls.__module__ = __name__
            globals()[cls.__qualname__] = cls
            out[pk][nm] = cls
    return out


class _EnvBody:
    def read(self):
        self.__dict__["reads"] = self.__dict__.get("reads", 0) + 1
        self.__dict__["last"] = [self.__dict__["reads"]]
        return self.__dict__["last"]
class _EvalObjBody:
    def evaluate(self, env, lrn):
        self.__dict__["got"] = (env, lrn); self.__dict__["last"] = [object()]
        return self.__dict__["last"]
class _EvalCallBody:
    def __call__(self, env, lrn):
        self.__dict__["got"] = (env, lrn); self.__dict__["last"] = [object()]
        return self.__dict__["last"]
LCLS = _holder(["LA", "LB"])
ECLS = _holder(["EA", "EB"], _EnvBody)
VCLS_O = _holder(["ObjEval"], _EvalObjBody)
VCLS_C = _holder(["CallableEval"], _EvalCallBody)
FN = dict(got=None, last=None)
def fn_eval(env, lrn):
    FN["got"] = (env, lrn); FN["last"] = [object()]
    return FN["last"]
lam_eval = lambda env, lrn: fn_eval(env, lrn)


class IdFilter:
    """an environment filter that changes nothing (for the pipeline shape)"""
    @property
    def params(self): return {}
    def filter(self, items): return items


class Token:
    def __init__(self, name): self.name = name
ENV_T, LRN_T = Token("env"), Token("lrn")


def own_dict(own): return {k: v for k, v in own}


# ---- learners for the learn table
class _LearnBase:
    def __init__(self, batch, fk, fat):
        self.batch = batch; self.fk = fk; self.fat = fat; self.accepted = []; self.attempts = 0; self.raised = None
    def _body(self, context, action, reward, probability, k, extra=()):
        from coba.primitives import is_batch
        from coba.exceptions import CobaException
        self.attempts += 1
        batched = is_batch(context)
        if batched and self.batch == "refuses": raise TypeError("this learner does not take batches")
        if batched:
            ks = k if isinstance(k, list) else [k] * len(context)
            rows = [dict(c=c, a=a, r=r, p=p, k=kk) for c, a, r, p, kk in zip(context, action, reward, probability, ks)]
        else:
            rows = [dict(c=context, a=action, r=reward, p=probability, k=k)]
        if self.fk != "none" and (self.fat == 0 or any(r["c"] == self.fat for r in rows)):
            e = dict(value=ValueError("bad value in the update"), type=TypeError("unsupported operand type(s) for +: 'int' and 'str'"),
                     attr=AttributeError("'Model' object has no attribute 'weights'"), coba=CobaException("this learner cannot learn from that"),
                     kbd=KeyboardInterrupt())[self.fk]
            self.raised = e
            raise e
        self.accepted.append(dict(b=batched, rows=rows, extra=sorted(extra)))
class L_plain(_LearnBase):
    def learn(self, context, action, reward, probability): self._body(context, action, reward, probability, NOVAL)
class L_varkw(_LearnBase):
    def learn(self, context, action, reward, probability, **kwargs):
        self._body(context, action, reward, probability, kwargs.get("k", NOVAL), [x for x in kwargs if x != "k"])
class L_named(_LearnBase):
    def learn(self, context, action, reward, probability, k): self._body(context, action, reward, probability, k)
class L_optional(_LearnBase):
    def learn(self, context, action, reward, probability, k=None): self._body(context, action, reward, probability, NOVAL if k is None else k)
class L_star(_LearnBase):
    def learn(self, *args, **kwargs): self._body(*args, kwargs.get("k", NOVAL), [x for x in kwargs if x != "k"])
LSIG = dict(plain=L_plain, varkw=L_varkw, named=L_named, optional=L_optional, star=L_star)


# ---- learners for the calls table
PROBS = [0.25, 0.5, 1.0]
class _CallsBase:
    def __init__(self, sc, batch, probe, pfmt):
        self.sc = sc; self.batch = batch; self.probe = probe; self.pfmt = pfmt; self.accepted = []; self.raised = None
    def _answer(self, c, acts):
        a = acts[c % len(acts)]; p = PROBS[c % 3]
        return (a, p, {"k": c + 400}) if self.pfmt == "APK" else (a, p)
    def predict(self, context, actions):
        from coba.primitives import is_batch
        batched = is_batch(context) or is_batch(actions)
        if batched and self.batch == "refuses": raise TypeError("this learner does not take batches")
        if batched: return [self._answer(c, a) for c, a in zip(context, actions)]
        return self._answer(context, actions)
    def learn(self, context, action, reward, probability, **kw): pass
    def _score(self, context, actions, action):
        from coba.primitives import is_batch
        if self.sc in ("fails_attr", "fails_value"):
            self.raised = AttributeError("TEST: 'Model' object has no attribute 'weights'") if self.sc == "fails_attr" else ValueError("bad value")
            raise self.raised
        if context is None and actions is None and action is None:       # has_score's probe
            if self.probe == "raises": raise TypeError("'NoneType' object is not subscriptable")
            return 0.5
        batched = is_batch(context)
        if batched and self.batch == "refuses": raise TypeError("this learner does not take batches")
        rows = [dict(c=c, acts=list(A), a=a) for c, A, a in zip(context, actions, action)] if batched else [dict(c=context, acts=list(actions), a=action)]
        self.accepted.append(dict(b=batched, rows=rows))
        vals = [((r["c"] + r["a"]) % 4) * 0.25 for r in rows]
        return vals if batched else vals[0]
class C_present(_CallsBase):
    def score(self, context, actions, action): return self._score(context, actions, action)
class C_fails(_CallsBase):
    def score(self, context, actions, action): return self._score(context, actions, action)
class C_absent(_CallsBase):
    pass
def _mk_base():
    from coba.primitives import Learner
    class C_base(_CallsBase, Learner):
        pass
    C_base.__qualname__ = "C_base"; C_base.__module__ = __name__
    globals()["C_base"] = C_base
    return C_base


# ======================================================================================================================
#  Part A: replay of the decision tables
# ======================================================================================================================
def render_name(name):
    head, args = name["head"], name["args"]
    return "%s(%s)" % (head, ",".join("%s=%s" % (k, v) for k, v in args)) if args else head


def norm_rows(rows, keys):
    return [[r[k] for k in keys] for r in rows]


def norm_calls(calls, keys):
    return [[bool(c["b"]), norm_rows(c["rows"], keys)] for c in calls]


class Replay:
    """executes one case on the real wrappers; .run() -> None or (signature, what, step)"""
    def __init__(self, mods, case):
        self.m = mods; self.case = case; self.tbl = case["tbl"]; self.sh = case["shape"]; self.prog = case["prog"]; self.obs = case["obs"]

    # ---- construction
    def build(self):
        SafeLearner, SafeEnvironment, SafeEvaluator, Pipes = self.m["SafeLearner"], self.m["SafeEnvironment"], self.m["SafeEvaluator"], self.m["Pipes"]
        sh = self.sh; t = self.tbl
        if t in ("lparams", "env"):
            own1 = own_dict(sh["own"]); own2 = own1 if sh["share"] else own_dict(sh["own"])
            if sh["pk"] == "nondict":
                own1 = own2 = (None if sh["nd"] == "None" else sh["nd"])
            names = ("LA", "LB") if t == "lparams" else ("EA", "EB")
            table = LCLS if t == "lparams" else ECLS
            objs = [table[sh["pk"]][names[0]](own1), table[sh["pk"]][names[1]](own2)]
            if t == "lparams":
                self.w = {i + 1: (SafeLearner(SafeLearner(o)) if sh["nest"] else SafeLearner(o)) for i, o in enumerate(objs)}
            else:
                if sh["idx"] == "pipe": objs = [Pipes.join(o, IdFilter()) for o in objs]
                self.w = {i + 1: (SafeEnvironment(SafeEnvironment(o)) if sh["nest"] else SafeEnvironment(o)) for i, o in enumerate(objs)}
        elif t == "eval":
            k = sh["kind"]
            if k == "func": ev = fn_eval
            elif k == "lambda": ev = lam_eval
            elif k == "callable": ev = VCLS_C[sh["pk"]]["CallableEval"](own_dict(sh["own"]))
            else: ev = VCLS_O[sh["pk"]]["ObjEval"](own_dict(sh["own"]))
            self.w = {1: SafeEvaluator(SafeEvaluator(ev)) if sh["nest"] else SafeEvaluator(ev)}
        elif t == "learn":
            self.w = {1: SafeLearner(LSIG[sh["lsig"]](sh["batch"], sh["fk"], sh["fat"]))}
        else:
            cls = dict(present=C_present, absent=C_absent, base=self.m["C_base"], fails_attr=C_fails, fails_value=C_fails)[sh["sc"]]
            self.w = {1: SafeLearner(cls(sh["sc"], sh["batch"], sh["probe"], sh["pfmt"]), 3)}
        self.n = 1

    def inner_env(self, w):
        e = w.env
        return e[0] if self.sh.get("idx") == "pipe" else e

    # ---- one step: -> (outcome dict as observed)
    def step(self, o):
        CobaException = self.m["CobaException"]; t = self.tbl; op = o["op"]; who = o.get("who", 1); w = self.w[who]
        if op == "pickle":
            self.w[who] = pickle.loads(pickle.dumps(w)); return dict(op="pickle", out="ok")
        if t in ("lparams", "env", "eval") and op == "params":
            p = w.params
            return dict(op=op, out="ok", params=p, keys=list(p.keys()))
        if op in ("full_name", "str"):
            return dict(op=op, out="ok", text=(w.full_name if op == "full_name" else str(w)), text2=str(w))
        if op == "read":
            env = self.inner_env(w); before = env.__dict__.get("reads", 0)
            ret = w.read()
            env = self.inner_env(w)
            return dict(op=op, out="ok", ret="same" if ret is env.__dict__.get("last") else "other", reads=env.__dict__.get("reads", 0) - before)
        if op == "evaluate":
            args = dict(both=(ENV_T, LRN_T), env=(ENV_T, None), lrn=(None, LRN_T))[o["args"]]
            ret = w.evaluate(*args)
            ev = w.evaluator; store = FN if self.sh["kind"] in ("func", "lambda") else ev.__dict__
            got = store.get("got")
            gk = "both" if got == args and got[0] is not None and got[1] is not None else "env" if got == args and got[1] is None else "lrn" if got == args else "other"
            return dict(op=op, out="ok", got=gk, ret="same" if ret is store.get("last") else "other")
        lrn = w.learner; n = self.n
        nrows = o.get("b", 0) or 1
        if op == "learn":
            self.n += 1
            cs = [10 * n + r for r in range(1, nrows + 1)]
            cols = [cs, [c + 100 for c in cs], [c + 200 for c in cs], [c + 300 for c in cs]]
            ks = [c + 400 for c in cs]
            if o["b"]: args = [B(x) for x in cols]; kw = {"k": list(ks)} if o["kw"] else {}
            else: args = [x[0] for x in cols]; kw = {"k": ks[0]} if o["kw"] else {}
            a0 = len(lrn.accepted); t0 = lrn.attempts; lrn.raised = None
            try:
                r = w.learn(*args, **kw)
            except BaseException as e:
                return self.exc(e, w.learner, op, att=w.learner.attempts - t0)
            lrn = w.learner
            return dict(op=op, out="ok", calls=norm_calls(lrn.accepted[a0:], "carpk"), ret=r, extra=[c["extra"] for c in lrn.accepted[a0:] if c["extra"]])
        if op == "score":
            self.n += 1
            cs = [10 * n + r for r in range(1, nrows + 1)]
            acts = [[c + 1, c + 2] for c in cs]; a = [c + 1 + (c % 2) for c in cs]
            args = (B(cs), B(acts), B(a)) if o["b"] else (cs[0], acts[0], a[0])
            a0 = len(lrn.accepted); lrn.raised = None
            try:
                r = w.score(*args)
            except BaseException as e:
                return self.exc(e, w.learner, op)
            vals = [round(v * 1000) for v in (list(r) if o["b"] else [r])]
            return dict(op=op, out="ok", calls=norm_calls(w.learner.accepted[a0:], ["c", "acts", "a"]), vals=vals)
        if op == "has_score":
            a0 = len(lrn.accepted)
            try:
                v = w.has_score
            except BaseException as e:
                return self.exc(e, w.learner, op)
            return dict(op=op, out="ok", v=v, recorded=len(w.learner.accepted) - a0)
        if op == "predict":
            self.n += 1
            cs = [10 * n + r for r in range(1, nrows + 1)]
            aset = [11, 12, 13] if o["aset"] == "A" else [21, 22]
            try:
                if o["b"]:
                    A, P, K = w.predict(B(cs), B([list(aset) for _ in cs]))
                    rows = [[A[i], round(P[i] * 1000), (K["k"][i] if K else NOVAL)] for i in range(len(cs))]
                    if K and set(K) != {"k"}: rows.append("kwargs keys %s" % sorted(K))
                else:
                    a, p, k = w.predict(cs[0], list(aset))
                    rows = [[a, round(p * 1000), k.get("k", NOVAL)]]
                    if k and set(k) != {"k"}: rows.append("kwargs keys %s" % sorted(k))
            except BaseException as e:
                return self.exc(e, w.learner, op)
            return dict(op=op, out="ok", rows=rows)
        raise MachineryError("unknown op %r" % (o,))

    def exc(self, e, lrn, op, att=None):
        CobaException = self.m["CobaException"]
        own = lrn.raised is not None and e is lrn.raised
        if own:
            kind = {ValueError: "value", TypeError: "type", AttributeError: "attr", KeyboardInterrupt: "kbd"}.get(type(e), "coba" if isinstance(e, CobaException) else type(e).__name__)
            return dict(op=op, out="own", kind=kind, att=att, exc=repr(e))
        if isinstance(e, CobaException): return dict(op=op, out="coba", exc=repr(e))
        if isinstance(e, NotImplementedError): return dict(op=op, out="own", kind="notimpl", exc=repr(e))
        if isinstance(e, TypeError) and "does not take batches" in str(e): return dict(op=op, out="own", kind="refused", exc=repr(e))
        return dict(op=op, out="other", kind=type(e).__name__, exc=repr(e))

    # ---- comparison of one observation with the spec's
    def differs(self, want, got):
        """-> None or (field, text)"""
        op = want["op"]
        if got["out"] != want["out"]:
            return ("outcome", "must %s but %s" % (self.say(want), self.say(got)))
        if want["out"] == "own":
            if got.get("kind") != want["kind"]: return ("exception", "must re-raise the learner's own %s exception but raised %s" % (want["kind"], got.get("exc")))
            if want.get("att", NOVAL) != NOVAL and got.get("att") != want["att"]:
                return ("attempts", "after the interrupt the learner must not be called again: %s invocation(s) expected, %s made" % (want["att"], got.get("att")))
            return None
        if want["out"] != "ok": return None
        if op == "params":
            exp = own_dict(want["params"])
            if dict(got["params"]) != exp or sorted(got["keys"]) != sorted(exp): return ("params", "params must be %s but are %s" % (exp, dict(got["params"])))
        elif op in ("full_name", "str"):
            exp = render_name(want["name"])
            if got["text"] != exp: return ("name", "%s must be %r but is %r" % (op, exp, got["text"]))
            if got["text2"] != exp: return ("name", "str() must be %r but is %r" % (exp, got["text2"]))
        elif op == "read":
            if got["ret"] != want["ret"] or got["reads"] != want["reads"]: return ("read", "read must hand back the environment's own answer after exactly one read; got %s after %s reads" % (got["ret"], got["reads"]))
        elif op == "evaluate":
            if got["got"] != want["got"]: return ("args", "the evaluator must receive (%s) but received %s" % (want["got"], got["got"]))
            if got["ret"] != want["ret"]: return ("result", "evaluate must return the evaluator's result untouched")
        elif op == "learn":
            exp = norm_calls(want["calls"], "carpk")
            if got["calls"] != exp: return ("calls", "the learner must have accepted %s but accepted %s" % (exp, got["calls"]))
            if got["extra"]: return ("kwargs", "the learner received kwargs nobody passed: %s" % got["extra"])
            if got["ret"] is not None: return ("return", "learn must return None")
        elif op == "score":
            exp = norm_calls(want["calls"], ["c", "acts", "a"])
            if got["calls"] != exp: return ("calls", "score must have reached the learner as %s but did as %s" % (exp, got["calls"]))
            if got["vals"] != list(want["vals"]): return ("value", "score must be %s (x1000) but is %s" % (want["vals"], got["vals"]))
        elif op == "has_score":
            if got["v"] is not want["v"]: return ("has_score", "has_score must be %s but is %s" % (want["v"], got["v"]))
        elif op == "predict":
            exp = [[r["a"], r["p"], r["k"]] for r in want["rows"]]
            if got["rows"] != exp: return ("prediction", "predict must give (action, prob x1000, k) %s but gave %s" % (exp, got["rows"]))
        return None

    @staticmethod
    def say(o):
        if o["out"] == "ok": return "succeed"
        if o["out"] == "coba": return "raise CobaException" + (" (%s)" % o["exc"][:80] if "exc" in o else "")
        if o["out"] == "own": return "re-raise the wrapped object's own exception (%s)" % o.get("exc", o.get("kind"))
        return "raise %s" % o.get("exc")

    def run(self):
        self.build()
        for i, (o, want) in enumerate(zip(self.prog, self.obs)):
            try:
                got = self.step(o)
            except MachineryError: raise
            except BaseException as e:
                got = dict(op=o["op"], out="other", kind=type(e).__name__, exc=repr(e))
            d = self.differs(want, got)
            if d:
                return self.signature(o, want, got, d[0]), "step %d %s: %s" % (i + 1, json.dumps(o, sort_keys=True), d[1]), i + 1
        return None

    def signature(self, o, want, got, field):
        sh = self.sh; t = self.tbl
        parts = [t, o["op"], field]
        if t in ("lparams", "env", "eval") and o["op"] in ("params", "full_name", "str"): parts = [t, "params" if field in ("params", "name") else field]
        if got["out"] == "other": parts.append(got.get("kind", "?"))
        if t in ("lparams", "env", "eval"):
            parts.append(sh["pk"] + ("-shared" if sh.get("share") else ""))
        elif t == "learn":
            parts.append("%s-%s%s" % (sh["lsig"], sh["batch"], "" if sh["fk"] == "none" else "-fails-" + sh["fk"]))
        else:
            parts.append("%s-%s" % (sh["sc"], sh["batch"]))
        return ":".join(parts)


def part_a(ctx, mods):
    maxlen = ctx.pick(3, 4)
    tables = '{"lparams", "env", "eval", "learn", "calls"}'
    # 1. coverage run (short programs, every action must be taken) and the broken designs
    cov_cfg = tracecheck._cfg("SafeWrap.cfg", {"MaxLen = 3": "MaxLen = 2", "INVARIANT Emit": ""}, ctx.scratch, "safewrap_cov.cfg")
    r = tlc.run("SafeWrap", cov_cfg, ctx.scratch, workers=8, timeout=900, coverage=True, seed=ctx.seed)
    ctx.add_tlc("SafeWrap coverage MaxLen=2", r, required_actions=ACTIONS_A)
    for v in r.violations: ctx.violation("spec:%s" % v["name"], "SafeWrap.tla violates %s" % v["name"], v["trace"][:40])
    ctx.extra["safewrap_action_coverage"] = {a: r.coverage.get(a, [0, 0])[1] for a in ACTIONS_A}
    rejected = {}
    for variant, inv, tbls in (("write_through", "DefaultIsOwnClass", '"lparams", "env"'), ("translate_all", "OwnPass", '"learn"'), ("latch_direct", "RefusalNeverEscapes", '"learn", "calls"')):
        cfg = tracecheck._cfg("SafeWrap.cfg", {'Variant = "spec"': 'Variant = "%s"' % variant, "MaxLen = 3": "MaxLen = 2",
                                               'Tables = {"lparams", "env", "eval", "learn", "calls"}': 'Tables = {%s}' % tbls}, ctx.scratch, "safewrap_%s.cfg" % variant)
        # only the invariant that states the fact this design breaks (TLC stops at the first violation it meets)
        txt = "\n".join(ln for ln in open(cfg).read().splitlines() if not ln.startswith(("INVARIANT", "PROPERTY")) or ln.split()[1] == inv) + "\n"
        open(cfg, "w").write(txt)
        rv = tlc.run("SafeWrap", cfg, ctx.scratch, workers=1, timeout=900, seed=ctx.seed)      # one worker: stops at the same first violation every time
        ctx.add_tlc("SafeWrap variant %s" % variant, rv)
        names = sorted({v["name"] for v in rv.violations})
        rejected[variant] = names
        if inv not in names: raise MachineryError("vacuous: the broken design %s is not rejected by %s (violations: %s)" % (variant, inv, names))
    ctx.extra["safewrap_variants_rejected"] = rejected
    # 2. the tables (thorough: all tables with programs of 4 calls, and the params / evaluator / learn tables once more with 5)
    cases = []
    runs = [(maxlen, '"lparams", "env", "eval", "learn", "calls"')] + ctx.pick([], [(5, '"lparams", "eval", "learn"')])
    for ml, tbls in runs:
        cfg = tracecheck._cfg("SafeWrap.cfg", {"MaxLen = 3": "MaxLen = %d" % ml, 'Tables = {"lparams", "env", "eval", "learn", "calls"}': 'Tables = {%s}' % tbls}, ctx.scratch, "safewrap_gen%d.cfg" % ml)
        r = tlc.run("SafeWrap", cfg, ctx.scratch, workers=8, timeout=3000, seed=ctx.seed, heap="8g")
        ctx.add_tlc("SafeWrap tables MaxLen=%d {%s}" % (ml, tbls), r)
        for v in r.violations: ctx.violation("spec:%s" % v["name"], "SafeWrap.tla violates %s" % v["name"], v["trace"][:40])
        cases += [j for j in r.json if isinstance(j, dict) and "tbl" in j]
    if len(cases) < 30000: raise MachineryError("SafeWrap produced only %d cases" % len(cases))
    cases.sort(key=lambda c: json.dumps([c["tbl"], c["shape"], c["prog"]], sort_keys=True))
    ctx.exhaustive = True
    seen_ops = set(); per_tbl = {}
    for c in cases:
        ctx.case(json.dumps([c["tbl"], c["shape"], c["prog"]], sort_keys=True))
        per_tbl[c["tbl"]] = per_tbl.get(c["tbl"], 0) + 1
        for o in c["prog"]: seen_ops.add((c["tbl"], o["op"]))
        bad = Replay(mods, c).run()
        ctx.traces += 1
        if bad:
            sig, what, step = bad
            ctx.violation(sig, "%s   shape=%s program=%s" % (what, json.dumps(c["shape"], sort_keys=True), json.dumps(c["prog"], sort_keys=True)), dict(c, failing_step=step))
    ctx.extra["safewrap_cases"] = per_tbl
    ctx.extra["safewrap_ops_replayed"] = sorted("%s.%s" % x for x in seen_ops)
    ctx.sample(cases[len(cases) // 3], limit=3)
    # 3. self-test: a corrupted expectation must be noticed (on cases the real code passes)
    rng = random.Random(ctx.seed); noticed = 0; tried = 0
    pool = [c for c in cases if c["tbl"] in ("learn", "calls", "eval")]
    for c in rng.sample(pool, 60):
        if Replay(mods, c).run() is not None: continue
        c2 = copy.deepcopy(c); k = None
        for i, ob in enumerate(c2["obs"]):
            if ob["out"] == "ok" and ob.get("calls"):
                ob["calls"][0]["rows"][0]["c"] += 1; k = i; break
            if ob["out"] == "ok" and "vals" in ob and ob["vals"]:
                ob["vals"][0] = (ob["vals"][0] + 250) % 1250; k = i; break
            if ob["out"] == "ok" and ob["op"] == "evaluate":
                ob["got"] = "lrn" if ob["got"] != "lrn" else "env"; k = i; break
            if ob["out"] == "coba":
                ob["out"] = "ok"; ob["calls"] = []; k = i; break
        if k is None: continue
        tried += 1
        if Replay(mods, c2).run() is not None: noticed += 1
    if tried < 10 or noticed != tried: raise MachineryError("binding self-test: %d of %d corrupted cases noticed" % (noticed, tried))
    ctx.extra["safewrap_corrupted_cases_noticed"] = "%d/%d" % (noticed, tried)


# ======================================================================================================================
#  Part B: recorded executions of the real SequentialIGL, validated against IGL.tla
# ======================================================================================================================
def S(x):
    if x is None: return NOVAL
    v = round(float(x) * 1000)
    if abs(float(x) * 1000 - v) > 1e-6: raise ValueError("value %r is not on the 1/1000 grid" % (x,))
    return v


def I(x):
    """an int-valued number -> int, anything else -> None"""
    if isinstance(x, bool) or not isinstance(x, (int, float)): return None
    return int(x) if float(x) == int(x) else None


class IglRec:
    """The recording learner: chooses its answers deterministically from its call count."""
    def __init__(self, decode, log, fmt, info, CobaContext):
        self.decode = decode; self.log = log; self.fmt = fmt; self.info = info; self.n = 0; self.CC = CobaContext
    @property
    def params(self): return {"family": "iglrec"}
    def predict(self, context, actions):
        self.n += 1; n = self.n
        u, c = self.decode(context)
        acts = [I(a) if I(a) is not None else -9 for a in actions]
        ev = dict(e="predict", u=u, c=c, acts=acts, ra=NOVAL, rp=NOVAL, rk=NOVAL, ri=NOVAL, w=[])
        if self.info:
            self.CC.learning_info["n_predict"] = n; ev["ri"] = n
        self.log.append(ev)
        k = len(actions)
        if self.fmt == "pmf":
            base = {1: [4], 2: [1, 3], 3: [1, 2, 1], 4: [1, 1, 0, 2]}[k] if n % 3 else {1: [4], 2: [3, 1], 3: [2, 0, 2], 4: [0, 0, 4, 0]}[k]
            w = [base[(j + n) % k] for j in range(k)]
            ev["w"] = w
            return [x / 4 for x in w]
        a = actions[(n * 7) % k]; ev["ra"] = acts[(n * 7) % k]
        if self.fmt == "a": return a
        p = [0.5, 0.25, 1.0, 0.0][n % 4]; ev["rp"] = S(p)
        if self.fmt == "ap": return a, p
        ev["rk"] = 400 + n
        return a, p, {"k": 400 + n}
    def learn(self, context, action, reward, probability, **kw):
        u, c = self.decode(context)
        extra = sorted(x for x in kw if x != "k")
        self.log.append(dict(e="learn", u=u, c=c, a=I(action) if I(action) is not None else -9, r=I(reward) if I(reward) is not None else -9,
                             p=S(probability), k=kw.get("k", NOVAL) if not extra else -9))


def make_decode(ctxkind):
    def decode(ctx):
        try:
            if ctxkind == "missing":
                return (I(ctx), 0) if I(ctx) is not None else (-2, -2)
            if ctxkind == "none":
                return (I(ctx[0]), 0) if isinstance(ctx, tuple) and len(ctx) == 2 and ctx[1] is None and I(ctx[0]) is not None else (-2, -2)
            if ctxkind in ("scalar", "str"):
                ok = isinstance(ctx, tuple) and len(ctx) == 2 and I(ctx[0]) is not None
                if not ok: return (-2, -2)
                c = ctx[1]
                if ctxkind == "str": c = int(c[1:]) if isinstance(c, str) and c[:1] == "s" else None
                return (I(ctx[0]), I(c)) if I(c) is not None else (-2, -2)
            if ctxkind == "dense":
                return (I(ctx[0]), I(ctx[1])) if isinstance(ctx, tuple) and len(ctx) == 3 and ctx[2] == 1.5 and I(ctx[0]) is not None and I(ctx[1]) is not None else (-2, -2)
            if ctxkind == "sparse":
                return (I(ctx["userid"]), I(ctx["f"])) if isinstance(ctx, dict) and set(ctx) == {"userid", "f"} and I(ctx["userid"]) is not None and I(ctx["f"]) is not None else (-2, -2)
        except Exception:
            pass
        return (-2, -2)
    return decode


POOLS = [[[1, 2, 3], [4, 2, 3], [1, 2, 3]], [[5, 7], [0, 9], [5, 7]], [[6, 7, 8], [6, 7, 8], [2, 3]], [[3, 4, 5, 6], [3, 4, 5, 6], [8, 9]]]
KNOWN_ROW_KEYS = {"reward", "feedback", "action", "probability", "prob", "actions", "rewards", "feedbacks", "predict_time", "learn_time", "userid", "ex", "n_predict"}


def make_igl_env(rng, n, ctxkind, form, extra, kind):
    """-> (interaction dicts, abstract env)"""
    from coba.primitives import GroundedInteraction, DiscreteReward
    pool = rng.choice(POOLS); its = []; abst = []
    for i in range(1, n + 1):
        acts = list(pool[(i - 1) % 3]); k = len(acts)
        rw = [1 if j == (i % k) else 0 for j in range(k)]
        fb = [4 + ((i + 2 * j) % 6) for j in range(k)]
        if len(set(fb)) < k: fb = [4 + ((i + j) % 6) for j in range(k)]
        uid = 70 + (i % 3)
        ctx = {"missing": None, "none": None, "scalar": i, "str": "s%d" % i, "dense": (i, 1.5), "sparse": {"f": i}}[ctxkind]
        def mk(vals, acts=acts):
            if form == "list": return list(vals)
            if form == "discrete": return DiscreteReward(list(acts), list(vals))
            return (lambda a, acts=acts, vals=vals: vals[acts.index(a)])
        it = GroundedInteraction(ctx, list(acts), mk(rw), mk(fb), userid=uid)
        if ctxkind == "missing": del it["context"]
        if extra: it["ex"] = 100 + i
        if kind == "no_actions": del it["actions"]
        if kind == "no_rewards": del it["rewards"]
        if kind == "no_feedbacks": del it["feedbacks"]
        if kind == "no_userid": del it["userid"]
        its.append(it)
        abst.append(dict(uid=uid, ctx=(i if ctxkind not in ("missing", "none") else 0), acts=acts, rwds=rw, fbks=fb, ex=(100 + i if extra else NOVAL)))
    return its, abst


class IglEnv:
    def __init__(self, its): self.its = its
    @property
    def params(self): return {}
    def read(self): return iter([copy.copy(i) for i in self.its])


def row_event(r, n):
    """a recorded row -> the event the spec compares (conversion only)"""
    other = []
    def num(key, scale=False):
        if key not in r: return NOVAL
        v = r[key]
        if scale:
            try: return S(v)
            except Exception: other.append("%s:%s" % (key, type(v).__name__)); return NOVAL
        if I(v) is None: other.append("%s:%s" % (key, type(v).__name__)); return NOVAL
        return I(v)
    def seq(key):
        if key not in r: return []
        v = r[key]
        if not isinstance(v, (list, tuple)) or any(I(x) is None for x in v): other.append("%s:%s" % (key, type(v).__name__)); return []
        return [I(x) for x in v]
    ev = dict(e="row", n=n, reward=num("reward"), feedback=num("feedback"), action=num("action"), actions=seq("actions"), rewards=seq("rewards"), feedbacks=seq("feedbacks"),
              uid=num("userid"), ex=num("ex"), info=num("n_predict"))
    if "prob" in r and "probability" in r: other.append("prob+probability")
    ev["probability"] = num("probability", True) if "probability" in r else num("prob", True)
    tk = [k for k in ("predict_time", "learn_time") if k in r]
    ev["time"] = len(tk) == 2 and all(isinstance(r[k], float) and r[k] >= 0 for k in tk)
    if len(tk) == 1: other.append("one time key only")
    other += sorted(k for k in r if k not in KNOWN_ROW_KEYS)
    ev["other"] = other
    return ev


RECORDS = [["reward", "feedback"], [], ["reward"], ["feedback"], ["action"], ["reward", "feedback", "action", "probability"], ["reward", "prob"], ["feedback", "actions"],
           ["reward", "rewards"], ["feedback", "feedbacks"], ["reward", "feedback", "feedbacks"], ["time", "reward", "feedback"], ["rewards", "feedbacks", "reward", "feedback", "action"], ["probability"]]
SZERO = 482549499        # the first uniform of this seed is exactly 0


def igl_run_one(mods, ev_obj, its, abst, mode, decode, interleave_with=None):
    """runs one evaluation to its end -> event list"""
    CobaContext, CobaException = mods["CobaContext"], mods["CobaException"]
    log = []
    lrn = IglRec(decode, log, mode["fmt"], mode["info"], CobaContext)
    nrow = 0
    try:
        for r in ev_obj.evaluate(IglEnv(its), lrn):
            nrow += 1
            log.append(row_event(r, nrow))
            if interleave_with is not None:
                try: next(interleave_with)
                except StopIteration: pass
        log.append(dict(e="end"))
    except CobaException as e:
        log.append(dict(e="reject") if not log else dict(e="raise", x="CobaException after calls"))
    except Exception as e:
        log.append(dict(e="raise", x=type(e).__name__, msg=str(e)[:80]))
    return log


def set_store(CobaContext, sex):
    if sex == NOVAL: CobaContext.store.pop("experiment_seed", None)
    else: CobaContext.store["experiment_seed"] = sex


def part_b(ctx, mods):
    SequentialIGL, CobaContext = mods["SequentialIGL"], mods["CobaContext"]
    rng = random.Random(ctx.seed + 11)
    traces = []; meta = []
    reps = ctx.pick(1, 6)
    ctxkinds = ["missing", "none", "scalar", "str", "dense", "sparse"]
    fmts = ["a", "ap", "apk", "pmf"]
    seeds = [(NOVAL, 5), (0, 5), (1, NOVAL), (7, 0), (SZERO, 3), (0, NOVAL), (NOVAL, 0), (NOVAL, SZERO)]

    def new_case(rec, ctxkind, fmt, kind, how):
        n = 0 if kind == "empty" else rng.choice([1, 3, 4, 6])
        form = rng.choice(["list", "discrete", "fn"]); extra = rng.random() < .5; info = rng.random() < .5 and how != "interleaved"
        sev, sex = rng.choice(seeds)
        mode = dict(rec=rec, fmt=fmt, sev=sev, sex=sex, kind=kind, info=info)
        its, abst = make_igl_env(rng, n, ctxkind, form, extra, kind)
        m = dict(record=rec, context=ctxkind, fmt=fmt, kind=kind, n=n, form=form, extra=extra, info=info, evaluator_seed=None if sev == NOVAL else sev,
                 experiment_seed=None if sex == NOVAL else sex, how=how)
        return its, abst, mode, m

    def add(abst, mode, evs, m):
        traces.append(dict(env=abst, mode=mode, ev=evs)); meta.append(m)
        ctx.case(json.dumps(m, sort_keys=True, default=str) + "#%d" % len(traces))

    def evaluator(mode):
        rec = list(mode["rec"])
        return SequentialIGL(rec, seed=None if mode["sev"] == NOVAL else mode["sev"])

    for rep in range(reps):
        # every record list x context kind x answer format, one evaluation each
        for rec in RECORDS:
            for ctxkind in ctxkinds:
                for fmt in fmts:
                    its, abst, mode, m = new_case(rec, ctxkind, fmt, "ok", "single")
                    set_store(CobaContext, mode["sex"])
                    add(abst, mode, igl_run_one(mods, evaluator(mode), its, abst, mode, make_decode(ctxkind)), m)
        # environments that must be rejected before any call, and empty ones
        for kind in ("no_actions", "no_rewards", "no_feedbacks", "no_userid", "empty"):
            for ctxkind in ctxkinds:
                rec = rng.choice(RECORDS); fmt = rng.choice(fmts)
                its, abst, mode, m = new_case(rec, ctxkind, fmt, kind, "single")
                set_store(CobaContext, mode["sex"])
                add(abst, mode, igl_run_one(mods, evaluator(mode), its, abst, mode, make_decode(ctxkind)), m)
        # one evaluator OBJECT: environment A, then B (another record of calls, another learner copy), then A again
        for rec in RECORDS:
            for fmt in fmts:
                ctxkind = rng.choice(ctxkinds)
                itsA, abstA, mode, m = new_case(rec, ctxkind, fmt, "ok", "same-evaluator")
                ctxkindB = rng.choice(ctxkinds)
                itsB, abstB, modeB, mB = new_case(rec, ctxkindB, fmt, rng.choice(["ok", "ok", "no_feedbacks", "empty"]), "same-evaluator")
                modeB = dict(modeB, sev=mode["sev"], sex=mode["sex"]); mB.update(evaluator_seed=m["evaluator_seed"], experiment_seed=m["experiment_seed"])
                set_store(CobaContext, mode["sex"])
                E = evaluator(mode)
                for k, (its, abst, md, mm, ck) in enumerate([(itsA, abstA, mode, m, ctxkind), (itsB, abstB, modeB, mB, ctxkindB), (itsA, abstA, mode, m, ctxkind)]):
                    add(abst, md, igl_run_one(mods, E, its, abst, md, make_decode(ck)), dict(mm, nth=k + 1))
        # two evaluations by one evaluator object, advanced alternately
        for rec in RECORDS[:8]:
            fmt = rng.choice(fmts); ctxkind = rng.choice(ctxkinds)
            itsA, abstA, mode, m = new_case(rec, ctxkind, fmt, "ok", "interleaved")
            itsB, abstB, modeB, mB = new_case(rec, ctxkind, fmt, "ok", "interleaved")
            modeB = dict(modeB, sev=mode["sev"], sex=mode["sex"]); mB.update(evaluator_seed=m["evaluator_seed"], experiment_seed=m["experiment_seed"])
            set_store(CobaContext, mode["sex"])
            E = evaluator(mode)
            logB = []
            def second():
                lrn = IglRec(make_decode(ctxkind), logB, fmt, False, CobaContext); k = 0
                try:
                    for r in E.evaluate(IglEnv(itsB), lrn):
                        k += 1; logB.append(row_event(r, k)); yield
                    logB.append(dict(e="end"))
                except Exception as e:
                    logB.append(dict(e="raise", x=type(e).__name__, msg=str(e)[:80]))
            g = second()
            logA = igl_run_one(mods, E, itsA, abstA, mode, make_decode(ctxkind), interleave_with=g)
            for _ in g: pass
            add(abstA, mode, logA, dict(m, nth="A")); add(abstB, modeB, logB, dict(mB, nth="B"))
    CobaContext.store.pop("experiment_seed", None)
    ctx.sample(traces[len(traces) // 2], limit=1)

    # ---- validation by TLC (one run for all traces; the unexplained ones once more, together, with the Diag invariant)
    ctx.extra["igl_traces"] = len(traces)
    ctx.extra["igl_events_recorded"] = sorted({e["e"] for t in traces for e in t["ev"]})
    rej = igl_validate(ctx, traces, {}, "igl_trace", coverage=True)
    ctx.traces += len(traces)
    if rej:
        wants = igl_diagnose(ctx, [traces[i - 1] for i in rej])
        for k, i in enumerate(rej): report_rejected(ctx, traces[i - 1], meta[i - 1], wants.get(k + 1))
    rejected_idx = {i - 1 for i in rej}
    # ---- the binding is not vacuous: the broken variants must reject recorded executions that the specification accepts
    good = [t for i, t in enumerate(traces) if i not in rejected_idx]
    for variant, need in (("learn_reward", lambda t: len(t["ev"]) > 2), ("seed0_falsy", lambda t: t["mode"]["fmt"] == "pmf" and t["mode"]["sev"] == 0 and len(t["ev"]) > 2)):
        sub = [t for t in good if need(t)][:300]
        if len(sub) < 5:
            if any(ctx.viol): continue        # the implementation is rejected anyway: nothing to show with accepted executions
            raise MachineryError("too few accepted traces (%d) to try variant %s" % (len(sub), variant))
        save = (ctx.traces, ctx.states, ctx.transitions)
        rj = validate_quiet(ctx, sub, {'Variant = "spec"': 'Variant = "%s"' % variant}, "igl_" + variant)
        ctx.traces = save[0]
        if not rj: raise MachineryError("vacuous: variant %s of IGL.tla accepts all %d recorded executions" % (variant, len(sub)))
        ctx.extra["igl_variant_%s_rejects" % variant] = "%d/%d" % (len(rj), len(sub))
    # ---- a corrupted trace must be noticed
    sub = []
    for t in good[:: max(1, len(good) // 12)][:12]:
        t2 = copy.deepcopy(t); ls = [e for e in t2["ev"] if e["e"] == "learn"]
        if ls: ls[-1]["r"] += 1; sub.append(t2)
    save = ctx.traces
    rj = validate_quiet(ctx, sub, {}, "igl_corrupt") if sub else []
    ctx.traces = save
    if (len(sub) < 3 and not any(ctx.viol)) or len(rj) != len(sub): raise MachineryError("binding self-test: %d of %d corrupted traces rejected" % (len(rj), len(sub)))
    ctx.extra["igl_corrupted_traces_rejected"] = "%d/%d" % (len(rj), len(sub))


ACTIONS_B = ["Reject", "Begin", "Start", "Predict", "LearnStep", "Row", "Finish"]


def igl_validate(ctx, traces, subst, name, coverage=False):
    """1-based indices of the traces TLC does not accept (tracecheck's batch idiom: {"acc": tid} lines)"""
    tf = os.path.join(ctx.scratch, name + ".json"); json.dump(traces, open(tf, "w"))
    cfg = tracecheck._cfg("IGL.cfg", subst, ctx.scratch, name + ".cfg")
    r = tlc.run("IGL", cfg, ctx.scratch, workers=8, env={"TRACE_FILE": tf}, timeout=1800, continue_=True, coverage=coverage)
    ctx.add_tlc(name, r, required_actions=ACTIONS_B if coverage else ())
    if coverage: ctx.extra["igl_action_coverage"] = {a: r.coverage.get(a, [0, 0])[1] for a in ACTIONS_B}
    acc = {j["acc"] for j in r.json if isinstance(j, dict) and "acc" in j}
    bad = set()
    for v in r.violations:            # an invariant violated inside a trace: the error trace names the tid
        for ln in v["trace"]:
            if "tid = " in ln:
                try: bad.add(int(ln.split("tid = ")[1].split()[0]))
                except Exception: pass
    return [i for i in range(1, len(traces) + 1) if i not in acc or i in bad]
validate_quiet = igl_validate


def igl_diagnose(ctx, traces):
    """-> {1-based index: (position of the first unexplained event, what the spec waited for there)}"""
    tf = os.path.join(ctx.scratch, "igl_diag.json"); json.dump(traces, open(tf, "w"))
    cfg = tracecheck._cfg("IGL.cfg", {"INVARIANT Accept": "INVARIANT Diag"}, ctx.scratch, "igl_diag.cfg")
    r = tlc.run("IGL", cfg, ctx.scratch, workers=8, env={"TRACE_FILE": tf}, timeout=1800, continue_=True)
    best = {}
    for j in r.json:
        if not (isinstance(j, dict) and "want" in j): continue
        key = (j["l"], j["want"].get("e") != "-")
        if j["tid"] not in best or key > best[j["tid"]][0]: best[j["tid"]] = (key, j)
    return {t: (b[1]["l"], b[1]["want"]) for t, b in best.items()}


def report_rejected(ctx, trace, m, diag):
    """names the field in which the first unexplained event differs from what the spec waited for"""
    if not diag:
        ctx.violation("igl:trace-rejected", "no behaviour of IGL.tla explains the trace   case=%s" % json.dumps(m, default=str), dict(m, trace=trace)); return
    pos, want = diag; evs = trace["ev"]
    got = evs[pos - 1] if pos <= len(evs) else dict(e="(nothing)")
    if got["e"] == "raise":
        ctx.violation("igl:raises:%s:instead-of-%s" % (got["x"], want.get("e")), "SequentialIGL raised %s (%s) where the specification waits for '%s'   case=%s" % (got["x"], got.get("msg", ""), want.get("e"), json.dumps(m, default=str)),
                      dict(m, trace=trace, position=pos, want=want)); return
    if got["e"] != want.get("e"):
        ctx.violation("igl:%s-instead-of-%s" % (got["e"], want.get("e")), "event #%d is %s where the specification waits for %s   case=%s" % (pos, json.dumps(got), json.dumps(want), json.dumps(m, default=str)),
                      dict(m, trace=trace, position=pos, want=want)); return
    fields = sorted(k for k in want if got.get(k) != want[k]) or ["?"]
    for f in fields:
        ctx.violation("igl:%s:%s" % (got["e"], f), "event #%d (%s of interaction %s): %s must be %s but is %s   case=%s" % (pos, got["e"], got.get("n", got.get("c")), f, json.dumps(want.get(f)), json.dumps(got.get(f)), json.dumps(m, default=str)),
                      dict(m, trace=trace, position=pos, want=want, field=f))


def run(ctx):
    from coba.safety import SafeLearner, SafeEnvironment, SafeEvaluator
    from coba.exceptions import CobaException
    from coba.context import CobaContext, NullLogger
    from coba.pipes import Pipes
    from coba.evaluators import SequentialIGL
    CobaContext.logger = NullLogger()
    mods = dict(SafeLearner=SafeLearner, SafeEnvironment=SafeEnvironment, SafeEvaluator=SafeEvaluator, CobaException=CobaException, CobaContext=CobaContext, Pipes=Pipes,
                SequentialIGL=SequentialIGL, C_base=_mk_base())
    part_a(ctx, mods)
    part_b(ctx, mods)
    ctx.assumptions += [
        "SafeWrap: a wrapper sees either only batched or only unbatched calls; a learner that cannot take a batch raises; a learner's own failure depends on the data, not on the call count; its exception texts do not contain 'score', 'got an unexpected', 'learn() missing'",
        "SafeWrap: prediction-format parsing is C15's subject (predict appears here only with (action, prob[, kwargs]) answers, to exercise the latched call method and pickling)",
        "SafeWrap: on a failing learn / score only the outcome (which exception) is demanded, not which rows the learner had already accepted",
        "IGL: unbatched environments whose interactions all have the same context kind; 'context' is not among the recorded variables; time columns are only checked for presence",
        "IGL: rewards / feedbacks are integers, probabilities lie on the 1/1000 grid, PMF weights are quarters (the draw is decided exactly with the real generator constants)",
    ]
