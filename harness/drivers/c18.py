"""C18 - analysis compares only complete, equal-length runs and averages correctly: spec/ResultFin.tla.

ResultFin.tla DEFINES, for abstract Results (parameter columns with duplicates, any subset of the
(environment, learner, evaluator) grid evaluated, ragged lengths, parameter rows without interactions),
what where_fin / filter_fin (pairing by any l / p column choice, n in {None,'min',k}), where, where_best
and raw_learners (x = 'index' or parameter columns, every span) must return, and what moving_average is
(plain, windowed, weighted, exponential) - all in exact integer / rational arithmetic.  TLC enumerates the
Results and the call chains (bounded-exhaustive; -simulate for long chains on the large grids), checks the
design facts on every state (idempotence, conservation, equal lengths, only complete groups remain, equal
counts per level in raw_learners) and emits every history with the expected Result after every call.

This driver builds each Result as a real coba Result (through the constructor with shuffled rows, and
through TransactionResult as a transaction log is read), with the abstract parameter values mapped to ints,
strings and mixed unsortable hashables (float / str / tuple / None; two of the three encodings per history), replays the calls on it and compares
after every call: the interaction rows (exact, value by value), the ids and values of the three parameter
tables, and for raw_learners every reported number (bag per learner level and x, 1e-9).  The parameter columns are
presented under the namings the spec lists (plain names and names containing / resembling the API's words: the spec
states that a legal naming never changes an expectation).  Python converts and compares only; every expectation
comes out of TLC."""
import json, math, random, zlib, hashlib, multiprocessing, concurrent.futures
from fractions import Fraction
from .. import tlc, tracecheck

FINISH = dict(level="model_checking",
              rule="a case = one TLC-generated history (a Result + a chain of where_fin / where / where_best calls, optionally ending in raw_learners) replayed on real Result objects, or one moving_average input; distinct = distinct histories / inputs")

YSCALE = Fraction(1, 4)          # rewards are y/4: exact binary floats that are not integers
ROLES = {"e": ("ea", "eb"), "l": ("la", "lb"), "v": ("va",)}
IDCOL = {"e": "environment_id", "l": "learner_id", "v": "evaluator_id"}
PLAIN = {"ea": "ea", "eb": "eb", "la": "la", "lb": "lb", "va": "va"}
ICOLS = ("environment_id", "learner_id", "evaluator_id", "index", "reward")
WORKERS = 12
KNOWN_CLASSES = ("count-only", "short-after-pairing")


def conv(a, enc):
    """abstract parameter value -> a hashable Python value (distinct abstract values stay distinct)"""
    if enc == "int": return a + 10
    if enc == "str": return "p%d" % a
    if enc == "twins": return {0: 1, 1: "1", 2: None, 3: "None"}[a]      # not sortable against each other AND equal as text (1 / '1', None / 'None'): a label is its value, not its spelling
    return {0: 2.5, 1: "b", 2: (1, "t"), 3: None}[a]        # mixed: not sortable against each other


class Case:
    """One initial Result of a history, in one value encoding, built one way."""
    def __init__(self, new, enc, route, rng, nm=None):
        self.enc = enc; self.par = new["args"][0]
        self.nm = nm or PLAIN        # role -> the name the parameter column carries in the real tables
        self.pcols = {k: (IDCOL[k],) + tuple(self.nm[r] for r in ROLES[k]) for k in ROLES}
        self.rows0 = {}
        for e, l, v, i, y in new["args"][1]: self.rows0[(e, l, v, i)] = float(y * YSCALE)
        self.ids = new["tmax"]
        self.route = route; self.rng = rng

    def prow(self, kind, i):
        p = self.par
        if kind == "e": return (i, conv(p["ea"][i - 1], self.enc), conv(p["eb"][i - 1], self.enc))
        if kind == "l": return (i, conv(p["la"][i - 1], self.enc), conv(p["lb"][i - 1], self.enc))
        return (i, conv(p["va"][i - 1], self.enc))

    def name(self, col): return self.nm.get(col, col)

    def cols(self, cols, aslist):
        """a column choice of the spec (roles) as the real call takes it: a name, or a list of names"""
        if not cols: return None
        return [self.name(c) for c in cols] if (aslist or len(cols) > 1) else self.name(cols[0])

    def colval(self, col, a):
        return a if col in ("environment_id", "learner_id", "evaluator_id", "full_name", "index") else conv(a, self.enc)

    def build(self):
        from coba.results import Result, TransactionResult
        E, L, V = self.ids
        rows = [[e, l, v, i, y] for (e, l, v, i), y in self.rows0.items()]
        if self.route == "ctor":
            self.rng.shuffle(rows)
            tabs = []
            for kind, ids in (("e", E), ("l", L), ("v", V)):
                ids = list(ids); self.rng.shuffle(ids)
                tabs.append([list(self.pcols[kind])] + [list(self.prow(kind, i)) for i in ids])
            return Result(tabs[0], tabs[1], tabs[2], [list(ICOLS)] + rows)
        # as a transaction log is written and read back: TransactionEncode -> text lines -> TransactionDecode -> TransactionResult
        from coba.results import TransactionEncode, TransactionDecode
        trx = [["T0", {}]]
        for kind, tag, ids in (("e", "T1", E), ("l", "T2", L), ("v", "T3", V)):
            for i in ids: trx.append([tag, i, dict(zip(self.pcols[kind][1:], self.prow(kind, i)[1:]))])
        by = {}
        for e, l, v, i, y in sorted(rows): by.setdefault((e, l, v), []).append({"reward": y})
        keys = list(by); self.rng.shuffle(keys)
        for k in keys: trx.append(["T4", k, by[k]])
        lines = list(TransactionEncode(None).filter(trx))
        return TransactionResult().filter(TransactionDecode().filter(lines))

    # ---- expectations (conversion of the spec's compact encoding) ----
    def exp_rows(self, evset):
        return sorted((e, l, v, i, self.rows0[(e, l, v, i)]) for e, l, v, n in evset for i in range(1, n + 1))


def got_rows(res):
    cols = res.interactions[list(ICOLS)]
    return sorted(zip(*cols)) if len(res.interactions) else []


def check_tables(case, res, step):
    """ids within the spec's bounds (exact when `full`), no parameter value changed"""
    ref = [sorted(ids) for ids in step["tmin"]]          # the ids the interaction rows reference
    for k, (kind, tab) in enumerate((("e", res.environments), ("l", res.learners), ("v", res.evaluators))):
        idc = IDCOL[kind]
        ids = list(tab[idc]) if len(tab) else []
        if len(set(ids)) != len(ids): return "tables", "%s table lists an id twice: %r" % (idc, ids)
        missing = [i for i in ref[k] if i not in ids]
        if missing: return "tables:dangling", "%s %r referenced by interaction rows but absent from its parameter table %r" % (idc, missing, sorted(ids))
        if step["full"] and sorted(ids) != ref[k]:
            return "tables:unreferenced", "%s table holds %r but interaction rows reference exactly %r (every parameter row of the input was referenced)" % (idc, sorted(ids), ref[k])
        extra = [i for i in ids if i not in step["tmax"][k]]
        if extra: return "tables", "%s table holds ids %r that the input did not have" % (idc, extra)
        if len(tab):
            got = {r[0]: tuple(r) for r in zip(*tab[list(case.pcols[kind])])}
            for i, r in got.items():
                if r != case.prow(kind, i) or any(type(a) is not type(b) for a, b in zip(r, case.prow(kind, i))):
                    return "tables:values", "%s row %r, was %r" % (idc, r, case.prow(kind, i))
    return None


def check_raw(case, table, step, l_aslist, x_aslist):
    x, lc, pc, span = step["args"]
    def key(cols, vals, aslist):
        vs = tuple(case.colval(c, a) for c, a in zip(cols, vals))
        return vs if (aslist or len(cols) > 1) else vs[0]
    exp = {}
    for lev, xv, e, l, v, num, den in step["raw"]:
        lk = lev[0] if lc == ["full_name"] and not l_aslist else ((lev[0],) if lc == ["full_name"] else key(lc, lev, l_aslist))
        xk = xv[0] if x == ["index"] else key(x, xv, x_aslist)
        exp.setdefault((lk, xk), []).append(Fraction(num, den) * YSCALE)
    got = {}
    labels = [c for c in table.columns if c != "x"] if table is not None else []
    xs = list(table["x"]) if table is not None and len(table) else []
    for lab in labels:
        lk = lab
        if lc == ["full_name"]:
            s = lab[0] if l_aslist else lab
            if not isinstance(s, str) or ". " not in s: return "raw:label", "full_name label %r" % (lab,)
            lk = (int(s.split(". ")[0]),) if l_aslist else int(s.split(". ")[0])
        for xk, ys in zip(xs, table[lab]):
            ys = list(ys)
            if len(ys) == 1 and isinstance(ys[0], float) and math.isnan(ys[0]): continue
            got.setdefault((lk, xk), []).extend(ys)
    def show(d): return {repr(k): [float(v) for v in sorted(vs)] for k, vs in sorted(d.items(), key=lambda kv: repr(kv[0]))}
    if set(got) != set(exp):
        return "raw:cells", "raw_learners reports (level, x) cells %s, expected %s" % (sorted(map(repr, got)), sorted(map(repr, exp)))
    for k in exp:
        a, b = sorted(got[k]), sorted(exp[k])
        if len(a) != len(b) or any(abs(p - float(q)) > 1e-9 * (1 + abs(float(q))) for p, q in zip(a, b)):
            return "raw:values", "raw_learners at (level, x)=%r reports %r, expected %r (all: got %s expected %s)" % (k, a, [float(q) for q in b], show(got), show(exp))
    return None


def replay(h, enc, route, variant, rng, nm=None):
    """Replays one history.  Returns None | (signature, what) ; 'alt' outcomes end the history silently."""
    from coba.exceptions import CobaException
    case = Case(h[0], enc, route, rng, nm)
    colarg = case.cols
    try:
        cur = case.build()
    except Exception as ex:
        return ("new:raises:" + type(ex).__name__, "building the Result (%s) raised %s: %s" % (route, type(ex).__name__, str(ex)[:120]))
    if got_rows(cur) != case.exp_rows(h[0]["ev"]): return ("new:rows", "the constructed Result does not hold the given rows")
    bad = check_tables(case, cur, h[0])
    if bad: return ("new:" + bad[0], bad[1])
    aslist = bool(variant & 1)
    for k, step in enumerate(h[1:], 1):
        op, args = step["op"], step["args"]
        flagged = [f for f in KNOWN_CLASSES if f in step["flags"]]
        def sig(s):
            if s.startswith("best:p-default"): return "best:p-default"      # one defect class, whatever way it shows (raises / rows / tables)
            return ("pairing:" + "+".join(flagged)) if flagged else s
        call = op
        try:
            if op == "fin":
                nn, lc, pc = args
                n = None if nn == 0 else "min" if nn == -1 else nn
                f = cur.filter_fin if variant & 2 else cur.where_fin
                nxt = f(n, colarg(lc, aslist), colarg(pc, aslist))
                call = "where_fin(%r, l=%r, p=%r)" % (n, colarg(lc, aslist), colarg(pc, aslist))
            elif op == "where":
                col, arg = args
                if col == "index": kw = {"index": {"<=": arg}}
                else: kw = {case.name(col): [case.colval(col, a) for a in arg]}
                nxt = cur.where(**kw); call = "where(%r)" % (kw,)
            elif op == "best":
                lc, pc, nb = args
                if pc:
                    nxt = cur.where_best(colarg(lc, aslist), colarg(pc, aslist), "reward", nb or None)
                    call = "where_best(l=%r, p=%r, n=%r)" % (colarg(lc, aslist), colarg(pc, aslist), nb or None)
                else:       # p not given: documented to default to full_p ('environment_id')
                    call = "where_best(l=%r, n=%r)" % (colarg(lc, aslist), nb or None)
                    op = "best:p-default"
                    nxt = cur.where_best(l=colarg(lc, aslist), y="reward", n=nb or None)
            elif op == "wherei":
                col, o, val = args
                kw = {col: {o: float(val * YSCALE) if col == "reward" else val}}
                call = "where(%r)" % (kw,)
                nxt = cur.where(**kw)
                exp = sorted((e, l, v, i, case.rows0[(e, l, v, i)]) for e, l, v, i in step["raw"])
                got = got_rows(nxt)
                if got != exp:
                    return ("wherei:rows", "step %d %s keeps rows %r, expected %r" % (k, call, [r[:4] for r in got], [r[:4] for r in exp]))
                bad = check_tables(case, nxt, step)
                if bad: return ("wherei:%s" % bad[0], "step %d %s on evaluations (e,l,v,len) %r keeps rows (e,l,v,index) %r: %s" % (k, call, h[k - 1]["ev"], [r[:4] for r in got], bad[1]))
                if got_rows(cur) != case.exp_rows(h[k - 1]["ev"]): return ("wherei:mutates", "step %d %s changed the Result it was called on" % (k, call))
                return None
            elif op == "raw":
                x, lc, pc, span = args
                xa = "index" if x == ["index"] else colarg(x, aslist)
                call = "raw_learners(x=%r, y='reward', l=%r, p=%r, span=%r)" % (xa, colarg(lc, aslist), colarg(pc, aslist), span or None)
                try:
                    tab = cur.raw_learners(xa, "reward", colarg(lc, aslist), colarg(pc, aslist), span or None)
                except CobaException as ex:
                    if not step["raw"]: return None          # nothing to report: refusing is as good as an empty table
                    return (sig("raw:refused"), "step %d %s raised CobaException(%s) although comparable runs exist" % (k, call, str(ex)[:100]))
                bad = check_raw(case, tab, step, aslist, aslist)
                if bad: return (sig(bad[0]), "step %d %s: %s" % (k, call, bad[1]))
                if got_rows(cur) != case.exp_rows(step["ev"]): return ("raw:mutates", "step %d %s changed the Result it was called on" % (k, call))
                return None
        except Exception as ex:
            return (sig("%s:raises:%s" % (op, type(ex).__name__)), "step %d %s raised %s: %s" % (k, call, type(ex).__name__, str(ex)[:160]))
        got = got_rows(nxt)
        exp = case.exp_rows(step["ev"])
        if got != exp:
            if any(got == case.exp_rows(a) for a in step["alts"]):
                # the other accepted reading of where_fin(n=k,l,p): the sibling history that takes it checks the tables and continues
                return None
            ge = sorted({r[:3] for r in got}); ee = sorted((e, l, v) for e, l, v, n in step["ev"])
            if ge != ee: what = "keeps evaluations %r, expected %r" % (ge, ee)
            else:
                gl = {}
                for r in got: gl[r[:3]] = gl.get(r[:3], 0) + 1
                what = "evaluation lengths / rows %r, expected lengths %r" % (sorted(gl.items()), sorted(((e, l, v), n) for e, l, v, n in step["ev"]))
            if step["alts"]: what += " (or the other reading %r)" % (step["alts"],)
            return (sig("%s:rows" % op), "step %d %s %s; input evaluations (e,l,v,len) %r, params %s" % (k, call, what, h[k - 1]["ev"], json.dumps(case.par)))
        bad = check_tables(case, nxt, step)
        if bad: return (sig("%s:%s" % (op, bad[0])), "step %d %s: %s" % (k, call, bad[1]))
        if got_rows(cur) != case.exp_rows(h[k - 1]["ev"]): return (sig("%s:mutates" % op), "step %d %s changed the Result it was called on" % (k, call))
        cur = nxt
    return None


NAMINGS = []        # the namings of ResultFin.tla (printed by its ASSUME), set before the workers are forked


def _job(job):
    key, h, quick, seed = job
    hk = zlib.crc32(key.encode())
    rng = random.Random(seed * 1000003 + hk)
    encs = (("int", "str"), ("int", "mixed"), ("str", "mixed"), ("int", "twins"))[hk % 4] if not quick else ("int", ("str", "mixed", "twins")[hk % 3])
    for i, enc in enumerate(encs):
        route = ("ctor", "log")[(hk // 2 + i) % 2]
        variant = (hk // 4 + i) % 4
        nm = NAMINGS[(hk // 16 + 3 * i) % len(NAMINGS)] if NAMINGS else None
        bad = replay(h, enc, route, variant, rng, nm)
        if bad: return (bad, enc, route, variant, nm)
    return None


def ma_case(j, variant):
    from coba.results.core import moving_average
    m = j["ma"]
    sc = Fraction(1, 2) if variant else Fraction(1)
    vals = [float(v * sc) for v in m["vals"]] if variant else list(m["vals"])
    span = m["span"] or None
    w = None if m["w"]["k"] == "none" else "exp" if m["w"]["k"] == "exp" else ([float(x) for x in m["w"]["s"]] if variant else list(m["w"]["s"]))
    what = "moving_average(%r, span=%r, weights=%r)" % (vals, span, w)
    try:
        got = list(moving_average(vals, span, w))
    except Exception as ex:
        return ("moving_average:raises:" + type(ex).__name__, "%s raised %s: %s" % (what, type(ex).__name__, str(ex)[:100]))
    exp = [Fraction(a, b) * sc for a, b in j["out"]]
    if len(got) != len(exp) or any(abs(g - float(e)) > 1e-9 * (1 + abs(float(e))) for g, e in zip(got, exp)):
        return ("moving_average:" + m["w"]["k"], "%s = %r, expected %r" % (what, got, [float(e) for e in exp]))
    return None


def plan(ctx):
    """(name, cfg substitutions, simulate, minimum number of histories)"""
    base_ma = {'Mode = "res"': 'Mode = "ma"'}
    PAT = {'LenMode = "all"': 'LenMode = "pat"'}
    WIDE = {"FinLPs <- LPMid": "FinLPs <- LPAll", "RawArgs <- RawFew": "RawArgs <- RawMid", "BestArgs <- BestFew": "BestArgs <- BestAll", "WhereArgs <- WhereFew": "WhereArgs <- WhereAll",
            "WhereIArgs <- WhereIFew": "WhereIArgs <- WhereIAll"}
    NODESIGN = {"INVARIANT FinDesign\n": "", "INVARIANT RawDesign\n": ""}
    def S(*ds):
        out = {}
        for d in ds: out.update(d)
        return out
    if ctx.quick:
        return [
            ("ma", S(base_ma, {"MAMaxLen = 3": "MAMaxLen = 4"}), None, 1000),
            # every Result on the 2x2x1 grid with lengths 1..2, every single call of the wide argument sets
            ("g221-all", S(WIDE, {"FinLPs <- LPMid": "FinLPs <- LPMid"}), None, 5000),
            # lengths 1..3 and n = 3 on the same grid, where_fin and raw_learners only
            ("g221-len3", {"MaxLen = 2": "MaxLen = 3", "FinNs <- N2": "FinNs <- N3", "Ops <- AllOps": "Ops <- FinRaw", "TabFull <- Bools": "TabFull <- OnlyF"}, None, 5000),
            # two evaluators: subsets of the 2x2x2 grid (up to 4 triples missing), patterned lengths
            ("g222-pat", S(PAT, {"Dims <- D221": "Dims <- D222", "LenPats <- LP6": "LenPats <- LP3", "TabFull <- Bools": "TabFull <- OnlyF", "MaxMissing = 9": "MaxMissing = 4",
                                 "Ops <- AllOps": "Ops <- FinRaw"}), None, 5000),
            # three environments / learners with duplicated parameter values, at most one triple missing
            ("g331-pat", S(PAT, {"Dims <- D221": "Dims <- D331", "MaxMissing = 9": "MaxMissing = 1", "MaxLen = 2": "MaxLen = 3",
                                 "TabFull <- Bools": "TabFull <- OnlyF", "Pars <- P2": "Pars <- P4", "FinNs <- N2": "FinNs <- N3"}), None, 3000),
            # chains
            ("g221-chain2", S(PAT, {"MaxOps = 1": "MaxOps = 2", "LenPats <- LP6": "LenPats <- LP3", "FinLPs <- LPMid": "FinLPs <- LPFew", "TabFull <- Bools": "TabFull <- OnlyF"}), None, 3000),
            ("chains-sim", S(PAT, WIDE, NODESIGN, {"Dims <- D221": "Dims <- DAll", "MaxOps = 1": "MaxOps = 4", "MaxLen = 2": "MaxLen = 3", "Pars <- P2": "Pars <- P4",
                                                   "MaxMissing = 9": "MaxMissing = 3", "FinNs <- N2": "FinNs <- N3"}), dict(num=4), 1000),
        ]
    return [
        ("ma", S(base_ma, {"MAMaxLen = 3": "MAMaxLen = 5", "MAVals <- MAV3": "MAVals <- MAV4", "MASpans <- MAS5": "MASpans <- MAS7", "MAWeights <- MAWFew": "MAWeights <- MAWAll"}), None, 10000),
        ("g221-all", S(WIDE, {"MaxLen = 2": "MaxLen = 3", "FinNs <- N2": "FinNs <- N3", "Pars <- P2": "Pars <- P4"}), None, 50000),
        ("g221-len4", {"MaxLen = 2": "MaxLen = 4", "FinNs <- N2": "FinNs <- N4", "Ops <- AllOps": "Ops <- FinRaw", "TabFull <- Bools": "TabFull <- OnlyF", "Salts = {0}": "Salts = {1}"}, None, 20000),
        ("g222-all", {"Dims <- D221": "Dims <- D222", "Ops <- AllOps": "Ops <- FinRaw", "TabFull <- Bools": "TabFull <- OnlyF"}, None, 50000),
        ("g321-all", {"Dims <- D221": "Dims <- D321", "MaxLen = 2": "MaxLen = 3", "FinNs <- N2": "FinNs <- N3", "TabFull <- Bools": "TabFull <- OnlyF"}, None, 50000),
        ("g331-pat", S(PAT, WIDE, {"Dims <- D221": "Dims <- D331", "MaxMissing = 9": "MaxMissing = 2", "MaxLen = 2": "MaxLen = 3", "Pars <- P2": "Pars <- P4", "FinNs <- N2": "FinNs <- N3",
                                   "TabFull <- Bools": "TabFull <- OnlyF"}), None, 50000),
        ("g332-pat", S(PAT, {"Dims <- D221": "Dims <- D332", "MaxMissing = 9": "MaxMissing = 2", "MaxLen = 2": "MaxLen = 3", "Pars <- P2": "Pars <- P4", "TabFull <- Bools": "TabFull <- OnlyF",
                             "FinNs <- N2": "FinNs <- N3", "Ops <- AllOps": "Ops <- FinRaw"}), None, 50000),
        ("g221-chain3", S(PAT, {"MaxOps = 1": "MaxOps = 3", "LenPats <- LP6": "LenPats <- LP3", "FinLPs <- LPMid": "FinLPs <- LPFew", "TabFull <- Bools": "TabFull <- OnlyF"}), None, 50000),
        ("g222-chain2", S(PAT, {"Dims <- D221": "Dims <- D222", "MaxOps = 1": "MaxOps = 2", "LenPats <- LP6": "LenPats <- LP3", "MaxMissing = 9": "MaxMissing = 2",
                                "TabFull <- Bools": "TabFull <- OnlyF"}), None, 50000),
        ("chains-sim", S(PAT, WIDE, NODESIGN, {"Dims <- D221": "Dims <- DAll", "MaxOps = 1": "MaxOps = 5", "MaxLen = 2": "MaxLen = 4", "Pars <- P2": "Pars <- P4",
                                               "MaxMissing = 9": "MaxMissing = 4", "FinNs <- N2": "FinNs <- N4", "RawArgs <- RawMid": "RawArgs <- RawAll",
                                               "Salts = {0}": "Salts = {0, 1, 2}"}), dict(num=24), 20000),
    ]


def run(ctx):
    import coba.results  # noqa: F401  (fail early if the tree does not import)
    from coba.context import CobaContext, NullLogger
    CobaContext.logger = NullLogger()
    if ctx.replay:      # ./check C18 --replay replays/C18/<sha>.json : one recorded case against the current tree
        c = json.load(open(ctx.replay))["case"]
        if "ma" in c: bad = ma_case(c, 0) or ma_case(c, 1)
        else: bad = replay(c["history"], c["enc"], c["route"], c["variant"], random.Random(ctx.seed), c.get("naming"))
        ctx.case("replay"); ctx.traces += 1
        if bad: ctx.violation(bad[0], bad[1], c)
        return
    total = 0; ops = {}; alts = 0
    def model(item):
        name, sub, sim, least = item
        cfg = tracecheck._cfg("ResultFin.cfg", sub, ctx.scratch, "rf_%s.cfg" % name)
        if sim: r = tlc.run("MC_ResultFin", cfg, ctx.scratch, workers=16, simulate=sim, depth=8, seed=ctx.seed, timeout=3000, heap="8g")
        else: r = tlc.run("MC_ResultFin", cfg, ctx.scratch, workers=16, timeout=3000, heap="8g")
        r.out = ""
        return r
    items = plan(ctx)
    # the first (small) run also tells the namings of the parameter columns (ASSUME PrintT in ResultFin.tla)
    first = model(items[0])
    global NAMINGS
    NAMINGS = sorted((j["namings"] for j in first.json if isinstance(j, dict) and "namings" in j), key=lambda n: json.dumps(n, sort_keys=True))
    NAMINGS = sorted(NAMINGS[0], key=lambda n: json.dumps(n, sort_keys=True)) if NAMINGS else []
    if len(NAMINGS) < 5 or PLAIN not in NAMINGS: raise RuntimeError("ResultFin.tla printed no namings")
    ctx.extra["parameter_column_namings"] = NAMINGS
    # replay workers are forked once, before any thread exists (they inherit NAMINGS)
    pool = multiprocessing.get_context("fork").Pool(WORKERS)
    # TLC works on the next configuration while the histories of the current one are replayed
    ex = concurrent.futures.ThreadPoolExecutor(1)
    class _Done:
        def __init__(self, r): self.r = r
        def result(self): return self.r
    nxt = _Done(first)
    for k, (name, sub, sim, least) in enumerate(items):
        r = nxt.result()
        nxt = ex.submit(model, items[k + 1]) if k + 1 < len(items) else None
        ctx.add_tlc("ResultFin_" + name, r)
        for v in r.violations:
            ctx.violation("spec:%s" % (v["name"] or v["kind"]), "ResultFin.tla itself violates %s (%s)" % (v["name"], name), v["trace"][:60])
        if name == "ma":
            cases = sorted((j for j in r.json if isinstance(j, dict) and "ma" in j), key=lambda j: json.dumps(j, sort_keys=True))
            if len(cases) < least: raise RuntimeError("ResultFin %s produced only %d cases" % (name, len(cases)))
            for j in cases:
                ctx.case("ma" + json.dumps(j["ma"], sort_keys=True))
                for variant in (0, 1):
                    bad = ma_case(j, variant)
                    if bad: ctx.violation(bad[0], bad[1], j); break
            ctx.sample(cases[len(cases) // 2], limit=1); total += len(cases); ctx.exhaustive = True
            continue
        hists = {}
        for h in r.json:
            if isinstance(h, list) and len(h) > 1 and isinstance(h[0], dict) and h[0].get("op") == "new":
                hists.setdefault(json.dumps(h, sort_keys=True), h)
        if len(hists) < least: raise RuntimeError("ResultFin %s produced only %d histories" % (name, len(hists)))
        if not sim: ctx.exhaustive = True if ctx.exhaustive is None else ctx.exhaustive
        keys = sorted(hists)
        for key in keys:
            ctx.case(hashlib.sha1(key.encode()).hexdigest()[:20])
            for s in hists[key][1:]: ops[s["op"]] = ops.get(s["op"], 0) + 1
            alts += any(s["alts"] for s in hists[key])
        jobs = [(key, hists[key], ctx.quick, ctx.seed) for key in keys]
        # histories are independent: replayed in forked workers, results consumed in sorted order (deterministic)
        for key, out in zip(keys, pool.imap(_job, jobs, chunksize=200)):
            if out:
                bad, enc, route, variant, nm = out
                ctx.violation(bad[0], "%s [values as %s, Result built via %s, parameter columns named %s]" % (bad[1], enc, route, json.dumps(nm)),
                              dict(history=hists[key], enc=enc, route=route, variant=variant, naming=nm))
        del jobs, r
        total += len(hists)
        mid = hists[sorted(hists)[len(hists) // 2]]
        ctx.sample([(s["op"], s["args"] if s["op"] != "new" else s["args"][0], s["ev"]) for s in mid], limit=5)
    pool.close(); pool.join(); ex.shutdown()
    for op in ("fin", "where", "wherei", "best", "raw"):
        if not ops.get(op): raise RuntimeError("no history contains a %s step" % op)
    ctx.traces += total
    ctx.extra["steps_by_call"] = ops; ctx.extra["histories_with_two_accepted_readings"] = alts
    ctx.assumptions += [
        "Results as Experiment.run writes them: interaction rows of an evaluation carry index 1..len; the y column is numeric and present in every row",
        "l and p are given together or not at all (where_fin(l=..) without p raises TypeError in _group_p and is outside the property's domain)",
        "where_fin(n=k,l,p): the property does not fix whether short evaluations are dropped before or after pairing; both readings whose result is again paired are accepted",
        "referential consistency 'every parameter row is referenced' is demanded of an output only when it held of the input (DESIGN.md C18 (i))",
        "where_best is replayed only where the best learner of every (p,l) cell is unique (ties are not specified); where() arguments are lists of values (in), index<=k, or - ending the history - a comparison on reward / index",
        "parameter columns carry any of the namings of ResultFin.tla (plain names and names containing / resembling the API's words such as fold_index, indexes, environment_id2, learner, full_names, x, p, span), as a string or a one-element list; the names the four tables reserve (environment_id, learner_id, evaluator_id, index, reward, full_name) are not used for parameter columns",
        "raw_learners bags are compared per (level, x) without order; spans >= 1, weights positive, 'exp' with a span; floats compared to 1e-9 against exact rationals",
        "parameter values: ints, strings, and a mixed unsortable set {float, str, tuple, None}; numpy / pandas are not installed (to_pandas not exercised)",
    ]
