"""X10 - pipe composition and the basic sources / sinks / generic filters: spec/PipesAlgebra.tla (+ MC_PipesAlgebra.tla, PipesAlgebra.cfg).

PipesAlgebra.tla states `Pipes.join` / `Foreach` / the four composites as a typed algebra over recording stages and as a state
machine over PROGRAMS (build objects with join / Foreach from stages and earlier objects, then call them), QueueSource /
QueueSink around one queue, DiskSink / DiskSource around one file, the list / lambda / identity / null / console stages, and
decision tables for UrlSource routing and the generic filters Identity / Insert / Default / Flatten / Structure.  TLC
enumerates every program / history / table row within the bounds, checks the design facts in every state and prints each
behaviour with what every step must return and leave behind; broken variants must be rejected.

The driver replays every behaviour on the REAL classes (fresh recording stages per program, real queue.Queue, real files in
ctx.scratch, plain and .gz) and compares after EVERY step: what the call returned, the call counters / sink contents of every
stage, and kind / stage list (identity) / len / index / str / params of every object built so far (they must never change).
Nothing about an expectation is computed here: Python only converts values and compares."""
import collections, gzip, io, itertools, json, os, queue, random, sys
from concurrent.futures import ThreadPoolExecutor
from .. import tlc, tracecheck

FINISH = dict(level="model_checking",
              rule="a case = one TLC-generated behaviour (a program of joins / Foreach and calls; a call history of queue / disk / list stages; one row of a decision table) replayed on real coba objects in one mode, compared after every step; distinct = distinct (part, configuration, behaviour, mode)")

JOIN_INVARIANTS = ["Shape", "Flattened", "Associative", "GroupingFree", "Lazy", "ExactlyOnce", "InOrder"]


# ------------------------------------------------------------------ recording stages (the atoms of PipesAlgebra.tla)
class World:
    """fresh stages for one program: name -> object, call counters, sink contents"""
    def __init__(self):
        from coba.primitives import Filter, Sink, Environment, EnvironmentFilter
        W = self
        self.calls = collections.Counter(); self.written = {"K1": [], "K2": []}

        def _list(v): return list(v) if not isinstance(v, list) else v

        class S1:                                   # duck typed source, params through a property
            @property
            def params(self): return {"src": 1}
            def __str__(self): return "S1"
            def read(self):
                W.calls["S1"] += 1; n = W.calls["S1"]; return [["S1", n, 1], ["S1", n, 2]]

        class E1(Environment):                      # str and the params contract come from coba.primitives.Environment
            @property
            def params(self): return {"env": 1}
            def read(self):
                W.calls["E1"] += 1; n = W.calls["E1"]; return [["E1", n, 1], ["E1", n, 2]]

        def _filter(name):
            def filter(self, v):
                v = _list(v)                        # an iterable handed on by a Foreach is consumed first, then the call is counted
                W.calls[name] += 1
                return v + [[name, W.calls[name]]]
            return filter

        class F1(Filter):                           # str comes from coba.primitives.Pipe
            @property
            def params(self): return {"f": 1}
            filter = _filter("F1")

        class F2:                                   # duck typed, params is a plain attribute
            def __init__(self): self.params = {"f": 2, "g": 1}
            def __str__(self): return "F2"
            filter = _filter("F2")

        class N1:                                   # no params at all
            def __str__(self): return "N1"
            filter = _filter("N1")

        class EF(EnvironmentFilter):                # default params {} and default str
            filter = _filter("EF")

        def _write(name):
            def write(self, v):
                v = _list(v)
                W.calls[name] += 1
                W.written[name].append(v)
            return write

        class K1:
            @property
            def params(self): return {"snk": 1}
            def __str__(self): return "K1"
            write = _write("K1")

        class K2(Sink):
            @property
            def params(self): return {"f": 3}
            def __str__(self): return "K2"
            write = _write("K2")

        self.atoms = {"S1": S1(), "E1": E1(), "F1": F1(), "F2": F2(), "N1": N1(), "EF": EF(), "K1": K1(), "K2": K2(), "O1": object()}
        self.objs = []           # what the program built (None where the join raised)

    def ref(self, r): return self.atoms[r["a"]] if r["o"] == 0 else self.objs[r["o"] - 1]


def norm(v):
    """values -> nested lists (generators / iterators / tuples are consumed)"""
    if isinstance(v, (str, bytes, int, float, bool)) or v is None: return v
    if isinstance(v, dict): return {k: norm(x) for k, x in v.items()}
    return [norm(x) for x in v]


ATOM_KIND = {"S1": "Source", "E1": "Source", "F1": "Filter", "F2": "Filter", "N1": "Filter", "EF": "Filter", "K1": "Sink", "K2": "Sink", "O1": "None"}
ATOM_NAMES = {"S1", "E1", "F1", "F2", "N1", "EF", "K1", "K2", "x"}


def mask(v):
    """call numbers inside tokens replaced by 0 (used where the spec marks the order of calls as not fixed)"""
    if isinstance(v, list):
        if v and isinstance(v[0], str) and v[0] in ATOM_NAMES: return [v[0]] + [0 if isinstance(x, int) else mask(x) for x in v[1:]]
        return [mask(x) for x in v]
    if isinstance(v, dict): return {k: mask(x) for k, x in v.items()}
    return v


def showref(r): return r["a"] or "#%d" % r["o"]


def showprog(j): return " ; ".join("%s(%s)%s" % (s["op"], ",".join(showref(r) for r in s["args"]), "" if s["ok"] else " raises") for s in j["steps"])


def kind_of(o):
    k = [m for m in ("read", "filter", "write", "run") if hasattr(o, m)]
    return {("read",): "Source", ("filter",): "Filter", ("write",): "Sink", ("run",): "Line"}.get(tuple(k), "?" + "+".join(k))


def observe(W, i, view, foreach_cls):
    """-> None or (class, text): the i-th object against the spec's table row"""
    o = W.objs[i]
    if view["t"] == "err": return None
    if view["t"] == "each":
        if not isinstance(o, foreach_cls): return ("each:type", "Foreach(..) is %r" % type(o))
        if str(o) != view["str"]: return ("each:str", "str(Foreach(p)) = %r, expected %r" % (str(o), view["str"]))
        if view["hasp"] and view["pdistinct"]:
            try: p = o.params
            except Exception as e: return ("each:params", "Foreach(p).params raised %s: %s" % (type(e).__name__, e))
            if p != dict(map(tuple, view["params"])): return ("each:params", "Foreach(p).params = %r, expected %r" % (p, dict(map(tuple, view["params"]))))
        return None
    k = kind_of(o)
    if k != view["kind"]: return ("kind", "the object offers %s, expected a %s" % (k, view["kind"]))
    exp = [W.ref(r) for r in view["stages"]]
    try:
        got = list(o); n = len(o)
    except Exception as e:
        return ("composite:not-a-composite", "list() / len() of the joined object raised %s: %s" % (type(e).__name__, e))
    if len(got) != len(exp) or any(a is not b for a, b in zip(got, exp)):
        return ("stages", "the stages are %s, expected %s" % ([str(type(x).__name__) for x in got], [showref(r) for r in view["stages"]]))
    if n != len(exp): return ("composite:len", "len() = %d, expected %d" % (n, len(exp)))
    try:
        for q in range(-n, n):
            if o[q] is not exp[q]: return ("composite:index", "[%d] is not the stage at that position" % q)
    except Exception as e:
        return ("composite:index", "indexing raised %s: %s" % (type(e).__name__, e))
    try: s = str(o)
    except Exception as e: return ("composite:str", "str() raised %s: %s" % (type(e).__name__, e))
    if s != view["str"]: return ("composite:str", "str() = %r, expected %r" % (s, view["str"]))
    if view["pdistinct"]:
        try: p = o.params
        except Exception as e: return ("composite:params", "params raised %s: %s" % (type(e).__name__, e))
        want = dict(map(tuple, view["params"]))
        if p != want: return ("composite:params", "params = %r, expected %r" % (p, want))
    return None


def replay_join(ctx, cfgname, j, idx):
    """one program of Part "join" on the real classes; -> True when everything agreed"""
    from coba.pipes import Pipes, Foreach, SourceFilters, FiltersFilter, FiltersSink, SourceSink
    import coba.pipes
    from coba.exceptions import CobaException
    W = World(); table = j["objs"]; prog = showprog(j)
    joinf = Pipes.join if idx % 2 == 0 else coba.pipes.join
    rep = dict(config=cfgname, program=prog, behaviour=j)
    anyamb = False
    for k, st in enumerate(j["steps"]):
        op = st["op"]; args = [W.ref(r) for r in st["args"]]
        where = "step %d %s(%s) of [%s]" % (k + 1, op, ",".join(showref(r) for r in st["args"]), prog)
        if op == "join":
            view = table[len(W.objs)]
            kinds = []
            for r in st["args"]:
                kinds.append(ATOM_KIND[r["a"]] if r["o"] == 0 else table[r["o"] - 1]["kind"])
            try:
                o = joinf(*args); exc = None
            except BaseException as e:
                o = None; exc = e
            if st["ok"]:
                if exc is not None:
                    ctx.violation("join:well-typed:raises", "%s: kinds %s are Source? Filter* Sink? but join raised %s: %s" % (where, kinds, type(exc).__name__, exc), rep); return False
                W.objs.append(o)
            else:
                if exc is None:
                    ends_ok = len(kinds) >= 2 and kinds[0] in ("Source", "Filter") and kinds[-1] in ("Filter", "Sink")
                    sig = "join:ill-typed-middle:accepted" if ends_ok else "join:ill-typed:accepted"
                    ctx.violation(sig, "%s: kinds %s are not Source? Filter* Sink? but join returned a %s (%s) instead of raising CobaException" % (
                        where, kinds, type(o).__name__, kind_of(o)), rep); return False
                if not isinstance(exc, CobaException):
                    ctx.violation("join:ill-typed:raises-other", "%s: kinds %s: join raised %s: %s instead of CobaException" % (where, kinds, type(exc).__name__, exc), rep); return False
                W.objs.append(None)
            if st["ok"]:
                # the composite classes called directly build the same object (tests of the four composites)
                cls = {"Source": SourceFilters, "Filter": FiltersFilter, "Sink": FiltersSink, "Line": SourceSink}[view["kind"]]
                try:
                    d = cls(*args)
                    if len(list(d)) != len(view["stages"]) or any(a is not W.ref(r) for a, r in zip(d, view["stages"])) or str(d) != view["str"]:
                        ctx.violation("composite:direct", "%s: %s(*args) has stages %s / str %r, expected %s / %r" % (
                            where, cls.__name__, [type(x).__name__ for x in d], str(d), [showref(r) for r in view["stages"]], view["str"]), rep); return False
                except Exception as e:
                    ctx.violation("composite:direct", "%s: %s(*args) raised %s: %s" % (where, cls.__name__, type(e).__name__, e), rep); return False
        elif op == "each":
            W.objs.append(Foreach(args[0]))
        else:
            o = args[0]
            try:
                if op == "read": out = norm(o.read())
                elif op == "filter": out = norm(o.filter([["x", 1], ["x", 2]]))
                elif op == "write": out = o.write([["x", 1], ["x", 2]]); out = [] if out is None else ["returned", norm(out)]
                else: out = o.run(); out = [] if out is None else ["returned", norm(out)]
            except Exception as e:
                ctx.violation("call:%s:raises" % op, "%s raised %s: %s" % (where, type(e).__name__, e), rep); return False
            anyamb = anyamb or st["amb"]
            f = mask if st["amb"] else (lambda z: z)
            if f(out) != f(st["out"]):
                ctx.violation("call:%s:output" % op, "%s returned %r, expected %r" % (where, out, st["out"]), rep); return False
        # the stages after the step
        want = st["state"]
        got_calls = {a: W.calls.get(a, 0) for a in want["calls"]}
        if got_calls != want["calls"]:
            sig = "join:stage-called" if op in ("join", "each") else "call:%s:stage-calls" % op
            ctx.violation(sig, "%s: the stages have been called %r times, expected %r" % (where, {a: n for a, n in got_calls.items() if n or want["calls"][a]},
                                                                                        {a: n for a, n in want["calls"].items() if n or got_calls[a]}), rep); return False
        f = mask if anyamb else (lambda z: z)
        if f(norm(W.written)) != f(want["sinks"]):
            ctx.violation("call:%s:written" % op, "%s: the sinks hold %r, expected %r" % (where, W.written, want["sinks"]), rep); return False
        # every object built so far is what the table says - now and after every later step
        for i in range(len(W.objs)):
            bad = observe(W, i, table[i], Foreach)
            if bad:
                first = (i == len(W.objs) - 1 and op in ("join", "each"))
                lone_each = first and op == "join" and len(st["args"]) == 1 and st["args"][0]["o"] and table[st["args"][0]["o"] - 1]["t"] == "each"
                sig = bad[0] if ":" in bad[0] else "join:" + bad[0]
                if lone_each and bad[0] == "kind": sig = "join:lone-foreach:kind"
                if not first: sig = "changed:" + sig
                ctx.violation(sig, "%s: object #%d %s" % (where, i + 1, bad[1]), rep); return False
    return True


# ------------------------------------------------------------------ the check
def join_configs(ctx):
    q = ctx.quick
    C = []

    def add(name, atoms, leaves, args, arity, nobjs, each, sched="sweep", ncalls=2):
        C.append(dict(name=name, sub={
            "Atoms <- AtomsTyping": "Atoms <- %s" % atoms, "MaxLeaves = 4": "MaxLeaves = %d" % leaves, "MaxArgs = 5": "MaxArgs = %d" % args,
            "MaxArity = 4": "MaxArity = %d" % arity, "MaxObjs = 3": "MaxObjs = %d" % nobjs, "AllowEach = TRUE": "AllowEach = %s" % ("TRUE" if each else "FALSE"),
            'Sched = "sweep"': 'Sched = "%s"' % sched, "MaxCalls = 2": "MaxCalls = %d" % ncalls}))
    add("typing", "AtomsTyping", 4, 5, 4, 3, True)
    add("variety", "AtomsVariety", 4, 4, 4, 1, False)
    add("any-order", "AtomsSmall", 3, 4, 3, 2, True, "any", 2 if q else 3)
    if not q:
        add("typing-deep", "AtomsTyping", 4, 6, 4, 4, True)
        add("variety-nested", "AtomsVariety", 3, 4, 3, 2, True)
    return C


JOIN_GUARDS = [("ends_only", "join looks at its first and last argument only", {"Shape", "GroupingFree"}),
               ("noflatten", "a composite argument is kept as one stage", {"Flattened", "Associative"}),
               ("eager", "join reads its source when it is built", {"Lazy", "ExactlyOnce"}),
               ("reversed", "a composite applies its filters last to first", {"InOrder"})]


def run(ctx):
    rng = random.Random(ctx.seed)
    JC = join_configs(ctx)

    def tlc_job(job):
        name, sub, workers, cov = job
        cfg = tracecheck._cfg("PipesAlgebra.cfg", sub, ctx.scratch, "pa_%s.cfg" % name)
        return name, tlc.run("MC_PipesAlgebra", cfg, ctx.scratch, workers=workers, timeout=1500, heap="6g", coverage=cov)
    jobs = [("join-" + c["name"], c["sub"], 4, c["name"] in ("variety", "any-order")) for c in JC]
    for g, _, _ in JOIN_GUARDS:
        jobs.append(("guard-join-" + g, {'Variant = "ok"': 'Variant = "%s"' % g, "Atoms <- AtomsTyping": "Atoms <- AtomsPair", "MaxArgs = 5": "MaxArgs = 4"}, 1, False))
    with ThreadPoolExecutor(max_workers=3) as ex:
        results = dict(ex.map(tlc_job, jobs))

    for g, what, expect in JOIN_GUARDS:
        r = results["guard-join-" + g]
        ctx.add_tlc("PipesAlgebra guard " + g, r)
        names = {v["name"] for v in r.violations}
        if not (names & expect):
            raise RuntimeError("the broken design %r (%s) is not rejected by any of %s: the invariants are vacuous" % (g, what, sorted(expect)))
        ctx.extra.setdefault("guards_rejected", {})[g] = sorted(names)

    # ---- Part "join" ----
    total = 0
    for c in JC:
        r = results["join-" + c["name"]]
        req = {"variety": ["Join", "StartCalls", "SweepCall", "JoinFinish"], "any-order": ["Join", "Each", "AnyCall", "JoinFinish"]}.get(c["name"], ())
        ctx.add_tlc("PipesAlgebra join " + c["name"], r, required_actions=req)
        for v in r.violations:
            ctx.violation("spec:%s" % (v["name"] or v["kind"]), "PipesAlgebra.tla (%s) itself violates %s" % (c["name"], v["name"]), v["trace"][:60])
        progs = [j for j in r.json if isinstance(j, dict) and j.get("part") == "join"]
        progs.sort(key=lambda j: json.dumps(j["steps"], sort_keys=True))
        if len(progs) < 100: raise RuntimeError("join %s produced only %d programs" % (c["name"], len(progs)))
        ctx.extra.setdefault("programs", {})[c["name"]] = len(progs)
        for idx, j in enumerate(progs):
            ctx.case(("join", c["name"], showprog(j)))
            replay_join(ctx, c["name"], j, idx)
            total += 1
        mid = progs[len(progs) // 2]
        ctx.sample(dict(part="join", config=c["name"], program=showprog(mid), objects=[dict(kind=o["kind"], str=o["str"], params=o["params"]) for o in mid["objs"]]))
    ctx.exhaustive = True
    ctx.traces += total
