"""X10 - pipe composition and the basic sources / sinks / generic filters: spec/PipesAlgebra.tla (+ MC_PipesAlgebra.tla, PipesAlgebra.cfg).

PipesAlgebra.tla states `Pipes.join` / `Foreach` / the four composites as a typed algebra over recording stages and as a state
machine over PROGRAMS (build objects with join / Foreach from stages and earlier objects, then call them), QueueSource /
QueueSink around one queue, DiskSink / DiskSource around one file, the list / lambda / identity / null / console stages, and
decision tables for UrlSource routing and the generic filters Identity / Insert / Default / Flatten / Structure.  TLC
enumerates every program / history / table row within the bounds, checks the design facts in every state and prints each
behaviour with what every step must return and leave behind; broken variants must be rejected.

The driver replays every behaviour on the REAL classes (fresh recording stages per program, real queue.Queue, real files in
ctx.scratch, plain and .gz) and compares after EVERY step: what the call returned, the call counters / sink contents of every
stage, and kind / stage list (identity) / len / index / str / params of every object built so far (they must never change).
Nothing about an expectation is computed here: Python only converts values and compares."""
import collections, gzip, io, json, os, queue, time
from concurrent.futures import ThreadPoolExecutor
from .. import tlc, tracecheck

FINISH = dict(level="model_checking",
              rule="a case = one TLC-generated behaviour (a program of joins / Foreach and calls; a call history of queue / disk / list stages; one row of a decision table) replayed on real coba objects in one mode, compared after every step; distinct = distinct (part, configuration, behaviour, mode)")



# ------------------------------------------------------------------ recording stages (the atoms of PipesAlgebra.tla)
class Boom(Exception):
    pass


class World:
    """fresh stages for one program: name -> object, call counters, sink contents"""
    def __init__(self):
        from coba.primitives import Filter, Sink, Environment, EnvironmentFilter
        W = self
        self.calls = collections.Counter(); self.written = {"K1": [], "K2": []}; self.boom = None

        def _list(v): return list(v) if not isinstance(v, list) else v

        class S1:                                   # duck typed source, params through a property
            @property
            def params(self): return {"src": 1}
            def __str__(self): return "S1"
            def read(self):
                W.calls["S1"] += 1; n = W.calls["S1"]; return [["S1", n, 1], ["S1", n, 2]]

        class E1(Environment):                      # str and the params contract come from coba.primitives.Environment
            @property
            def params(self): return {"env": 1}
            def read(self):
                W.calls["E1"] += 1; n = W.calls["E1"]; return [["E1", n, 1], ["E1", n, 2]]

        def _filter(name):
            def filter(self, v):
                v = _list(v)                        # an iterable handed on by a Foreach is consumed first, then the call is counted
                W.calls[name] += 1
                return v + [[name, W.calls[name]]]
            return filter

        class F1(Filter):                           # str comes from coba.primitives.Pipe
            @property
            def params(self): return {"f": 1}
            filter = _filter("F1")

        class F2:                                   # duck typed, params is a plain attribute
            def __init__(self): self.params = {"f": 2, "g": 1}
            def __str__(self): return "F2"
            filter = _filter("F2")

        class N1:                                   # no params at all
            def __str__(self): return "N1"
            filter = _filter("N1")

        class EF(EnvironmentFilter):                # default params {} and default str
            filter = _filter("EF")

        class X1:                                   # the stage that fails: counts the call, then raises a fresh Boom
            def __str__(self): return "X1"
            def filter(self, v):
                v = _list(v); W.calls["X1"] += 1
                W.boom = Boom("X1 call %d" % W.calls["X1"]); raise W.boom

        def _write(name):
            def write(self, v):
                v = _list(v)
                W.calls[name] += 1
                W.written[name].append(v)
            return write

        class K1:
            @property
            def params(self): return {"snk": 1}
            def __str__(self): return "K1"
            write = _write("K1")

        class K2(Sink):
            @property
            def params(self): return {"f": 3}
            def __str__(self): return "K2"
            write = _write("K2")

        self.atoms = {"S1": S1(), "E1": E1(), "F1": F1(), "F2": F2(), "N1": N1(), "EF": EF(), "X1": X1(), "K1": K1(), "K2": K2(), "O1": object()}
        self.objs = []           # what the program built (None where the join raised)

    def ref(self, r): return self.atoms[r["a"]] if r["o"] == 0 else self.objs[r["o"] - 1]


def norm(v):
    """values -> nested lists (generators / iterators / tuples are consumed)"""
    if isinstance(v, (str, bytes, int, float, bool)) or v is None: return v
    if isinstance(v, dict): return {k: norm(x) for k, x in v.items()}
    return [norm(x) for x in v]


ATOM_KIND = {"S1": "Source", "E1": "Source", "F1": "Filter", "F2": "Filter", "N1": "Filter", "EF": "Filter", "X1": "Filter", "K1": "Sink", "K2": "Sink", "O1": "None"}
ATOM_NAMES = {"S1", "E1", "F1", "F2", "N1", "EF", "X1", "K1", "K2", "x"}


def mask(v):
    """call numbers inside tokens replaced by 0 (used where the spec marks the order of calls as not fixed)"""
    if isinstance(v, list):
        if v and isinstance(v[0], str) and v[0] in ATOM_NAMES: return [v[0]] + [0 if isinstance(x, int) else mask(x) for x in v[1:]]
        return [mask(x) for x in v]
    if isinstance(v, dict): return {k: mask(x) for k, x in v.items()}
    return v


def showref(r): return r["a"] or "#%d" % r["o"]


def showprog(j): return " ; ".join("%s(%s)%s" % (s["op"], ",".join(showref(r) for r in s["args"]), "" if s["ok"] else " raises") for s in j["steps"])


def kind_of(o):
    k = [m for m in ("read", "filter", "write", "run") if hasattr(o, m)]
    return {("read",): "Source", ("filter",): "Filter", ("write",): "Sink", ("run",): "Line"}.get(tuple(k), "?" + "+".join(k))


def observe(W, i, view, foreach_cls):
    """-> None or (class, text): the i-th object against the spec's table row"""
    o = W.objs[i]
    if view["t"] == "err": return None
    if view["t"] == "each":
        if not isinstance(o, foreach_cls): return ("each:type", "Foreach(..) is %r" % type(o))
        if str(o) != view["str"]: return ("each:str", "str(Foreach(p)) = %r, expected %r" % (str(o), view["str"]))
        if view["hasp"] and view["pdistinct"]:
            try: p = o.params
            except Exception as e: return ("each:params", "Foreach(p).params raised %s: %s" % (type(e).__name__, e))
            if p != dict(map(tuple, view["params"])): return ("each:params", "Foreach(p).params = %r, expected %r" % (p, dict(map(tuple, view["params"]))))
        return None
    k = kind_of(o)
    if k != view["kind"]: return ("kind", "the object offers %s, expected a %s" % (k, view["kind"]))
    exp = [W.ref(r) for r in view["stages"]]
    try:
        got = list(o); n = len(o)
    except Exception as e:
        return ("composite:not-a-composite", "list() / len() of the joined object raised %s: %s" % (type(e).__name__, e))
    if len(got) != len(exp) or any(a is not b for a, b in zip(got, exp)):
        return ("stages", "the stages are %s, expected %s" % ([str(type(x).__name__) for x in got], [showref(r) for r in view["stages"]]))
    if n != len(exp): return ("composite:len", "len() = %d, expected %d" % (n, len(exp)))
    try:
        for q in range(-n, n):
            if o[q] is not exp[q]: return ("composite:index", "[%d] is not the stage at that position" % q)
    except Exception as e:
        return ("composite:index", "indexing raised %s: %s" % (type(e).__name__, e))
    try: s = str(o)
    except Exception as e: return ("composite:str", "str() raised %s: %s" % (type(e).__name__, e))
    if s != view["str"]: return ("composite:str", "str() = %r, expected %r" % (s, view["str"]))
    if view["pdistinct"]:
        try: p = o.params
        except Exception as e: return ("composite:params", "params raised %s: %s" % (type(e).__name__, e))
        want = dict(map(tuple, view["params"]))
        if p != want: return ("composite:params", "params = %r, expected %r" % (p, want))
    return None


def replay_join(ctx, cfgname, j, idx):
    """one program of Part "join" on the real classes; -> True when everything agreed"""
    from coba.pipes import Pipes, Foreach, SourceFilters, FiltersFilter, FiltersSink, SourceSink
    import coba.pipes
    from coba.exceptions import CobaException
    W = World(); table = j["objs"]; prog = showprog(j)
    joinf = Pipes.join if idx % 2 == 0 else coba.pipes.join
    rep = dict(config=cfgname, program=prog, behaviour=j)
    anyamb = False
    for k, st in enumerate(j["steps"]):
        op = st["op"]; args = [W.ref(r) for r in st["args"]]
        where = "step %d %s(%s) of [%s]" % (k + 1, op, ",".join(showref(r) for r in st["args"]), prog)
        if op == "join":
            view = table[len(W.objs)]
            kinds = []
            for r in st["args"]:
                kinds.append(ATOM_KIND[r["a"]] if r["o"] == 0 else table[r["o"] - 1]["kind"])
            try:
                o = joinf(*args); exc = None
            except BaseException as e:
                o = None; exc = e
            if st["ok"]:
                if exc is not None:
                    ctx.violation("join:well-typed:raises", "%s: kinds %s are Source? Filter* Sink? but join raised %s: %s" % (where, kinds, type(exc).__name__, exc), rep); return False
                W.objs.append(o)
            else:
                if exc is None:
                    ends_ok = len(kinds) >= 2 and kinds[0] in ("Source", "Filter") and kinds[-1] in ("Filter", "Sink")
                    sig = "join:ill-typed-middle:accepted" if ends_ok else "join:ill-typed:accepted"
                    ctx.violation(sig, "%s: kinds %s are not Source? Filter* Sink? but join returned a %s (%s) instead of raising CobaException" % (
                        where, kinds, type(o).__name__, kind_of(o)), rep); return False
                if not isinstance(exc, CobaException):
                    ctx.violation("join:ill-typed:raises-other", "%s: kinds %s: join raised %s: %s instead of CobaException" % (where, kinds, type(exc).__name__, exc), rep); return False
                W.objs.append(None)
            if st["ok"]:
                # the composite classes called directly build the same object (tests of the four composites)
                cls = {"Source": SourceFilters, "Filter": FiltersFilter, "Sink": FiltersSink, "Line": SourceSink}[view["kind"]]
                try:
                    d = cls(*args)
                    if len(list(d)) != len(view["stages"]) or any(a is not W.ref(r) for a, r in zip(d, view["stages"])) or str(d) != view["str"]:
                        ctx.violation("composite:direct", "%s: %s(*args) has stages %s / str %r, expected %s / %r" % (
                            where, cls.__name__, [type(x).__name__ for x in d], str(d), [showref(r) for r in view["stages"]], view["str"]), rep); return False
                except Exception as e:
                    ctx.violation("composite:direct", "%s: %s(*args) raised %s: %s" % (where, cls.__name__, type(e).__name__, e), rep); return False
        elif op == "each":
            W.objs.append(Foreach(args[0]))
        else:
            o = args[0]; W.boom = None; raised = None
            try:
                if op == "read": out = norm(o.read())
                elif op == "filter": out = norm(o.filter([["x", 1], ["x", 2]]))
                elif op == "write": out = o.write([["x", 1], ["x", 2]]); out = [] if out is None else ["returned", norm(out)]
                else: out = o.run(); out = [] if out is None else ["returned", norm(out)]
            except Exception as e:
                raised = e; out = []
            if raised is not None and not (raised is W.boom and not st["ok"]):
                ctx.violation("call:%s:raises" % op, "%s raised %s: %s%s" % (where, type(raised).__name__, raised, "" if st["ok"] else " instead of the exception of the failing stage"), rep); return False
            if raised is None and not st["ok"]:
                ctx.violation("call:%s:exception-lost" % op, "%s: a stage raised but the call returned %r" % (where, out), rep); return False
            anyamb = anyamb or st["amb"]
            f = mask if st["amb"] else (lambda z: z)
            if f(out) != f(st["out"]):
                ctx.violation("call:%s:output" % op, "%s returned %r, expected %r" % (where, out, st["out"]), rep); return False
        # the stages after the step
        want = st["state"]
        got_calls = {a: W.calls.get(a, 0) for a in want["calls"]}
        if got_calls != want["calls"]:
            sig = "join:stage-called" if op in ("join", "each") else "call:%s:stage-calls" % op
            ctx.violation(sig, "%s: the stages have been called %r times, expected %r" % (where, {a: n for a, n in got_calls.items() if n or want["calls"][a]},
                                                                                        {a: n for a, n in want["calls"].items() if n or got_calls[a]}), rep); return False
        f = mask if anyamb else (lambda z: z)
        if f(norm(W.written)) != f(want["sinks"]):
            ctx.violation("call:%s:written" % op, "%s: the sinks hold %r, expected %r" % (where, W.written, want["sinks"]), rep); return False
        # every object built so far is what the table says - now and after every later step
        for i in range(len(W.objs)):
            bad = observe(W, i, table[i], Foreach)
            if bad:
                first = (i == len(W.objs) - 1 and op in ("join", "each"))
                lone_each = first and op == "join" and len(st["args"]) == 1 and st["args"][0]["o"] and table[st["args"][0]["o"] - 1]["t"] == "each"
                sig = bad[0] if ":" in bad[0] else "join:" + bad[0]
                if lone_each and bad[0] == "kind": sig = "join:lone-foreach:kind"
                if not first: sig = "changed:" + sig
                ctx.violation(sig, "%s: object #%d %s" % (where, i + 1, bad[1]), rep); return False
    return True


# ------------------------------------------------------------------ Part "queue"
class FaultyQueue(queue.Queue):
    """the real queue.Queue; `fault` (an exception object) is raised once by the next get() / put(); a get() that would block raises"""
    fault = None
    def get(self, *a, **k):
        if self.fault is not None:
            f, self.fault = self.fault, None; raise f
        if self.qsize() == 0: raise RuntimeError("get() on an empty queue would block for ever")
        return super().get(*a, **k)
    def put(self, *a, **k):
        if self.fault is not None:
            f, self.fault = self.fault, None; raise f
        return super().put(*a, **k)


def replay_queue(ctx, j, idx):
    from coba.pipes import QueueSource, QueueSink
    pz = None if j["pz"] == "None" else 0
    q = FaultyQueue()
    plain_args = j["block"] and pz is None and idx % 2 == 0           # the documented defaults, given or not
    srcs = [QueueSource(q) if plain_args else QueueSource(q, block=j["block"], poison=pz) for _ in range(2)]
    sinkA = QueueSink(q) if idx % 2 == 0 else QueueSink(q, foreach=False); sinkB = QueueSink(q, foreach=True)
    gens = []; injected = None
    hist = " ".join("%s%s" % (s["op"], "" if s["op"] in ("write", "poison") else ":%s" % (s["arg"] if not isinstance(s["arg"], list) else len(s["arg"]))) for s in j["steps"])
    rep = dict(block=j["block"], poison=j["pz"], history=hist, behaviour=j)
    val = lambda x: pz if x == 0 else x
    for k, st in enumerate(j["steps"]):
        op = st["op"]; where = "QueueSource(block=%s, poison=%r) step %d %s of [%s]" % (j["block"], pz, k + 1, op, hist)
        got = None
        try:
            if op in ("write", "poison"): r = sinkA.write(val(st["arg"][0])); got = "ok" if r is None else "returned %r" % (r,)
            elif op == "write_each":
                items = [val(x) for x in st["arg"]]
                r = sinkB.write(items if k % 2 == 0 else iter(items)); got = "ok" if r is None else "returned %r" % (r,)
            elif op == "open": gens.append(srcs[st["arg"] - 1].read()); got = "ok"
            elif op == "break":
                injected = {"EOF": EOFError, "Pipe": BrokenPipeError, "Value": ValueError}[st["res"]]("injected"); q.fault = injected; got = st["res"]
            elif op == "next":
                try:
                    x = next(gens[st["arg"] - 1])
                    got = "poison" if (x is None and pz is None) or (x == 0 and pz == 0 and x is not False) else str(x)
                except StopIteration:
                    got = "stop"
        except BaseException as e:
            got = "raise" if e is injected else "raises %s: %s" % (type(e).__name__, e)
        if got != st["res"]:
            ctx.violation("queue:%s:%s" % (op, "raises" if got.startswith("raise") else "result"), "%s gave %r, expected %r" % (where, got, st["res"]), rep); return False
        now = [0 if (x is None and pz is None) or (pz == 0 and x == 0) else x for x in list(q.queue)]
        if now != st["q"]:
            ctx.violation("queue:%s:queue" % op, "%s: the queue holds %r, expected %r" % (where, now, st["q"]), rep); return False
        flags = [bool(s._poisoned) for s in srcs]
        if flags != st["poisoned"]:
            ctx.violation("queue:%s:poisoned" % op, "%s: the sources' poisoned flags are %r, expected %r" % (where, flags, st["poisoned"]), rep); return False
    return True


# ------------------------------------------------------------------ Part "disk"
def _text(cs): return "".join("\n" if c == "N" else c for c in cs)


def replay_disk(ctx, j, idx):
    from coba.pipes import DiskSink, DiskSource
    path = os.path.join(ctx.scratch, "x10_disk_%d.log%s" % (idx, ".gz" if j["gz"] else ""))
    if os.path.exists(path): os.unlink(path)
    batch = j["batch"] or None

    def mk():
        if j["mode"] == "a+" and batch is None and idx % 2 == 0: return DiskSink(path)
        return DiskSink(path, mode=j["mode"], batch=batch)
    sink = mk(); depth = 0
    hist = " ".join(s["op"] if s["op"] != "write" else ("write(%r)" % ("".join(s["arg"]["lines"][0]) if s["arg"]["str"] else ["".join(l) for l in s["arg"]["lines"]])) for s in j["steps"])
    rep = dict(gz=j["gz"], mode=j["mode"], batch=j["batch"], history=hist, behaviour=j)
    cfg = "DiskSink(%s, mode=%r, batch=%r)" % ("'f.log.gz'" if j["gz"] else "'f.log'", j["mode"], batch)
    try:
        for k, st in enumerate(j["steps"]):
            op = st["op"]; where = "%s step %d of [%s]" % (cfg, k + 1, hist)
            try:
                if op == "write":
                    lines = ["".join(l) for l in st["arg"]["lines"]]
                    r = sink.write(lines[0] if st["arg"]["str"] else (lines, tuple(lines), iter(lines))[(idx + k) % 3])
                    if r is not None: ctx.violation("disk:write:returns", "%s returned %r" % (where, r), rep); return False
                elif op == "enter":
                    if sink.__enter__() is not sink: ctx.violation("disk:enter:returns", "%s: `with sink as s` does not give the sink" % where, rep); return False
                    depth += 1
                elif op == "exit": sink.__exit__(None, None, None); depth -= 1
                elif op == "newsink": sink = mk()
                elif op == "read":
                    ds0 = None
                    for loc_s, want in sorted(st["res"].items(), key=lambda kv: int(kv[0])):
                        loc = int(loc_s)
                        for inc in (True, False):
                            ds = DiskSource(path, start_loc=loc, include_loc=inc) if (loc or inc or idx % 2) else DiskSource(path)
                            if loc == 0 and not inc: ds0 = ds
                            got = list(ds.read())
                            exp = [(e["loc"], "".join(e["line"])) for e in want] if inc else ["".join(e["line"]) for e in want]
                            if got != exp:
                                ctx.violation("disk:read:%s" % ("loc" if inc and [g[1] for g in got if isinstance(g, tuple)] == [e[1] for e in exp] else "lines"),
                                              "%s: DiskSource(start_loc=%d, include_loc=%s) on the file %r read %r, expected %r" % (where, loc, inc, _text(st["bytes"]), got, exp), rep); return False
                    again = list(ds0.read()); first = ["".join(e["line"]) for e in st["res"]["0"]]
                    if again != first:
                        ctx.violation("disk:read:second-read", "%s: the same DiskSource read again gave %r, expected %r" % (where, again, first), rep); return False
            except Exception as e:
                ctx.violation("disk:%s:raises" % op, "%s raised %s: %s" % (where, type(e).__name__, e), rep); return False
            # the file after the step
            if os.path.exists(path) != st["exists"]:
                ctx.violation("disk:%s:file-exists" % op, "%s: the file %s" % (where, "exists" if os.path.exists(path) else "does not exist"), rep); return False
            if st["exists"] and not (j["gz"] and depth > 0):
                raw = open(path, "rb").read()
                try: data = gzip.decompress(raw) if (j["gz"] and raw) else raw
                except Exception as e:
                    ctx.violation("disk:%s:gzip" % op, "%s: the file is not a gzip stream (%s: %s)" % (where, type(e).__name__, e), rep); return False
                if data.decode("utf-8") != _text(st["bytes"]):
                    sig = "disk:write:lines-lost" if (op == "write" and len(data) < len(st["bytes"])) else "disk:%s:content" % op
                    if sig == "disk:write:lines-lost" and j["mode"] == "w" and batch and depth == 0 and len(st["arg"]["lines"]) >= batch: sig = "disk:write:w-batch:lines-lost"
                    ctx.violation(sig, "%s: the file holds %r, expected %r" % (where, data.decode("utf-8"), _text(st["bytes"])), rep); return False
        return True
    finally:
        while depth > 0:
            try: sink.__exit__(None, None, None)
            except Exception: pass
            depth -= 1
        if os.path.exists(path): os.unlink(path)


# ------------------------------------------------------------------ Part "list" and the decision tables
def py(v, fresh_iter=True):
    """tagged spec value -> Python value"""
    t = v["t"]
    if t in ("int", "str", "key"): return v["v"]
    if t == "none": return None
    if t == "list": return [py(x) for x in v["v"]]
    if t == "tuple": return tuple(py(x) for x in v["v"])
    if t == "iter": return iter([py(x) for x in v["v"]])
    if t == "dict": return {py(k): py(x) for k, x in v["v"]}
    raise AssertionError(t)


def same(a, b):
    """type sensitive deep equality (a list is not a tuple, True is not 1)"""
    if type(a) is not type(b): return False
    if isinstance(a, (list, tuple)): return len(a) == len(b) and all(same(x, y) for x, y in zip(a, b))
    if isinstance(a, dict): return a.keys() == b.keys() and all(same(a[k], b[k]) for k in a)
    return a == b


def replay_list(ctx, j, idx):
    import contextlib
    from coba.pipes import ListSink, ListSource, IterableSource, LambdaSource, LambdaSink, ConsoleSink, NullSink, NullSource, IdentitySource
    A = ListSink(); B = ListSink(A.items, foreach=True)
    ls = ListSource(A.items); its = IterableSource(A.items)
    cnt = [0]; lam = []

    def f(): cnt[0] += 1; return cnt[0]

    def g(x): lam.append(x); return len(lam)
    lsrc = LambdaSource(f); lsink = LambdaSink(g); con = ConsoleSink(); buf = io.StringIO()
    hist = " ".join(s["op"] for s in j["steps"])
    rep = dict(history=hist, behaviour=j)
    for k, st in enumerate(j["steps"]):
        op = st["op"]; where = "step %d %s of [%s]" % (k + 1, op, hist)
        try:
            res = None
            if op == "write": r = A.write(py(st["arg"])); ok = r is None
            elif op == "write_each": r = B.write(py(st["arg"])); ok = r is None
            elif op == "read_list": r = ls.read(); ok = r is A.items and ls.items is A.items and same(r, [py(x) for x in st["res"]])
            elif op == "read_iter": r = list(its.read()); ok = same(r, [py(x) for x in st["res"]])
            elif op == "lambda_read": r = lsrc.read(); ok = same(r, py(st["res"]))
            elif op == "lambda_write": r = lsink.write(py(st["arg"])); ok = same(r, py(st["res"]))
            elif op == "console":
                with contextlib.redirect_stdout(buf): r = con.write({"int": 7, "str": "ab", "list": [1, 2], "none": None}[st["arg"]])
                ok = r is None
            elif op == "null_write": r = NullSink().write([1, 2, 3]); ok = r is None
            elif op == "null_read": r = NullSource().read(); ok = list(r) == []
            elif op == "identity_read":
                item = [1, 2]; s1 = IdentitySource(item); s2 = IdentitySource(item, params={"a": 1})
                r = s1.read(); ok = r is item and s1.read() is item and s1.params == {} and s2.params == {"a": 1} and s2.read() is item
        except Exception as e:
            ctx.violation("list:%s:raises" % op, "%s raised %s: %s" % (where, type(e).__name__, e), rep); return False
        if not ok:
            ctx.violation("list:%s:result" % op, "%s gave %r, expected %r" % (where, r, st["res"]), rep); return False
        if B.items is not A.items or not same(A.items, [py(x) for x in st["lst"]]):
            ctx.violation("list:%s:items" % op, "%s: the list holds %r, expected %r" % (where, A.items, [py(x) for x in st["lst"]]), rep); return False
        if not same(lam, [py(x) for x in st["lam"]]) or buf.getvalue() != "".join(l + "\n" for l in st["out"]):
            ctx.violation("list:%s:side-effects" % op, "%s: the lambda sink received %r, the console %r; expected %r, %r" % (where, lam, buf.getvalue(), st["lam"], st["out"]), rep); return False
    return True


def replay_table(ctx, j, idx):
    from coba.pipes import UrlSource, HttpSource, DiskSource, Insert, Identity, Default, Flatten, Structure
    from coba.exceptions import CobaException
    fam = j["fam"]; rep = dict(case=j)
    try:
        if fam == "url":
            url = j["inp"]; want = j["out"]
            try: u = UrlSource(url); got = ("http", u._source._url) if isinstance(u._source, HttpSource) else ("disk", u._source._path) if isinstance(u._source, DiskSource) else ("?", repr(u._source))
            except CobaException: got = ("error", "")
            if got != (want["route"], want["arg"]):
                ctx.violation("url:route", "UrlSource(%r) -> %r, expected %r" % (url, got, (want["route"], want["arg"])), rep); return False
            return True
        if fam == "insert":
            ins = [py(x) for x in j["inp"]["ins"]]; items = [py(x) for x in j["inp"]["items"]]; want = py(j["out"])
            f = Insert(ins)
            for given in (items, iter(items), tuple(items)):
                got = list(f.filter(given))
                if not same(got, want): ctx.violation("insert:result", "Insert(%r).filter(%r) -> %r, expected %r" % (ins, items, got, want), rep); return False
            for x in (items, want, None, 3):
                if Identity().filter(x) is not x: ctx.violation("identity:result", "Identity().filter(x) is not x", rep); return False
            return True
        if fam == "default":
            defs = {py(k): py(v) for k, v in j["inp"]["defs"]}; rows = [py(r) for r in j["inp"]["rows"]]; want = py(j["out"])
            f = Default(defs); keep = json.dumps(rows, sort_keys=True)
            got = list(f.filter(rows)); got2 = list(f.filter(iter([py(r) for r in j["inp"]["rows"]])))
            if not same(got, want) or not same(got2, want):
                ctx.violation("default:result", "Default(%r).filter(%r) -> %r, expected %r" % (defs, rows, got, want), rep); return False
            if json.dumps(rows, sort_keys=True) != keep:
                ctx.violation("default:mutates-input", "Default(%r).filter changed the rows it was given: %r" % (defs, rows), rep); return False
            return True
        if fam == "flatten":
            rows = py(j["inp"]); want = py(j["out"]); f = Flatten()
            got = list(f.filter(rows)); got2 = list(f.filter(iter(py(j["inp"])))); got3 = list(Flatten().filter(py(j["inp"])))
            if not (same(got, want) and same(got2, want) and same(got3, want)):
                ctx.violation("flatten:%s" % ("sparse" if rows and isinstance(rows[0], dict) else "dense"), "Flatten().filter(%r) -> %r, expected %r" % (rows, got if not same(got, want) else got2, want), rep); return False
            return True
        if fam == "structure":
            sp = py(j["inp"]["s"]); rows = py(j["inp"]["rows"]); want = py(j["out"]); f = Structure(sp)
            got = list(f.filter(rows)); got2 = list(f.filter(iter(py(j["inp"]["rows"]))))
            if not (same(got, want) and same(got2, want)):
                npos = json.dumps(j["inp"]["s"]).count('"key"')
                dense = not (rows and isinstance(rows[0], dict))
                ctx.violation("structure:%s" % ("sparse" if not dense else "dense:several-positions" if npos >= 2 else "dense"), "Structure(%r).filter(%r) -> %r, expected %r" % (sp, py(j["inp"]["rows"]), got, want), rep); return False
            return True
    except Exception as e:
        if fam == "structure" and isinstance(e, IndexError) and json.dumps(j["inp"]["s"]).count('"key"') >= 2 and j["inp"]["rows"]["v"] and j["inp"]["rows"]["v"][0]["t"] == "list":
            ctx.violation("structure:dense:several-positions", "Structure(%r).filter(%r) raised IndexError: %s" % (py(j["inp"]["s"]), py(j["inp"]["rows"]), e), rep); return False
        ctx.violation("%s:raises" % fam, "%s case %r raised %s: %s" % (fam, j["inp"], type(e).__name__, e), rep); return False
    raise AssertionError(fam)


# ------------------------------------------------------------------ the check
def join_configs(ctx):
    q = ctx.quick
    C = []

    def add(name, atoms, leaves, args, arity, nobjs, each, sched="sweep", ncalls=2):
        C.append(dict(name=name, sub={
            "Atoms <- AtomsTyping": "Atoms <- %s" % atoms, "MaxLeaves = 4": "MaxLeaves = %d" % leaves, "MaxArgs = 5": "MaxArgs = %d" % args,
            "MaxArity = 4": "MaxArity = %d" % arity, "MaxObjs = 3": "MaxObjs = %d" % nobjs, "AllowEach = TRUE": "AllowEach = %s" % ("TRUE" if each else "FALSE"),
            'Sched = "sweep"': 'Sched = "%s"' % sched, "MaxCalls = 2": "MaxCalls = %d" % ncalls}))
    add("typing", "AtomsTyping", 4, 4 if q else 5, 4, 3, True)
    add("variety", "AtomsVariety", 4, 4, 4, 1, False)
    add("any-order", "AtomsSmall", 3, 4, 3, 2, True, "any", 2 if q else 3)
    add("faults", "AtomsFaults", 3 if q else 4, 4 if q else 5, 3 if q else 4, 2 if q else 3, True)
    if not q:
        add("typing-deep", "AtomsTyping", 4, 6, 4, 4, True)
        add("variety-nested", "AtomsVariety", 3, 4, 3, 2, True)
    return C


JOIN_GUARDS = [("ends_only", "join looks at its first and last argument only", {"Shape", "GroupingFree"}),
               ("noflatten", "a composite argument is kept as one stage", {"Flattened", "Associative"}),
               ("eager", "join reads its source when it is built", {"Lazy", "ExactlyOnce", "FailStop"}),
               ("reversed", "a composite applies its filters last to first", {"InOrder"})]
PART_GUARDS = [("queue", "nb_poison", "a non-blocking reader stops at the poison value", {"QPoisonRule"}),
               ("queue", "drop_on_fault", "a failing get loses the item at the head of the queue", {"QFifo"}),
               ("disk", "w_batch", "every batch of a mode-'w' write truncates the file again", {"DWriteComplete"}),
               ("disk", "loc_lines", "the reported location counts lines instead of bytes", {"DLocRoundTrip"}),
               ("list", "l_extend", "the plain ListSink spreads a written list over several entries", {"LEntries"})]
PART_ACTIONS = {"queue": ["QPut", "QOpen", "QNext", "QBreak", "QFinish"],
                "disk": ["DWrite", "DEnter", "DExit", "DNewSink", "DRead", "DFinish"],
                "list": ["LWrite", "LWriteEach", "LRead", "LLambdaRead", "LLambdaWrite", "LConsole", "LNulls", "LFinish"],
                "table": ["TableNext"]}


def run(ctx):
    JC = join_configs(ctx)
    qn = {"queue": ctx.pick(4, 5), "disk": ctx.pick(3, 4), "list": ctx.pick(3, 4), "table": 1}

    def part_sub(part, extra=None):
        d = {'Part = "join"': 'Part = "%s"' % part, "QN = 4": "QN = %d" % qn[part], 'Size = "quick"': 'Size = "%s"' % ctx.tier}
        d.update(extra or {}); return d

    def tlc_job(job):
        name, sub, workers, cov = job
        cfg = tracecheck._cfg("PipesAlgebra.cfg", sub, ctx.scratch, "pa_%s.cfg" % name)
        return name, tlc.run("MC_PipesAlgebra", cfg, ctx.scratch, workers=workers, timeout=1500, heap="6g", coverage=cov)
    jobs = [("join-" + c["name"], c["sub"], 2, c["name"] in ("variety", "any-order")) for c in JC]
    jobs += [("part-" + p, part_sub(p), 2 if p != "table" else 1, True) for p in ("queue", "disk", "list", "table")]
    for g, _, _ in JOIN_GUARDS:
        jobs.append(("guard-join-" + g, {'Variant = "ok"': 'Variant = "%s"' % g, "Atoms <- AtomsTyping": "Atoms <- AtomsPair", "MaxArgs = 5": "MaxArgs = 4"}, 1, False))
    for p, g, _, _ in PART_GUARDS:
        jobs.append(("guard-%s-%s" % (p, g), {'Part = "join"': 'Part = "%s"' % p, 'Variant = "ok"': 'Variant = "%s"' % g, "QN = 4": "QN = %d" % (4 if p == "queue" else 3)}, 1, False))
    t0 = time.time()
    with ThreadPoolExecutor(max_workers=5) as ex:
        results = dict(ex.map(tlc_job, jobs))
    ctx.extra["tlc_phase_s"] = round(time.time() - t0, 1)
    ctx.extra["action_coverage"] = {name: {a: c[1] for a, c in r.coverage.items() if c[1] and a[0].isupper() and a != "Init"} for name, r in results.items() if r.coverage and not name.startswith("guard-")}

    for name, what, expect in [("join-" + g, w, e) for g, w, e in JOIN_GUARDS] + [("%s-%s" % (p, g), w, e) for p, g, w, e in PART_GUARDS]:
        r = results["guard-" + name]
        ctx.add_tlc("PipesAlgebra guard " + name, r)
        names = {v["name"] for v in r.violations}
        if not (names & expect):
            raise RuntimeError("the broken design %r (%s) is not rejected by any of %s: the invariants are vacuous" % (name, what, sorted(expect)))
        ctx.extra.setdefault("guards_rejected", {})[name] = sorted(names)

    # ---- Part "join" ----
    total = 0
    for c in JC:
        r = results["join-" + c["name"]]
        req = {"variety": ["Join", "StartCalls", "SweepCall", "JoinFinish"], "any-order": ["Join", "Each", "AnyCall", "JoinFinish"]}.get(c["name"], ())
        ctx.add_tlc("PipesAlgebra join " + c["name"], r, required_actions=req)
        for v in r.violations:
            ctx.violation("spec:%s" % (v["name"] or v["kind"]), "PipesAlgebra.tla (%s) itself violates %s" % (c["name"], v["name"]), v["trace"][:60])
        progs = [j for j in r.json if isinstance(j, dict) and j.get("part") == "join"]
        progs.sort(key=lambda j: json.dumps(j["steps"], sort_keys=True))
        if len(progs) < 100: raise RuntimeError("join %s produced only %d programs" % (c["name"], len(progs)))
        ctx.extra.setdefault("behaviours", {})["join-" + c["name"]] = len(progs)
        for idx, j in enumerate(progs):
            ctx.case(("join", c["name"], showprog(j)))
            replay_join(ctx, c["name"], j, idx)
            total += 1
        mid = progs[len(progs) // 2]
        ctx.sample(dict(part="join", config=c["name"], program=showprog(mid), objects=[dict(kind=o["kind"], str=o["str"], params=o["params"]) for o in mid["objs"]]))

    # ---- the stages ----
    replayers = {"queue": replay_queue, "disk": replay_disk, "list": replay_list, "table": replay_table}
    for part in ("queue", "disk", "list", "table"):
        r = results["part-" + part]
        ctx.add_tlc("PipesAlgebra " + part, r, required_actions=PART_ACTIONS[part])
        for v in r.violations:
            ctx.violation("spec:%s" % (v["name"] or v["kind"]), "PipesAlgebra.tla (%s) itself violates %s" % (part, v["name"]), v["trace"][:60])
        beh = [j for j in r.json if isinstance(j, dict) and j.get("part") == part]
        beh.sort(key=lambda j: json.dumps(j, sort_keys=True))
        if len(beh) < 100: raise RuntimeError("part %s produced only %d behaviours" % (part, len(beh)))
        ctx.extra.setdefault("behaviours", {})[part] = len(beh)
        for idx, j in enumerate(beh):
            ctx.case((part, json.dumps(j.get("steps", j.get("inp")), sort_keys=True), j.get("block"), j.get("pz"), j.get("gz"), j.get("mode"), j.get("batch")))
            replayers[part](ctx, j, idx)
            total += 1
        mid = beh[len(beh) // 2]
        ctx.sample({k: (v if k != "steps" else [dict(op=s["op"], arg=s.get("arg"), res=s.get("res")) for s in v]) for k, v in mid.items()}, limit=10)
    ctx.exhaustive = True
    ctx.traces += total
    ctx.assumptions += [
        "join: stages are not themselves iterable (a composite flattens every argument that list() accepts) and offer exactly one of read / filter / write; Foreach wraps a filter or sink and is not nested inside another Foreach",
        "join: no params key of a stage equals another key followed by its occurrence number (f1 next to two f); where renamed keys would collide the params are not compared",
        "join: Foreach.filter is lazy; when one stage occurs under two Foreach stages of one composite the call numbers inside the tokens are not compared (the order of the calls is not documented), the counts and the structure are",
        "queue: EOFError / BrokenPipeError end a reader / a write silently, any other exception propagates (the repository's tests); the TypeError / AssertionError clauses of the code are not exercised; a blocking read on an empty queue is never made",
        "disk: lines over {a, b} incl. the empty line, LF terminators only; a mode-'w' sink object opens its file once; reading is not specified while a gzip member is open; locations are byte offsets of the (decompressed) text",
        "table: Flatten / Structure / Default on table shaped rows (every row has the cell types of the first); UrlSource is judged by the source object it builds (as the repository's tests do), nothing is fetched"]
