"""C17 - indexed table queries equal a full scan: spec/TableIndex.tla.

TableIndex.tla is Table as a state machine (insert incl. ragged inserts, index = stable multi-key sort
with Missing last, where = views that can be filtered again, where with two keyword conditions, copy,
groupby) whose `where` is DEFINED as the scan semantics Sat.  TLC explores its behaviours (bounded-
exhaustive for the small configurations, -simulate for long mixed histories), checks the design
invariants and emits every history with the table expected after every step.  The driver replays each
history on a real coba.results.core.Table: rows / columns / indexes are compared after every step, every
where is also evaluated on an un-indexed copy (scan path) and on a copy indexed on the queried column
(bisect path), with the operator given positionally and as {op: value}; the same histories are replayed a
second time with the integers mapped order-preservingly to strings."""
import json, random
from .. import tlc, tracecheck

FINISH = dict(level="model_checking",
              rule="a case = one TLC-generated history of Table operations replayed on a real Table (twice: ints, strings); distinct = distinct histories")
M, N = 9, -1


def run(ctx):
    from coba.results.core import Table, Missing
    runs = []
    if ctx.quick:
        runs.append(("some2", {"InitTables <- T2": "InitTables <- SomeTables"}, None))
        runs.append(("mixed-lite3", {"InitTables <- T2": "InitTables <- FewTables", "MaxOps = 2": "MaxOps = 3", "Ops <- IW": "Ops <- AllOps", "Lite = FALSE": "Lite = TRUE"}, None))
        runs.append(("mixed-sim", {"InitTables <- T2": "InitTables <- SomeTables", "MaxOps = 2": "MaxOps = 4", "Ops <- IW": "Ops <- AllOps"}, dict(num=8)))
        runs.append(("where3", {"InitTables <- T2": "InitTables <- Tables3", "MaxOps = 2": "MaxOps = 3", "Ops <- IW": "Ops <- W3"}, None))
        runs.append(("reindex-sim", {"InitTables <- T2": "InitTables <- FewTables", "MaxOps = 2": "MaxOps = 4", "Lite = FALSE": "Lite = TRUE"}, dict(num=150)))
    else:
        runs.append(("reindex-sim", {"InitTables <- T2": "InitTables <- SomeTables", "MaxOps = 2": "MaxOps = 5", "Lite = FALSE": "Lite = TRUE"}, dict(num=3000)))
        runs.append(("where3", {"InitTables <- T2": "InitTables <- Tables3", "MaxOps = 2": "MaxOps = 4", "Ops <- IW": "Ops <- W3"}, None))
        runs.append(("T2x2", {}, None))
        runs.append(("some3-lite", {"InitTables <- T2": "InitTables <- SomeTables", "MaxOps = 2": "MaxOps = 3", "Lite = FALSE": "Lite = TRUE"}, None))
        runs.append(("mixed-lite3", {"InitTables <- T2": "InitTables <- SomeTables", "MaxOps = 2": "MaxOps = 3", "Ops <- IW": "Ops <- AllOps", "Lite = FALSE": "Lite = TRUE"}, None))
        runs.append(("mixed-sim", {"InitTables <- T2": "InitTables <- SomeTables", "MaxOps = 2": "MaxOps = 5", "Ops <- IW": "Ops <- AllOps"}, dict(num=400)))
    total = 0
    for name, sub, sim in runs:
        cfg = tracecheck._cfg("TableIndex.cfg", sub, ctx.scratch, "ti_%s.cfg" % name)
        if sim:
            r = tlc.run("MC_TableIndex", cfg, ctx.scratch, workers=16, simulate=sim, depth=8, seed=ctx.seed, timeout=7200, heap="16g")
        else:
            r = tlc.run("MC_TableIndex", cfg, ctx.scratch, workers=16, timeout=7200, heap="24g")
        ctx.add_tlc("TableIndex_" + name, r)
        for v in r.violations:
            pass; ctx.violation("spec:%s" % (v["name"] or v["kind"]), "TableIndex.tla itself violates %s" % v["name"], v["trace"][:60])
        hists = [h for h in r.json if isinstance(h, list) and h and isinstance(h[0], dict) and h[0].get("op") == "new"]
        if len(hists) < 500: raise RuntimeError("TableIndex %s produced only %d histories" % (name, len(hists)))
        if not sim: ctx.exhaustive = True if ctx.exhaustive is None else ctx.exhaustive
        seen = set()
        for h in hists:
            key = json.dumps(h, sort_keys=True)
            if key in seen: continue
            seen.add(key)
            # a third rendering for histories that use 'match': ints whose decimal digits contain one another (1, 11, 12), so that
            # "the number 1" and "the text 1 somewhere in the cell" are different predicates
            for enc in ("int", "str") + (("int11",) if '"match"' in key else ()):
                ctx.case(key if enc == "int" else None, nontrivial=(enc == "int"))
                bad = replay(h, enc, Table, Missing)
                if bad:
                    sig, what = bad
                    ctx.violation(sig, "%s [values as %s] history=%s" % (what, enc, json.dumps([(s["op"], s["args"]) for s in h])[:400]), dict(history=h, enc=enc))
                    break
        total += len(seen)
        if hists: ctx.sample([(s["op"], s["args"], s["rows"]) for s in hists[len(hists) // 2]], limit=3)
    ctx.traces += total
    ctx.assumptions += ["columns hold one orderable type plus Missing (Python cannot order int against str or None: such an index raises TypeError by construction)",
                        "None appears only in a never-indexed column; ordering arguments are of the column's own type"]


def replay(h, enc, Table, Missing):
    def val(v):
        if v == M: return Missing
        if v == N: return None
        if enc == "int11": return {0: 1, 1: 11, 2: 12}.get(v, v if v < 0 else 100 + v)      # order-preserving, digits overlapping
        return v if enc == "int" else "v%02d" % (v + 10)      # order-preserving: -5 -> v05, 0 -> v10, 3 -> v13
    def rows_of(t): return [tuple(r) for r in t]
    def exp_rows(step): return [tuple(val(x) for x in r) for r in step["rows"]]
    cols = lambda nc: ("a", "b") if nc == 2 else ("a", "b", "c")
    def same_rows(a, b):
        return len(a) == len(b) and all(len(x) == len(y) and all((p is q) if (p is Missing or q is Missing or p is None or q is None) else p == q for p, q in zip(x, y)) for x, y in zip(a, b))
    stale = False      # rows were inserted into an indexed table that do not continue its order (known finding)
    base = Table(columns=cols(h[0]["ncols"]))
    first = exp_rows(h[0])
    if first: base.insert(first)
    cur = base
    nstep = 0
    for step in h[1:]:
        nstep += 1
        op, args = step["op"], step["args"]
        try:
            if op == "index":
                same_claim = tuple(base.indexes) == tuple(args)
                base.index(*args); cur = base
                stale = stale and same_claim      # index() on a table that already claims exactly this index does nothing (known finding); any other index() really sorts
            elif op in ("insert", "insertc"):
                names = ("a", "b", "c")
                dicts = [{names[i]: val(x) for i, x in enumerate(r) if x != M} for r in args]
                base.insert(dicts); cur = base
                if base.indexes:
                    ks = list(zip(*(base[c] for c in base.indexes)))
                    if any(b < a for a, b in zip(ks, ks[1:])): stale = True
            elif op == "copy":
                cur = cur.copy()
            elif op == "groupby":
                got = [(tuple(k), c) for k, c in base.groupby(args[0], "count")]
                exp = [(tuple(val(x) for x in k), c) for k, c in step["rows"]]
                if got != exp: return ("groupby", "step %d groupby(%s,'count') gave %r, expected %r" % (nstep, args[0], got, exp))
                continue
            elif op == "where":
                col, o, x = args
                prev = cur; expset = None
                if o == "pred":
                    S = [val(v) for v in x]
                    f = lambda v, S=S: any((v is s) if (s is Missing or s is None) else (v is not Missing and v is not None and v == s) for s in S)
                    cur = prev.where(**{col: f}); variants = []
                else:
                    a = [val(v) for v in x] if o in ("in", "!in") else val(x)
                    cur = prev.where(comparison=o, **{col: a})
                    variants = [("dict-form", lambda t: t.where(**{col: {o: a}}))]
                    if o == "in": variants.append(("implicit-in", lambda t: t.where(**{col: a})))
                    if o == "=": variants.append(("implicit-eq", lambda t: t.where(**{col: a})))
                exp = exp_rows(step)
                got = rows_of(cur)
                if not same_rows(got, exp): return ("where:" + (o if not stale else "after-unsorted-insert-into-indexed-table"), "step %d where(%s %s %r) on a table indexed %s gave %r, expected (scan) %r" % (nstep, col, o, x, list(prev.indexes), got, exp))
                for nm, f2 in variants:
                    g2 = rows_of(f2(prev))
                    if not same_rows(g2, exp): return ("where:%s:%s" % (o, nm), "step %d where(%s %s %r) given as %s gave %r, expected %r" % (nstep, col, o, x, nm, g2, exp))
                if o != "pred":
                    # the same query on an un-indexed copy (scan path) and on a copy indexed on the queried column (bisect path)
                    prows = rows_of(prev)
                    for nm, mk in (("scan-copy", lambda: Table(columns=prev.columns).insert(prows) if prows else Table(columns=prev.columns)),
                                   ("bisect-copy", lambda: (Table(columns=prev.columns).insert(prows) if prows else Table(columns=prev.columns)).index(col))):
                        if nm == "bisect-copy" and col == "c" and any(r[2] is None for r in prows if len(r) > 2): continue   # None cannot be ordered
                        t2 = mk()
                        want = [r for r in rows_of(t2) if any(same_rows([r], [e]) for e in exp)]
                        g2 = rows_of(t2.where(comparison=o, **{col: a}))
                        if not same_rows(g2, want): return ("where:%s:%s" % (o, nm), "step %d where(%s %s %r) on a %s gave %r, expected %r" % (nstep, col, o, x, nm, g2, want))
            elif op == "where3":
                x1, x2, o3, x3 = args
                cur = cur.where(a=val(x1), b=val(x2), c={o3: val(x3)})
            elif op == "where2":
                o1, x1, o2, x2 = args
                cur = cur.where(a={o1: val(x1)}, b=(val(x2) if o2 == "plain" else {o2: val(x2)}))
            got = rows_of(cur); exp = exp_rows(step)
            if len(cur) != len(got): return (op + ":len", "step %d %s%r: len() says %d, iterating gives %d rows" % (nstep, op, args, len(cur), len(got)))
            if not same_rows(got, exp): return (op if not (stale and op in ("where2", "where3", "index")) else "where:after-unsorted-insert-into-indexed-table", "step %d %s%r: table shows %r, expected %r" % (nstep, op, args, got, exp))
            if tuple(cur.columns) != cols(step["ncols"]): return (op + ":columns", "step %d columns %r expected %r" % (nstep, cur.columns, cols(step["ncols"])))
            if op in ("index", "copy") and tuple(cur.indexes) != tuple(step["idx"]): return (op + ":indexes", "step %d indexes %r expected %r" % (nstep, cur.indexes, step["idx"]))
        except Exception as e:
            if stale and op in ("where", "where2", "where3"): return ("where:after-unsorted-insert-into-indexed-table", "step %d %s%r raised %s" % (nstep, op, args, type(e).__name__))
            return ("%s:raises:%s" % (op if op != "where" else "where:" + args[1], type(e).__name__), "step %d %s%r raised %s: %s" % (nstep, op, args, type(e).__name__, str(e)[:100]))
    return None
