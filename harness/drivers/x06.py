"""X06 - the resumable save archive of environments: spec/EnvSave.tla (+ MC_EnvSave.tla, EnvSave.cfg, EnvSave_live.cfg).

EnvSave.tla is Environments.save / Environments.from_save / ObjectsToZipMember as a state machine: the file = (exists, damaged,
members [number, kind] in directory order); one action per public call (SaveBegin .. Return / refusal, FromSave, SinkWrite) and per
step of save() at which something can interleave or strike: CompareWithFile (absent / equal / subset / mismatch / damaged, with
or without overwrite), Materialize(i), WriteBegin / WriteEnd per member, CrashKill (killed between two member writes), CrashTorn
(killed inside one: the file is damaged), RaiseEnv (an environment's read() raises), plus foreign bytes at the path and deletion.
TLC checks the design facts in every state (member numbers never reused, every environment of self in exactly one place, file =
what was found + what was written, nothing stored is read again, the returned environments are exactly self, an accepted archive
is readable, the logger is the user's whenever no save runs, a refusal touches nothing, the directory only grows at its end,
termination under fairness), rejects four broken designs (two of them are the code as it is today) and prints every behaviour
within the bounds with what each call must return / leave behind.

The driver replays every behaviour on the REAL code: each call on a real zip file, with recording environments (hand-made ones
and a LambdaSimulation pipeline), kills realised by raising a BaseException from a substituted
coba.environments.serialized.ZipFile (before the j-th member is opened = CrashKill; after it was written, the file then being
replaced by a byte image "first k bytes of the new file, rest of the old one" or "first k bytes of the new file" = CrashTorn),
failing environments, foreign bytes, deletion.  After EVERY call it compares outcome, returned environments (params and
interactions against what the original pipelines gave, read twice, and through a separate from_save), the member writes
(numbers, kinds, directory after each single write), the archive parsed independently (header, params, batch sizes), the file's
bytes where the spec says nothing was touched, the number of read() calls of every environment and the identity of
CobaContext.logger.  processes=2 runs on the virtual multiprocessing layer (random schedules) and on real spawned workers: the
observed behaviour must be ONE of the behaviours TLC enumerated for the same inputs.  Objects are reused the way users do: the same
environment / Environments / sink objects across the calls of a behaviour, fresh equal ones, and the Environments returned by
one save() as part of the next one's self."""
import collections, io, json, os, pickle, random, subprocess, sys, zipfile, hashlib, multiprocessing, traceback
from concurrent.futures import ThreadPoolExecutor
from .. import tlc, tracecheck

FINISH = dict(level="model_checking",
              rule="a case = one TLC-generated behaviour (sequence of save / from_save / sink_write / corrupt / delete calls with kills, torn writes and "
                   "failing environments) replayed on the real code in one mode (fresh / same / chained objects; in-process, virtual multi-process with one "
                   "schedule, real spawn), or one byte position of a torn member write; distinct = distinct (configuration, mode, inputs[, schedule / byte])")

VERIF = os.path.dirname(os.path.dirname(os.path.dirname(os.path.abspath(__file__))))


# ------------------------------------------------------------------ the environments (module level: they travel to worker processes)
def _ctx(i): return (i, i + 1)
def _acts(i, c): return [0, 1, 2]
def _rwd(i, c, a): return float((i + a) % 3 == 0)


LOG = []          # (kind, occ) of every read() that started in this interpreter (virtual worker processes share it)


class Boom(ValueError):
    pass


class Kill(BaseException):
    """stands for SIGKILL: not an Exception, so that nothing in the code under test handles it"""


class HandBase:
    """a small hand-made environment"""
    def __init__(self, kind, n): self.kind = kind; self.n = n
    @property
    def params(self): return {"id": self.kind, "n": self.n, "tag": ("k", self.kind), "none": None}
    def read(self):
        for i in range(self.n):
            yield {"context": (self.kind, i), "actions": [0, 1], "rewards": [i % 2, 1 - i % 2]}


class Rec:
    """recording wrapper around an environment: notes every read() and can be told to raise after `fail` interactions"""
    def __init__(self, kind, occ, base, side=None): self.kind = kind; self.occ = occ; self.base = base; self.side = side; self.fail = None
    @property
    def params(self): return self.base.params
    def read(self):
        if self.side:
            with open(self.side, "a") as f: f.write("%d %d\n" % (self.kind, self.occ))
        else:
            LOG.append((self.kind, self.occ))
        n = 0
        for x in self.base.read():
            if self.fail is not None and n >= self.fail: raise Boom("boom %d" % self.kind)
            n += 1
            yield x
        if self.fail is not None: raise Boom("boom %d" % self.kind)


def make_base(kind, ni):
    n = ni[kind - 1]
    if kind == 3:        # a real pipeline: LambdaSimulation | Take (its params come from the pipeline)
        from coba.environments import Environments
        return list(Environments.from_lambda(n + 2, _ctx, _acts, _rwd).take(n))[0]
    return HandBase(kind, n)


_EXP = {}


def expected(ni):
    """kind -> (params, interactions) as the ORIGINAL pipelines give them (read once, before anything is saved)"""
    key = tuple(ni)
    if key not in _EXP:
        from coba.environments import Environments
        d = {}
        for k in range(1, len(ni) + 1):
            e = list(Environments([Rec(k, 0, make_base(k, ni))]))[0]
            d[k] = (dict(e.params), list(e.read()))
            assert len(d[k][1]) == ni[k - 1], (k, len(d[k][1]))
        del LOG[:]
        _EXP[key] = d
    return _EXP[key]


def kind_of(params, exp):
    for k, (p, _) in exp.items():
        if p == params: return k
    return None


# ------------------------------------------------------------------ fault injection from outside: the zip file of serialized.py
class Hook:
    def __init__(self, plan): self.plan = plan; self.opens = 0; self.dirs = []; self.before = None; self.after = None; self.struck = False


def make_kzip(hook):
    class KZip(zipfile.ZipFile):
        def __init__(self, file, mode="r", *a, **k):
            self._x06 = 0
            if mode == "a":
                hook.opens += 1; self._x06 = hook.opens
                if hook.plan and hook.plan[1] == hook.opens:
                    if hook.plan[0] == "kill":
                        hook.struck = True; raise Kill()
                    hook.before = open(file, "rb").read() if os.path.exists(file) else None
            super().__init__(file, mode, *a, **k)

        def close(self):
            j = self._x06; live = self.fp is not None
            super().close()
            if j and live:
                self._x06 = 0
                try: hook.dirs.append(zipfile.ZipFile(self.filename).namelist())
                except Exception as e: hook.dirs.append("unreadable: %r" % (e,))
                if hook.plan and hook.plan[0] == "torn" and hook.plan[1] == j:
                    hook.after = open(self.filename, "rb").read(); hook.struck = True
                    raise Kill()
    return KZip


def torn_image(before, after, style, k):
    """the file a kill inside the write leaves: `inplace` = the first k bytes of the region being rewritten are new, the rest
    is still the old file; `prefix` = only the first k bytes of the new file exist.  None when k is out of range or the image
    equals the file before / after the write (then nothing was torn)."""
    b = before or b""
    if k < 0 or k > len(after): return None
    img = after[:k] + (b[k:] if style == "inplace" else b"")
    if img == after or (before is not None and img == before): return None
    return img


def raw_members(path):
    """the archive parsed WITHOUT coba: [(name, [objects])]"""
    out = []
    with zipfile.ZipFile(path) as z:
        for name in z.namelist():
            data = z.read(name); bio = io.BytesIO(data); objs = []
            while bio.tell() < len(data): objs.append(pickle.load(bio))
            out.append((name, objs))
    return out


# ------------------------------------------------------------------ one behaviour (or the behaviours TLC gives for one input) on the real code
def input_key(b):
    return json.dumps([[c["op"], c.get("self"), c.get("procs"), c.get("ow"), c.get("fault")] for c in b["calls"]], sort_keys=True)


def show_call(c):
    if c["op"] != "save": return "%s(%s)" % (c["op"], c["self"] if c["op"] == "sink_write" else "")
    f = c["fault"]
    return "save(self=%s, processes=%d, overwrite=%s)%s" % (c["self"], c["procs"], c["ow"], "" if f["t"] == "none" else
            " [%s]" % {"kill": "killed before member write %d", "torn": "killed inside member write %d", "readfail": "environment %d raises in read()"}[f["t"]] % f["at"])


def show(b): return " ; ".join(show_call(c) for c in b["calls"])


def pairs(a): return [(m["num"], m["kind"]) for m in a]


class Player:
    def __init__(self, cands, opt):
        self.cands = list(cands); self.opt = opt; self.ni = cands[0]["ni"]; self.batches = cands[0]["batches"]
        self.exp = expected(self.ni)
        self.rng = random.Random(opt["seed"])
        self.path = opt["path"]; self.side = opt.get("side")
        self.mode = opt["mode"]; self.impl = opt.get("impl", "vmp")
        self.pool = {}; self.ecache = {}; self.sink = None
        self.prev_ret = None; self.prev_arch = []
        self.img = None            # the bytes the driver itself put at the path (foreign / torn): they must stay while the spec says "damaged"
        self.viol = []; self.stats = collections.Counter(); self.detail = {}

    # ---- helpers
    def bad(self, sig, what, ci):
        self.viol.append((sig, "%s   [call %d of: %s; objects: %s%s]" % (what, ci + 1, show(self.cands[0]), self.mode,
                          "" if not any(c.get("procs") == 2 for c in self.cands[0]["calls"]) else "; processes=2 on " + self.impl),
                          dict(behaviour=self.cands[0], call=ci + 1, mode=self.mode, impl=self.impl, seed=self.opt["seed"], detail=self.detail)))

    def reads_since(self, mark):
        if self.side:
            lines = open(self.side).read().split("\n") if os.path.exists(self.side) else []
            ev = [tuple(map(int, l.split())) for l in lines if l.strip()]
        else:
            ev = list(LOG)
        return collections.Counter(ev[mark:]), len(ev)

    def build_self(self, kinds, chain_ok):
        """the environment objects of one save(): fresh / the same objects as before / the previous call's returned environments first"""
        from coba.environments import Environments
        occ = collections.Counter(); envs = []
        chained = (self.mode == "chain" and chain_ok and self.prev_ret is not None and len(self.prev_ret[0]) >= 1
                   and kinds[:len(self.prev_ret[0])] == self.prev_ret[0])
        for i, k in enumerate(kinds):
            occ[k] += 1; key = (k, occ[k])
            if chained and i < len(self.prev_ret[0]):
                e = Rec(k, occ[k], self.prev_ret[1][i], self.side)
            elif self.mode == "same":
                e = self.pool.get(key) or self.pool.setdefault(key, Rec(k, occ[k], make_base(k, self.ni), self.side))
            else:
                e = Rec(k, occ[k], make_base(k, self.ni), self.side)
            e.fail = None
            envs.append(e)
        if self.mode == "same":
            E = self.ecache.get(tuple(kinds)) or self.ecache.setdefault(tuple(kinds), Environments(envs))
        elif self.mode == "chain" and not chained and len(kinds) >= 2:
            E = Environments(envs[:1]) + Environments.from_custom(*envs[1:])          # the container's own ways of being put together
        else:
            E = Environments(envs)
        if chained: self.stats["chained-self"] += 1
        return E, envs

    def new_process(self):
        """after a kill everything lives in a new process"""
        self.pool.clear(); self.ecache.clear(); self.sink = None; self.prev_ret = None

    def check_returned(self, envs_obj, want_kinds, ci, what):
        """the environments an API call returned: kinds in order, params and interactions twice"""
        try:
            got = list(envs_obj)
            params = [dict(e.params) for e in got]
        except Exception as e:
            return ("ret", "%s cannot be listed: %s: %s" % (what, type(e).__name__, e))
        kinds = [kind_of(p, self.exp) for p in params]
        if kinds != want_kinds:
            return ("ret", "%s holds the environments %s (by params), expected %s" % (what, kinds, want_kinds))
        if len(envs_obj) != len(want_kinds):
            return ("ret", "len(%s) = %d, expected %d" % (what, len(envs_obj), len(want_kinds)))
        for rnd in (1, 2):
            for e, k in zip(got, kinds):
                try:
                    inter = list(e.read()); p = dict(e.params)
                except Exception as ex:
                    return ("reread" if rnd == 2 else "content", "reading environment (kind %d) of %s, time %d: %s: %s" % (k, what, rnd, type(ex).__name__, ex))
                if p != self.exp[k][0] or inter != self.exp[k][1]:
                    return ("reread" if rnd == 2 else "content", "environment (kind %d) of %s, read %d: %d interactions / params %r, the original pipeline gave %d / %r%s" % (
                        k, what, rnd, len(inter), p, len(self.exp[k][1]), self.exp[k][0], "" if len(inter) != len(self.exp[k][1]) else " (interactions differ)"))
        return None

    def file_state(self):
        """-> (exists, members or None, error)"""
        if not os.path.exists(self.path): return False, [], None
        try:
            mem = raw_members(self.path)
        except Exception as e:
            return True, None, "%s: %s" % (type(e).__name__, e)
        out = []
        for name, objs in mem:
            ok = (name.isdigit() and str(int(name)) == name and len(objs) >= 2 and isinstance(objs[0], dict) and objs[0].get("version") == 2
                  and isinstance(objs[1], dict) and all(isinstance(b, list) for b in objs[2:]))
            k = kind_of(objs[1], self.exp) if ok else None
            if k is None: out.append((name, None, "not a member of the documented form: %r" % (objs[:2],))); continue
            sizes = [len(b) for b in objs[2:]]
            flat = [x for b in objs[2:] for x in b]
            fm = None
            if sizes != self.batches[k - 1]: fm = "batch sizes %s, expected %s" % (sizes, self.batches[k - 1])
            elif flat != self.exp[k][1]: fm = "the stored interactions differ from what the pipeline gave"
            out.append((int(name), k, fm))
        return True, out, None

    # ---- the calls
    def run(self):
        from coba.context import CobaContext
        import coba.environments.serialized as SER
        from coba.context import NullLogger
        old_logger = CobaContext.logger; old_zip = SER.ZipFile
        CobaContext.logger = NullLogger()
        try:
            n = len(self.cands[0]["calls"])
            for ci in range(n):
                ops = {c["calls"][ci]["op"] for c in self.cands}
                assert len(ops) == 1, ops
                op = ops.pop()
                self.stats["op=" + op] += 1
                ok = self.save(ci) if op == "save" else self.ext(ci, op)
                if not ok: break
        finally:
            SER.ZipFile = old_zip; CobaContext.logger = old_logger
        return self

    def make_logger(self):
        from coba.context import NullLogger, IndentLogger, BasicLogger
        from coba.pipes import ListSink
        which = self.opt.get("logger", 0) % 3
        sink = ListSink()
        return (NullLogger(), None) if which == 0 else (IndentLogger(sink), sink) if which == 1 else (BasicLogger(sink), sink)

    def save(self, ci):
        from coba.context import CobaContext
        from coba.exceptions import CobaException
        import coba.environments.serialized as SER
        from .. import vsched, vmp
        c0 = self.cands[0]["calls"][ci]
        kinds, procs, ow, fault = c0["self"], c0["procs"], c0["ow"], c0["fault"]
        E, envs = self.build_self(kinds, chain_ok=True)
        if fault["t"] == "readfail": envs[fault["at"] - 1].fail = self.ni[kinds[fault["at"] - 1] - 1] // 2
        hook = Hook((fault["t"], fault["at"]) if fault["t"] in ("kill", "torn") else None)
        SER.ZipFile = make_kzip(hook)
        before_bytes = open(self.path, "rb").read() if os.path.exists(self.path) else None
        L, lsink = self.make_logger()
        _, mark = self.reads_since(0)
        st = {}
        def go():
            CobaContext.logger = L
            try: return ("ret", E.save(self.path, processes=procs, overwrite=ow))
            except vsched._Aborted: raise
            except Kill: return ("killed", None)
            except CobaException as e: return ("raise:corrupt" if "corrupt" in str(e) else "raise:mismatch", e)
            except Boom as e: return ("raise:env", e)
            except BaseException as e: return ("raise:%s" % type(e).__name__, e)
            finally: st["same"] = CobaContext.logger is L; st["logger"] = type(CobaContext.logger).__name__
        try:
            if procs == 1 or self.impl == "real":
                out, val = go()
            else:
                sseed = self.rng.randrange(1 << 30); self.detail["sched_seed_call_%d" % (ci + 1)] = sseed
                o, _ = vmp.run_scheduled(go, vsched.random_policy(random.Random(sseed)))
                if o["verdict"] != "ok" and hook.struck: out, val = "killed", None      # the kill was delivered: the process is gone; what its in-process stand-in does afterwards (the multiprocessor's clean-up waiting for workers) is not behaviour under a kill
                elif o["verdict"] != "ok": out, val = "hang", o["verdict"]
                elif "error" in o: out, val = "raise:%s" % type(o["error"]).__name__, o["error"]
                else: out, val = o["value"]
        finally:
            SER.ZipFile = zipfile.ZipFile
            for e in envs: e.fail = None
        self.stats["fault=" + fault["t"]] += 1; self.stats["procs=%d" % procs] += 1
        # a torn write: the driver puts the byte image in place of the file
        if fault["t"] == "torn" and hook.struck:
            img = None
            self.torn_len = len(hook.after)
            if self.opt.get("torn"):
                img = torn_image(hook.before, hook.after, *self.opt["torn"])
                if img is None: self.out_of_range = True; return False
            else:
                for _ in range(200):
                    style = self.rng.choice(["inplace", "prefix"]); k = self.rng.randrange(0, len(hook.after))
                    img = torn_image(hook.before, hook.after, style, k)
                    if img is not None: self.detail["torn_call_%d" % (ci + 1)] = [style, k]; break
            open(self.path, "wb").write(img); self.img = img
        exists, members, ferr = self.file_state()
        # ---- which of the behaviours TLC gives for these inputs is this one?
        obs_ret = None
        if out == "ret":
            try: obs_ret = [kind_of(dict(e.params), self.exp) for e in val]
            except Exception as e: obs_ret = "unreadable: %s: %s" % (type(e).__name__, e)
        def matches(c):
            if c["out"] != out or c["exists"] != exists: return False
            if c["damaged"]: return True
            if members is None: return False
            if [(m[0], m[1]) for m in members] != pairs(c["arch"]): return False
            if out == "ret" and obs_ret != c["ret"]: return False
            if len(hook.dirs) != len(c["writes"]) + (1 if (c["fault"]["t"] == "torn" and c["out"] == "killed") else 0): return False
            return True
        keep = [b for b in self.cands if matches(b["calls"][ci])]
        c = (keep or self.cands)[0]["calls"][ci]
        ctxname = c["cmp"] + ("+overwrite" if c["unl"] else "")
        self.stats["cmp=" + c["cmp"] + ("+ow" if c["unl"] else "")] += 1; self.stats["out=" + c["out"]] += 1
        base = "save:" + ctxname
        if not keep:
            n_c = len(self.cands)
            alt = "" if n_c == 1 else " (none of the %d behaviours the specification allows for these inputs; compared with the first)" % n_c
            if out == "hang": self.bad("save:hang", "save() did not terminate under the virtual scheduler: %s" % val, ci); return False
            if not kinds and out.startswith("raise:") and c["out"] == "ret":
                self.bad("save:empty-environments:raises", "save() of an Environments without environments raised %s: %s (expected: returns an empty Environments, the path holds an empty archive)%s" % (
                    type(val).__name__, val, alt), ci); return False
            got = "save() %s; %d member writes happened; afterwards the file %s" % (
                "returned the environments %s" % (obs_ret,) if out == "ret" else "was killed" if out == "killed" else "raised %s (%s: %s)" % (out[6:], type(val).__name__, str(val)[:120]),
                len(hook.dirs), "does not exist" if not exists else "is not a readable archive (%s)" % ferr if members is None else "holds the members (number, kind) %s" % [(m[0], m[1]) for m in members])
            want = "%s; %d member writes; afterwards the file %s" % (
                {"ret": "it returns %s" % c["ret"], "killed": "the kill strikes"}.get(c["out"], "it raises " + c["out"][6:]), len(c["writes"]),
                "does not exist" if not c["exists"] else "is unreadable" if c["damaged"] else "holds %s" % pairs(c["arch"]))
            self.bad(base + ":result", "%s.  Expected: %s%s" % (got, want, alt), ci); return False
        self.cands = keep
        # ---- everything else is compared with the behaviour that matched
        for m in (members or []):
            if m[2]: self.bad(base + ":member-format", "member %s (kind %s): %s" % (m[0], m[1], m[2]), ci); return False
        if c["damaged"] and members is not None:
            self.bad("file:damaged-image-readable", "the file left by a kill inside a member write / foreign bytes is read by zipfile as an archive with the members %s" % ([(m[0], m[1]) for m in members],), ci); return False
        if not c["damaged"]:
            # the directory after every single member write
            start = [] if c["unl"] else [str(nm) for nm, _ in pairs(self.prev_arch)]
            for j, d in enumerate(hook.dirs[:len(c["writes"])]):
                want = start + [str(w["num"]) for w in c["writes"][:j + 1]]
                if d != want:
                    self.bad(base + ":step", "after member write %d of this call the directory of the file was %s, expected %s" % (j + 1, d, want), ci); return False
        if c["damaged"] and self.img is not None and open(self.path, "rb").read() != self.img:
            self.bad(base + ":bytes", "the unreadable file was modified although the call %s" % c["out"], ci); return False
        torn_now = c["fault"]["t"] == "torn" and out == "killed"
        if not c["writes"] and not c["unl"] and before_bytes is not None and not torn_now and exists:
            if open(self.path, "rb").read() != before_bytes:
                self.bad(base + ":bytes", "the call wrote no member (%s) but the file's bytes changed" % c["out"], ci); return False
        if out == "ret":
            r = self.check_returned(val, c["ret"], ci, "what save() returned") or self.check_returned(
                __import__("coba.environments", fromlist=["Environments"]).Environments.from_save(self.path), c["ret"], ci, "from_save(path) after the save")
            if r: self.bad(base + ":" + r[0], r[1], ci); return False
        # reads of this call: nothing stored is read, nothing twice; after a completed save everything else exactly once
        cnt, _ = self.reads_since(mark)
        occ = collections.Counter(); per = []
        for k in kinds:
            occ[k] += 1; per.append(cnt.get((k, occ[k]), 0))
        if out == "ret" and per != c["reads"]:
            self.bad(base + ":reads", "read() calls per environment of self during this save: %s, expected %s (already stored: positions %s)" % (per, c["reads"], c["stored"]), ci); return False
        if out != "killed":
            for i, nreads in enumerate(per):
                if nreads > 1 or ((i + 1) in c["stored"] and nreads > 0):
                    self.bad(base + ":reads", "read() calls per environment of self during this save: %s; positions %s were already stored and no environment may be read twice" % (per, c["stored"]), ci); return False
        # the process-global logger
        if out != "killed":
            self.stats["logger-checked"] += 1
            if not st.get("same", True):
                self.bad("save:logger-not-restored", "CobaContext.logger is a %s after save() %s, it was the user's %s before" % (st.get("logger"), "returned" if out == "ret" else "raised " + out[6:], type(L).__name__), ci)
            elif lsink is not None:
                n0 = len(lsink.items); L.log("tail")
                if lsink.items[n0:] != ["tail"]:
                    self.bad("save:logger-state", "after save() the user's logger wrote %r for log('tail')" % (lsink.items[n0:],), ci)
        if out == "killed": self.new_process()
        self.prev_ret = (c["ret"], list(val)) if out == "ret" else None
        self.prev_arch = c["arch"]
        if not c["damaged"]: self.img = None
        return True

    def ext(self, ci, op):
        from coba.environments import Environments
        from coba.environments.serialized import ObjectsToZipMember, EnvironmentsToObjects
        c = self.cands[0]["calls"][ci]
        assert all(b["calls"][ci] == c for b in self.cands)
        if op == "corrupt":
            self.img = self.rng.choice([b"abc", b"", b"PK\x03\x04 not a zip", b"PK\x05\x06" + b"\x00" * 10])
            open(self.path, "wb").write(self.img)
        elif op == "delete":
            os.remove(self.path); self.img = None
        elif op == "from_save":
            try: val = Environments.from_save(self.path); out = "ret"
            except Exception as e: val = e; out = "raise"
            if out != c["out"]:
                self.bad("from_save:out", "from_save %s, expected it to %s" % ("returned" if out == "ret" else "raised %s: %s" % (type(val).__name__, val), "return %s" % c["ret"] if c["out"] == "ret" else "raise (the file %s)" % ("is unreadable" if c["exists"] else "does not exist")), ci); return False
            if out == "ret":
                r = self.check_returned(val, c["ret"], ci, "what from_save returned")
                if r: self.bad("from_save:" + r[0], r[1], ci); return False
        elif op == "sink_write":
            reused = self.mode == "same"
            E, envs = self.build_self(c["self"], chain_ok=False)
            objs = [next(iter(EnvironmentsToObjects().filter(e))) for e in E]
            if reused:
                if self.sink is None: self.sink = ObjectsToZipMember(self.path)
                sink = self.sink
            else:
                sink = ObjectsToZipMember(self.path)
            tag = "reused-sink" if reused else "fresh-sink"
            self.stats["sink=" + tag] += 1
            try: sink.write(objs)
            except Exception as e:
                self.bad("sink_write:%s:raises" % tag, "ObjectsToZipMember.write raised %s: %s" % (type(e).__name__, e), ci); return False
            exists, members, ferr = self.file_state()
            if members is None or [(m[0], m[1]) for m in members] != pairs(c["arch"]):
                self.bad("sink_write:%s:member-number-reused" % tag if members is not None and len({m[0] for m in members}) < len(members) else "sink_write:%s:arch" % tag,
                         "%s: after the write the archive holds the members (number, kind) %s, expected %s" % (
                             "an ObjectsToZipMember object that has written before / was made before the file changed" if reused else "a new ObjectsToZipMember", members if members is None else [(m[0], m[1]) for m in members], pairs(c["arch"])), ci); return False
            for m in members:
                if m[2]: self.bad("sink_write:member-format", "member %s (kind %s): %s" % (m[0], m[1], m[2]), ci); return False
        exists, members, ferr = self.file_state()
        if exists != c["exists"] or (not c["damaged"] and (members is None or [(m[0], m[1]) for m in members] != pairs(c["arch"]))):
            self.bad(op + ":file", "after %s the file: exists=%s members=%s, expected exists=%s members=%s" % (op, exists, members, c["exists"], pairs(c["arch"])), ci); return False
        if op in ("corrupt", "delete"): self.prev_ret = None
        self.prev_arch = c["arch"]
        if not c["damaged"]: self.img = None
        return True


def play(cands, opt):
    """-> (violations, stats, out_of_range)"""
    if os.path.exists(opt["path"]): os.remove(opt["path"])
    if opt.get("side") and os.path.exists(opt["side"]): os.remove(opt["side"])
    del LOG[:]
    p = Player(cands, opt)
    try:
        p.run()
    except Exception:
        p.viol.append(("driver:error", "the replay itself failed: %s" % traceback.format_exc()[-1500:], dict(behaviour=cands[0], opt={k: v for k, v in opt.items()})))
    return p.viol, p.stats, getattr(p, "out_of_range", False), getattr(p, "torn_len", None)


# ------------------------------------------------------------------ worker side of the process pool
def _work(job):
    try:
        return _work_(job)
    except BaseException:
        return [(("error",), [("driver:error", "a replay worker failed: %s" % traceback.format_exc()[-1500:], None)], 0)], collections.Counter()


def _work_(job):
    """job = (worker scratch dir, file of tasks); task = (case key, cands, opt) -> [(key, violations, n)], stats"""
    d, fn = job
    with open(fn, "rb") as f: tasks = pickle.load(f)
    os.makedirs(d, exist_ok=True)
    sys.unraisablehook = lambda *a: None        # generators of aborted virtual schedules are finalised outside the scheduler
    import threading; threading.excepthook = lambda *a: None
    res = []; stats = collections.Counter()
    for key, cands, opt in tasks:
        opt = dict(opt, path=os.path.join(d, "envs.zip"))
        if opt.get("sweep"):
            # every byte position of one torn write, both image styles
            v, _, _, tlen = play(cands, dict(opt, torn=("prefix", 0)))
            n = 0
            if tlen is not None: v = []
            for style in (("inplace", "prefix") if tlen is not None else ()):
                for k in range(0, (tlen or 0) + 1):
                    vv, s, oor, _ = play(cands, dict(opt, torn=(style, k)))
                    if oor: stats["sweep-not-torn"] += 1; continue
                    n += 1; stats.update(s)
                    v += [(sig, what + " [torn image: %s, k=%d of %d]" % (style, k, tlen), rep) for sig, what, rep in vv]
            res.append((key, v, n)); stats["sweep-images"] += n
        else:
            v, s, _, _ = play(cands, opt)
            stats.update(s); res.append((key, v, 1))
    return res, stats


REAL_SCRIPT = r"""
import sys, json
sys.path.insert(0, %r)
from harness.drivers import x06
if __name__ == '__main__':
    job = json.load(open(sys.argv[1]))
    v, s, _, _ = x06.play(job['cands'], job['opt'])
    print(json.dumps(dict(viol=[[a, b, c] for a, b, c in v], stats=dict(s)), default=str))
"""


# ------------------------------------------------------------------ the check
GUARDS = [("pop_before_unlink", "on mismatch + overwrite only the environments not yet matched are written (as coded)", {"Partition", "ReturnedIsSelf", "ArchIsStoredPlusDone"}),
          ("no_finally", "the logger is not restored when an environment's exception leaves save() (as coded)", {"LoggerRestored"}),
          ("rewrite_all", "on subset everything is written again", {"ArchIsStoredPlusDone", "NoRematerialize", "ReturnedIsSelf"}),
          ("num_from_zero", "member numbers start at 0 in every save", {"NumsIncreasing"})]
ACTIONS = ["DoSave", "CompareWithFile", "DoMaterialize", "WriteBegin", "WriteEnd", "CrashKill", "CrashTorn", "RaiseEnv", "Return", "Forget", "FromSave", "SinkWrite", "Corrupt", "Delete"]


def configs(ctx):
    q = ctx.quick
    C = []
    def add(name, selfset, procs, faults, ext, calls, ni="NI3", ow="OwBoth", modes=("fresh", "same", "chain"), sample=None, required=(), simulate=None, sample_modes=None):
        C.append(dict(name=name, modes=modes, sample=sample, required=required, procs=procs, simulate=simulate, sample_modes=sample_modes or {}, sub={
            "NI <- NI3": "NI <- " + ni, "SelfSet <- SelfB": "SelfSet <- " + selfset, "ProcSet <- P1": "ProcSet <- " + procs, "OwSet <- OwBoth": "OwSet <- " + ow,
            "FaultSet <- FAll": "FaultSet <- " + faults, "ExtSet <- ESome": "ExtSet <- " + ext, "MaxCalls = 2": "MaxCalls = %d" % calls}))
    add("p1-wide", "SelfAq" if q else "SelfA", "P1", "FAll", "EAll", 2, required=ACTIONS, sample_modes=dict(same=0.5, chain=ctx.pick(0.2, 1.0)))
    add("p1-deep", "SelfQ" if q else "SelfQ2", "P1", "FAll", "ESome", 3, modes=("fresh", "same"), simulate=dict(num=400, depth=60) if q else None, sample_modes=dict(same=ctx.pick(0.5, 0.2)))
    add("p1-sink", "SelfSink", "P1", "FCrash", "ESink", 2 if q else 3, modes=("fresh", "same"), sample_modes=dict(fresh=0.5, same=ctx.pick(1.0, 0.5)))
    add("p1-batch", "SelfBatch", "P1", "FCrash", "ENone", 2, ni="NI5", modes=("fresh",) if q else ("fresh", "same"), sample=ctx.pick(250, None))
    add("p2", "SelfQ2" if q else "SelfC", "P2", "FAll", "ESome" if q else "ENone", 2, modes=("fresh", "same"), sample=ctx.pick(220, 2000))
    add("p1-many", "SelfMany", "P1", "FKill", "ENone", 2, modes=("fresh",), sample=ctx.pick(120, 600))
    if not q:
        add("p1-other", "SelfD", "P1", "FAll", "EAll", 2, sample_modes=dict(same=0.3, chain=0.3))
        add("p1-long", "SelfQ", "P1", "FAll", "ESome", 4, modes=("fresh", "same"), simulate=dict(num=3000, depth=80))
        add("p2-deep", "SelfQ2", "P2", "FRead", "ENone", 3, ow="OwNo", modes=("fresh", "same"), sample=800)
    return C


def run(ctx):
    C = configs(ctx)
    NCH = 12                                   # chunk files per configuration
    lock_free = {}

    # ---- 1. TLC: the protocol, its guards, liveness; the behaviours.  Each configuration's behaviours are turned into replay
    #         tasks and written to chunk files at once, so that only a few configurations are in memory at any time ----
    def prepare(c, r):
        groups = collections.OrderedDict()
        for j in sorted((j for j in r.json if isinstance(j, dict) and "calls" in j), key=lambda j: json.dumps(j, sort_keys=True)):
            groups.setdefault(input_key(j), []).append(j)
        info = dict(inputs=len(groups), behaviours=sum(len(x) for x in groups.values()), files=[], real=[], sample=None)
        keys = list(groups)
        if c["sample"] and len(keys) > c["sample"]:
            keys = sorted(random.Random(ctx.seed + 7).sample(keys, c["sample"]))
        tasks = []
        for n, k in enumerate(keys):
            cands = groups[k]
            has_p2 = any(cl.get("procs") == 2 for cl in cands[0]["calls"])
            for mode in c["modes"]:
                frac = c["sample_modes"].get(mode, 1.0)
                if frac < 1.0 and (int(hashlib.sha1((mode + k).encode()).hexdigest()[:6], 16) % 1000) >= frac * 1000: continue
                for sidx in range(1 if not has_p2 else ctx.pick(1, 2)):
                    seed = (ctx.seed * 1000003 + int(hashlib.sha1((c["name"] + mode + k).encode()).hexdigest()[:8], 16) + sidx) % (1 << 30)
                    tasks.append(((c["name"], mode, hashlib.sha1(k.encode()).hexdigest()[:16], sidx), cands, dict(mode=mode, seed=seed, logger=n + sidx, impl="vmp")))
        if c["name"] == "p1-wide":
            # every byte position of a torn write (both image styles), resumed with and without overwrite
            sweeps = []; seen = set()
            for k, cands in groups.items():
                c1, c2 = cands[0]["calls"]
                if c1["op"] == "save" and c1["fault"]["t"] == "torn" and c2["op"] == "save" and c2["fault"]["t"] == "none" and c2["self"] == c1["self"] and len(c1["self"]) >= 2 and c1["out"] == "killed":
                    sk = (tuple(c1["self"]), c1["fault"]["at"], c2["ow"])
                    if sk in seen: continue
                    seen.add(sk); sweeps.append((k, cands))
            random.Random(ctx.seed).shuffle(sweeps)
            for k, cands in sweeps[:ctx.pick(2, 8)]:
                tasks.append((("sweep", hashlib.sha1(k.encode()).hexdigest()[:16]), cands, dict(mode="fresh", seed=ctx.seed, logger=0, sweep=True)))
        if c["name"] == "p2":
            def pick(pred, n):
                ks = [k for k in groups if pred(groups[k][0]["calls"])]
                return random.Random(ctx.seed + 11).sample(ks, min(n, len(ks)))
            for k in (pick(lambda cs: all(x["op"] == "save" and x["fault"]["t"] == "none" for x in cs) and len(cs[0]["self"]) >= 2, ctx.pick(2, 8))
                      + pick(lambda cs: cs[0]["op"] == "save" and cs[0]["fault"]["t"] == "readfail" and cs[1]["op"] == "save" and cs[1]["fault"]["t"] == "none" and len(cs[0]["self"]) >= 2, ctx.pick(2, 8))):
                info["real"].append(groups[k])
        if c["name"] == "p1-deep" and groups:
            b0 = next(iter(groups.values()))[0]
            info["sample"] = dict(behaviour=show(b0), expected=[dict(out=x["out"], ret=x.get("ret"), archive=pairs(x["arch"]), damaged=x["damaged"]) for x in b0["calls"]])
        for i in range(NCH):
            part = tasks[i::NCH]
            if not part: continue
            fn = os.path.join(ctx.scratch, "tasks_%s_%d.pkl" % (c["name"], i))
            with open(fn, "wb") as f: pickle.dump(part, f, protocol=pickle.HIGHEST_PROTOCOL)
            info["files"].append(fn)
        info["tasks"] = len(tasks)
        return info

    def tlc_job(job):
        name, base, sub, kw, c = job
        cfg = tracecheck._cfg(base, sub, ctx.scratch, "es_%s.cfg" % name)
        r = tlc.run("MC_EnvSave", cfg, ctx.scratch, timeout=1700, heap="4g", **kw)
        info = prepare(c, r) if c else None
        r.json = []; r.out = ""                 # the behaviours now live in the chunk files
        return name, (r, info)
    jobs = [(c["name"], "EnvSave.cfg", c["sub"], dict(workers=4 if c["simulate"] else 2, coverage=bool(c["required"]), **(dict(simulate=dict(num=c["simulate"]["num"]), depth=c["simulate"]["depth"], seed=ctx.seed) if c["simulate"] else {})), c) for c in C]
    for g, _, _ in GUARDS:
        jobs.append(("guard-" + g, "EnvSave.cfg", {'Variant = "ok"': 'Variant = "%s"' % g, "Record = TRUE": "Record = FALSE"}, dict(workers=1), None))
    jobs.append(("live", "EnvSave_live.cfg", {} if not ctx.quick else {"MaxCalls = 3": "MaxCalls = 2"}, dict(workers=2), None))
    with ThreadPoolExecutor(max_workers=3) as ex:
        results = dict(ex.map(tlc_job, jobs))
    ctx.extra["tlc_wall_s"] = {k: round(v[0].wall, 1) for k, v in results.items()}
    for g, what, expect in GUARDS:
        r = results["guard-" + g][0]; ctx.add_tlc("EnvSave guard " + g, r)
        names = {v["name"] for v in r.violations}
        if not (names & expect):
            raise RuntimeError("the broken design %r (%s) is not rejected by any of %s: the invariants are vacuous (TLC reported %s)" % (g, what, sorted(expect), sorted(names)))
    ctx.extra["guards_rejected"] = {g: sorted({v["name"] for v in results["guard-" + g][0].violations}) for g, _, _ in GUARDS}
    r = results["live"][0]; ctx.add_tlc("EnvSave liveness (FairSpec, Terminates)", r)
    for v in r.violations:
        ctx.violation("spec:%s" % (v["name"] or v["kind"]), "EnvSave.tla (liveness configuration) violates %s" % (v["name"] or v["kind"]), v["trace"][:60])
    files = []; real = []
    for c in C:
        r, info = results[c["name"]]
        ctx.add_tlc("EnvSave " + c["name"], r, required_actions=c["required"])
        for v in r.violations:
            ctx.violation("spec:%s" % (v["name"] or v["kind"]), "EnvSave.tla (%s) itself violates %s" % (c["name"], v["name"]), v["trace"][:60])
        if info["inputs"] < 20: raise RuntimeError("EnvSave %s produced only %d behaviours" % (c["name"], info["inputs"]))
        files += info["files"]; real += info["real"]
        if info["sample"]: ctx.sample(info["sample"])
    ctx.exhaustive = True      # the configurations without `simulate` are enumerated completely by TLC; `sampled_configurations` says which are replayed in part
    ctx.extra["sampled_configurations"] = [c["name"] for c in C if c["simulate"] or c["sample"]]
    ctx.extra["behaviours"] = {c["name"]: {k: results[c["name"]][1][k] for k in ("inputs", "behaviours", "tasks")} for c in C}
    import time as _t; ctx.extra["tlc_done_at_s"] = round(_t.time() - ctx.t0, 1)

    # ---- 2. every behaviour on the real code (a pool of worker processes; each has its own file) ----
    jobs = [(os.path.join(ctx.scratch, "w%d" % i), fn) for i, fn in enumerate(files)]
    stats = collections.Counter()
    from concurrent.futures import ProcessPoolExecutor
    with ProcessPoolExecutor(max_workers=8, mp_context=multiprocessing.get_context("fork")) as pool:
        for res, s in pool.map(_work, jobs):
            stats.update(s)
            for key, viols, n in res:
                if key[0] == "sweep":
                    for i in range(n): ctx.case(("sweep", key[1], i))
                elif key[0] != "error":
                    ctx.case(key)
                ctx.traces += n
                for sig, what, rep in viols: ctx.violation(sig, what, rep)
    ctx.extra["replay_done_at_s"] = round(_t.time() - ctx.t0, 1)

    # ---- 3. real worker processes (spawn) for processes=2 ----
    script = os.path.join(ctx.scratch, "x06_real.py"); open(script, "w").write(REAL_SCRIPT % VERIF)
    nreal = 0
    for i, cands in enumerate(real):
        opt = dict(mode="same" if i % 2 else "fresh", seed=ctx.seed + i, logger=1 + i, impl="real", path=os.path.join(ctx.scratch, "real.zip"), side=os.path.join(ctx.scratch, "real.side"))
        jf = os.path.join(ctx.scratch, "x06_job.json"); json.dump(dict(cands=cands, opt=opt), open(jf, "w"))
        ctx.case(("real", input_key(cands[0]), opt["mode"])); nreal += 1
        try:
            p = subprocess.run([sys.executable, "-W", "ignore", script, jf], capture_output=True, text=True, timeout=600)
            d = json.loads(p.stdout.strip().splitlines()[-1])
        except subprocess.TimeoutExpired:
            ctx.violation("save:real-spawn:hang", "a save(processes=2) behaviour on real worker processes did not end within 600 s: %s" % show(cands[0]), dict(behaviour=cands[0])); continue
        except Exception:
            raise RuntimeError("real multi-process run failed: %s %s" % (p.stdout[-500:], p.stderr[-2000:]))
        stats.update({"real:" + a: b for a, b in d["stats"].items()})
        for sig, what, rep in d["viol"]: ctx.violation(sig, what, rep)
    ctx.traces += nreal
    ctx.extra["real_spawn_runs"] = nreal
    ctx.extra["exercised_on_the_real_code"] = dict(sorted(stats.items()))
    need = ["op=save", "op=from_save", "op=sink_write", "op=corrupt", "op=delete", "cmp=absent", "cmp=equal", "cmp=subset", "cmp=mismatch", "cmp=mismatch+ow",
            "cmp=damaged", "cmp=damaged+ow", "fault=kill", "fault=torn", "fault=readfail", "out=ret", "out=killed", "out=raise:env", "out=raise:mismatch", "out=raise:corrupt",
            "procs=2", "chained-self", "sink=reused-sink", "sink=fresh-sink", "sweep-images", "logger-checked", "real:procs=2"]
    missing = [n for n in need if not stats.get(n)]
    if missing and not ctx.viol: raise RuntimeError("never exercised on the real code: %s" % missing)      # (a violation ends its behaviour early)
    ctx.assumptions += [
        "two environments with equal params have equal interactions (save() identifies environments by their params); environments whose params are equal but whose interactions differ are outside the domain",
        "a kill is realised as a BaseException raised from a substituted coba.environments.serialized.ZipFile (before the j-th member's open / after its close) and, for a kill inside a write, by replacing the file with a byte image: the first k bytes of the new file followed by the rest of the old file (what in-place rewriting of the directory leaves) or the first k bytes alone; images equal to the file before or after the write are not torn writes",
        "after a kill the next call uses new objects (a new process); read() counts of a killed call are not compared",
        "a failing environment raises a ValueError subclass in the middle of read(); RuntimeError (turned into CobaExit by CobaMultiprocessor) and KeyboardInterrupt are not explored",
        "processes=2: the virtual multiprocessing layer (harness/vmp.py, random schedules) and a few real spawn runs; the observed behaviour must be one TLC enumerates for the same inputs (which environments were written before a failure / a kill, and in which order, is scheduling)",
        "self does not read from the file that an overwrite deletes (Environments.from_save(p)[1:].save(p, overwrite=True) is outside the domain); the returned environments of one save as the leading part of the next self are covered",
        "foreign bytes at the path are one of four short byte strings; bit rot inside a stored member (a readable directory over damaged data) is outside the domain",
        "the texts of the two CobaExceptions are told apart by the word 'corrupt'"]
