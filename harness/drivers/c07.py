"""C07 - the result log faithfully records what evaluators produced: spec/ResultCodec.tla.

TLC enumerates row lists (ragged key sets, non-string field names, ints, floats with <=5 / >5 decimals,
integral floats, NaN/inf, strings with escapes, None, lists, tuples, nested sequences, dicts with
non-string keys, reward objects = instances of the registered classes L1Reward / BinaryReward / HammingReward /
DiscreteReward, alone and inside lists) and computes the expected tables under the documented normalisation.  Every case goes
through the real TransactionEncode -> text -> TransactionDecode -> TransactionResult; a sample goes
through a whole Experiment.run with an evaluator yielding exactly those rows and components whose params
are those values: without a file, with a plain file, with a .gz file, Result.from_file, and a second run
restoring from the file - all five Results must be equal to the expectation and to each other.
Histories: besides one and two triples per log, logs / experiments of 3-5 triples whose rows (and every object in them) are
made when the triple is evaluated and released once it is written, as evaluators do - the k-th triple's table rows must
be the k-th evaluator call's rows whatever the earlier triples yielded."""
import os, json, math, random, collections
from .. import tlc, tracecheck

FINISH = dict(level="model_checking",
              rule="a case = one list of evaluator rows (TLC-generated) pushed through the real encode/decode (all) or a whole Experiment.run in five file configurations (sample); distinct = distinct row lists")


BIG = {1: 3965164488755.0, 2: 1.7976931348623157e308, 3: -3121000059417.0}      # whole-number floats: >= 2**41 (times 1e5 is no longer exact), the largest finite double


def reward_state(c, a):
    """The state a reward object of registered class c made from the arguments a is logged with (its __getstate__ as documented
    in coba/primitives.py: L1 - the argmax; BR - repr of (argmax,) or of (argmax, value) when value != 1; HR - repr of the
    label list; DR - repr of ((actions, rewards), default)) - written from the arguments, never asked of the object."""
    if c == "L1": return a[0]
    if c == "BR": return repr((a[0],)) if len(a) == 1 or a[1] == 1 else repr((a[0], a[1]))
    if c == "HR": return repr(a[0])
    if c == "DR": return repr(((a[0], a[1]), 0))
    raise ValueError(c)


def to_py(v):
    t = v["t"]
    if t == "rwd":      # a NEW object on every rendering
        from coba.primitives import L1Reward, BinaryReward, HammingReward, DiscreteReward
        return {"L1": L1Reward, "BR": BinaryReward, "HR": HammingReward, "DR": DiscreteReward}[v["v"][0]](*[to_py(x) for x in v["v"][1]])
    if t == "int": return v["v"]
    if t == "flt": return v["v"] / 1e7
    if t == "str": return v["v"].replace("\\n", "\n\u2603\u00e9\udce9")     # backslash-n of the model = a real newline + non-ASCII characters + a lone surrogate (what os.fsdecode gives for a non-UTF-8 file name); strings are opaque to the normalisation
    if t == "none": return None
    if t == "nan": return float("nan")
    if t == "inf": return float("inf")
    if t == "big": return BIG[v["v"]]
    if t == "lst": return [to_py(x) for x in v["v"]]
    if t == "tup": return tuple(to_py(x) for x in v["v"])
    if t == "dct": return {to_py(k): to_py(x) for k, x in v["v"]}
    raise ValueError(t)


def exp_py(v):
    t = v["t"]
    if t == "rlog": return {v["v"][0]: reward_state(v["v"][0], [to_py(x) for x in v["v"][1]])}
    if t == "f5": return v["v"] / 1e5
    if t == "lst": return [exp_py(x) for x in v["v"]]
    if t == "tup": return tuple(exp_py(x) for x in v["v"])
    if t == "dct": return {exp_py(k): exp_py(x) for k, x in v["v"]}
    return to_py(v)


def same(a, b):
    from coba.results.core import Missing
    if a is Missing or b is Missing: return a is b
    if isinstance(a, bool) or isinstance(b, bool): return a is b
    if isinstance(a, (int, float)) and isinstance(b, (int, float)):
        if isinstance(a, float) and math.isnan(a): return isinstance(b, float) and math.isnan(b)
        return a == b or abs(a - b) <= 1e-9
    if type(a) != type(b): return False
    if isinstance(a, (list, tuple)): return len(a) == len(b) and all(same(x, y) for x, y in zip(a, b))
    if isinstance(a, dict): return a.keys() == b.keys() and all(same(a[k], b[k]) for k in a)
    return a == b


def where_differs(a, b, path="row"):
    """first place where same() fails, for the report"""
    if isinstance(a, dict) and isinstance(b, dict):
        if a.keys() != b.keys(): return "%s: keys %r vs %r" % (path, sorted(map(repr, a)), sorted(map(repr, b)))
        for k in a:
            if not same(a[k], b[k]): return where_differs(a[k], b[k], "%s[%r]" % (path, k))
    if isinstance(a, (list, tuple)) and type(a) == type(b) and len(a) == len(b):
        for i, (x, y) in enumerate(zip(a, b)):
            if not same(x, y): return where_differs(x, y, "%s[%d]" % (path, i))
    return "%s: %r (%s) vs %r (%s)" % (path, a, type(a).__name__, b, type(b).__name__)


class RowsEval:
    """An evaluator that yields exactly the given rows."""
    def __init__(self, rows): self.rows = rows
    @property
    def params(self): return {"kind": "rows"}
    def evaluate(self, env, lrn):
        for r in self.rows: yield dict(r)


class FreshRowsEval:
    """An evaluator that yields, for learner k, the rows of the k-th case - values and objects made anew in every call."""
    def __init__(self, group): self.group = group
    @property
    def params(self): return {"kind": "fresh rows"}
    def evaluate(self, env, lrn):
        for pairs in self.group[lrn.params["k"]]["rows"]: yield {to_py(k): to_py(v) for k, v in pairs}


def want_triples(group):
    """expected rows of every triple of one log: a column no row of the triple has is Missing (the table's own marker)"""
    from coba.results.core import Missing
    exps = [expect_rows(c) for c in group]
    allcols = {k for e in exps for r in e for k in r}
    return {t: [dict({k: Missing for k in allcols}, **r) for r in e] for t, e in enumerate(exps)}


def got_triples(res, idcol, n):
    got = {t: [] for t in range(n)}
    for r in res.interactions.to_dicts():
        got[r[idcol]].append({k: v for k, v in r.items() if k not in ("environment_id", "learner_id", "evaluator_id")})
    return got


class PLearner:
    def __init__(self, params): self._p = params
    @property
    def params(self): return dict(self._p)
    def predict(self, c, a): return a[0]
    def learn(self, *a, **k): pass


class PEnv:
    def __init__(self, params): self._p = params
    @property
    def params(self): return dict(self._p)
    def read(self): return iter([{"context": None, "actions": [0, 1], "rewards": [0, 1]}])


def int_rows(res):
    cols = [c for c in res.interactions.columns if c not in ("environment_id", "learner_id", "evaluator_id")]
    return [{c: r[c] for c in cols} for r in res.interactions.to_dicts()]


def expect_rows(case):
    out = []
    for i, pairs in enumerate(case["expected"]):
        row = {"index": i + 1}
        for k, v in pairs: row[str(to_py(k))] = exp_py(v)
        out.append(row)
    return out


def run(ctx):
    from coba.results import TransactionEncode, TransactionDecode, TransactionResult, Result
    from coba.experiments import Experiment
    from .. import explib
    rng = random.Random(ctx.seed)
    cfg = tracecheck._cfg("ResultCodec.cfg", {"ValSet <- SmallVals": "ValSet <- %s" % ctx.pick("SmallVals", "MidVals")}, ctx.scratch, "codec.cfg")
    r = tlc.run("ResultCodec", cfg, ctx.scratch, workers=16, timeout=7200, heap="16g")
    ctx.add_tlc("ResultCodec", r)
    cases = [j for j in r.json if isinstance(j, dict) and "expected" in j]
    if len(cases) < 1000: raise RuntimeError("ResultCodec produced only %d cases" % len(cases))
    if ctx.quick:     # quick: a second, smaller enumeration over text / non-finite / tuple values (thorough's MidVals has them all)
        cfg = tracecheck._cfg("ResultCodec.cfg", {"ValSet <- SmallVals": "ValSet <- TextVals"}, ctx.scratch, "codec_text.cfg")
        r2 = tlc.run("ResultCodec", cfg, ctx.scratch, workers=16, timeout=3600, heap="8g")
        ctx.add_tlc("ResultCodec text values", r2)
        cases += [j for j in r2.json if isinstance(j, dict) and "expected" in j]
    # whole-number floats of extreme magnitude (both tiers): multiplying by 1e5 is no longer exact, or overflows
    cfg = tracecheck._cfg("ResultCodec.cfg", {"ValSet <- SmallVals": "ValSet <- BigVals"}, ctx.scratch, "codec_big.cfg")
    r3 = tlc.run("ResultCodec", cfg, ctx.scratch, workers=16, timeout=3600, heap="8g")
    ctx.add_tlc("ResultCodec extreme floats", r3)
    cases += [j for j in r3.json if isinstance(j, dict) and "expected" in j]
    # reward objects (both tiers): instances of the registered reward classes, two states per class, alone and inside a list
    cfg = tracecheck._cfg("ResultCodec.cfg", {"ValSet <- SmallVals": "ValSet <- RewardVals"}, ctx.scratch, "codec_rwd.cfg")
    r4 = tlc.run("ResultCodec", cfg, ctx.scratch, workers=8, timeout=3600, heap="8g")
    ctx.add_tlc("ResultCodec reward objects", r4)
    cases += [j for j in r4.json if isinstance(j, dict) and "expected" in j]
    cases.sort(key=lambda c: json.dumps(c, sort_keys=True))
    ctx.sample(cases[len(cases) // 3], limit=1)
    ctx.exhaustive = True
    # ---- every case through the real codec ----
    ncodec = 0
    for c in cases:
        exp = expect_rows(c)
        ctx.case(json.dumps(c["rows"], sort_keys=True))
        # a row is a mapping: the order in which an evaluator happened to insert its keys is not part of its meaning,
        # so every case is replayed with the spec's key order and with each row's keys rotated by its position
        ncodec += 1
        for order in ("as-listed", "rotated") + (("defaulting-mapping",) if ncodec % 3 == 0 else ()):
            rows = []
            for ri, pairs in enumerate(c["rows"]):
                ps = list(pairs)
                if order == "rotated" and ps: k = (ri + 1) % len(ps); ps = ps[k:] + ps[:k]
                row = {to_py(k): to_py(v) for k, v in ps}
                # a row may be any mapping, e.g. a defaultdict / Counter whose [] invents a value for a key it does not have:
                # a field the row does not have is still ABSENT
                if order == "defaulting-mapping": row = collections.defaultdict(int, row)
                rows.append(row)
            sig = {"as-listed": "codec", "rotated": "codec:key-order", "defaulting-mapping": "codec:defaulting-mapping"}[order]
            try:
                lines = list(TransactionEncode(None).filter([["T0", {}], ["T4", (0, 0, 0), rows]]))
                res = TransactionResult().filter(TransactionDecode().filter(lines))
                got = int_rows(res)
            except Exception as e:
                ctx.violation(sig + ":raises", "encode/decode of evaluator rows %r raised %s: %s" % (rows, type(e).__name__, str(e)[:120]), dict(rows=c["rows"], order=order)); break
            if len(got) != len(exp) or not all(same(g, e) for g, e in zip(got, exp)):
                ctx.violation(sig + ":differs", "rows %r read back as %r, expected %r" % (rows, got, exp), dict(rows=c["rows"], expected=c["expected"], order=order)); break
    # ---- two triples in one log: what one triple's rows look like must not leak into the other's (columns only one of them
    #      has are Missing in the other; list/tuple conversion and packing are decided per triple) ----
    for i in range(0, len(cases) - 1, ctx.pick(2, 1)):
        ca, cb = cases[i], cases[(i * 7 + 3) % len(cases)]
        rows_a = [{to_py(k): to_py(v) for k, v in pairs} for pairs in ca["rows"]]; rows_b = [{to_py(k): to_py(v) for k, v in pairs} for pairs in cb["rows"]]
        ea, eb = expect_rows(ca), expect_rows(cb)
        allcols = {k for r in ea + eb for k in r}
        from coba.results.core import Missing      # a column no row of the triple has is Missing (the table's own marker), a field absent from some rows is None
        want = {0: [dict({k: Missing for k in allcols}, **r) for r in ea], 1: [dict({k: Missing for k in allcols}, **r) for r in eb]}
        ctx.case("pair" + json.dumps([ca["rows"], cb["rows"]], sort_keys=True))
        try:
            lines = list(TransactionEncode(None).filter([["T0", {}], ["T4", (0, 0, 0), rows_a], ["T4", (1, 0, 0), rows_b]]))
            res = TransactionResult().filter(TransactionDecode().filter(lines))
            got = {0: [], 1: []}
            for r in res.interactions.to_dicts():
                got[r["environment_id"]].append({k: v for k, v in r.items() if k not in ("environment_id", "learner_id", "evaluator_id")})
        except Exception as e:
            ctx.violation("codec:two-triples:raises", "encode/decode of two triples' rows %r / %r raised %s: %s" % (rows_a, rows_b, type(e).__name__, str(e)[:120]), dict(rows_a=ca["rows"], rows_b=cb["rows"])); continue
        for t in (0, 1):
            if len(got[t]) != len(want[t]) or not all(same(g, e) for g, e in zip(got[t], want[t])):
                ctx.violation("codec:two-triples:differs", "two triples in one log: rows of triple %d read back as %r, expected %r (the other triple's rows: %r); %s" % (t, got[t], want[t], rows_b if t == 0 else rows_a, where_differs(got[t], want[t])),
                              dict(rows_a=ca["rows"], rows_b=cb["rows"], triple=t)); break
    # ---- 3-5 triples in one log, made and released one after the other (what an Experiment does: the rows of a triple and
    #      the objects in them exist from its evaluation until it is written): every triple reads back as ITS rows.  Groups are
    #      drawn from the cases with reward objects (the values whose logged form is asked of the object) and from all cases ----
    rcases = [c for c in cases if '"rwd"' in json.dumps(c["rows"])]
    if not rcases: raise RuntimeError("no case with a reward object")
    groups = []
    for i in range(0, len(rcases), ctx.pick(8, 2)):
        n = 3 + i % 3
        groups.append([rcases[(i + j * (7 + 2 * n)) % len(rcases)] if j != 1 or i % 4 else cases[(i * 11 + 5) % len(cases)] for j in range(n)])
    for group in groups:
        want = want_triples(group)
        ctx.case("many" + json.dumps([c["rows"] for c in group], sort_keys=True))
        def items():
            yield ["T0", {}]
            for t, c in enumerate(group): yield ["T4", (0, t, 0), [{to_py(k): to_py(v) for k, v in pairs} for pairs in c["rows"]]]
        try:
            res = TransactionResult().filter(TransactionDecode().filter(list(TransactionEncode(None).filter(items()))))
            got = got_triples(res, "learner_id", len(group))
        except Exception as e:
            ctx.violation("codec:many-triples:raises", "encode/decode of %d triples' rows raised %s: %s" % (len(group), type(e).__name__, str(e)[:120]), dict(rows=[c["rows"] for c in group])); continue
        for t in range(len(group)):
            if len(got[t]) != len(want[t]) or not all(same(g, e) for g, e in zip(got[t], want[t])):
                ctx.violation("codec:many-triples:differs", "%d triples in one log: rows of triple %d read back as %r, expected %r; %s" % (len(group), t, got[t], want[t], where_differs(got[t], want[t])),
                              dict(rows=[c["rows"] for c in group], triple=t)); break
    # ---- the same through whole experiments (one environment, 3-5 learners, an evaluator that makes learner k's rows when
    #      it is called for learner k), five ways ----
    d = os.path.join(ctx.scratch, "expm"); os.makedirs(d, exist_ok=True)
    msample = rng.sample(groups, min(len(groups), ctx.pick(20, 200)))
    for n, group in enumerate(msample):
        want = want_triples(group)
        def mk():
            return Experiment([PEnv({})], [PLearner({"family": "p", "k": k}) for k in range(len(group))], FreshRowsEval(group))
        results = {}
        try:
            explib.quiet_ctx()
            results["nofile"] = mk().run(quiet=True)
            for kind in ("log", "log.gz"):
                f = os.path.join(d, "m%d.%s" % (n, kind))
                if os.path.exists(f): os.remove(f)
                results[kind] = mk().run(f, quiet=True)
                results[kind + ":from_file"] = Result.from_file(f)
                results[kind + ":restored"] = mk().run(f, quiet=True)
                os.remove(f)
        except Exception as e:
            ctx.violation("experiment:many-triples:raises", "Experiment.run with %d learners raised %s: %s" % (len(group), type(e).__name__, str(e)[:120]), dict(rows=[c["rows"] for c in group])); continue
        ctx.case("expmany" + json.dumps([c["rows"] for c in group], sort_keys=True))
        for name, res in results.items():
            got = got_triples(res, "learner_id", len(group))
            bad = [t for t in range(len(group)) if len(got[t]) != len(want[t]) or not all(same(g, e) for g, e in zip(got[t], want[t]))]
            if bad:
                t = bad[0]
                ctx.violation("experiment:many-triples:rows:" + name.split(":")[-1], "[%s] %d learners: interactions of learner %d are %r, expected %r; %s" % (name, len(group), t, got[t], want[t], where_differs(got[t], want[t])),
                              dict(rows=[c["rows"] for c in group], how=name, triple=t)); break
    ctx.extra["many_triple_logs"] = len(groups); ctx.extra["many_triple_experiments_run"] = len(msample) * 7
    # ---- a sample through whole experiments, five ways ----
    d = os.path.join(ctx.scratch, "exp"); os.makedirs(d, exist_ok=True)
    sample = rng.sample(cases, min(len(cases), ctx.pick(120, 1500)))
    for n, c in enumerate(sample):
        rows = [{to_py(k): to_py(v) for k, v in pairs} for pairs in c["rows"]]
        exp = expect_rows(c)
        own = {str(to_py(k)) for k, _ in c["rows"][0]}
        pexp = {k: v for k, v in exp[0].items() if k in own}
        params = dict(rows[0])
        def mk():
            return [(PEnv(dict(params)), PLearner(dict(params, family="p")), RowsEval(rows))]
        results = {}
        try:
            explib.quiet_ctx()
            results["nofile"] = Experiment(mk()).run(quiet=True)
            for kind in ("log", "log.gz"):
                f = os.path.join(d, "r%d.%s" % (n, kind))
                if os.path.exists(f): os.remove(f)
                results[kind] = Experiment(mk()).run(f, quiet=True)
                results[kind + ":from_file"] = Result.from_file(f)
                results[kind + ":restored"] = Experiment(mk()).run(f, quiet=True)
                os.remove(f)
        except Exception as e:
            ctx.violation("experiment:raises", "Experiment.run with evaluator rows %r raised %s: %s" % (rows, type(e).__name__, str(e)[:120]), dict(rows=c["rows"])); continue
        ctx.case("exp" + json.dumps(c["rows"], sort_keys=True))
        for name, res in results.items():
            got = int_rows(res)
            if len(got) != len(exp) or not all(same(g, e) for g, e in zip(got, exp)):
                ctx.violation("experiment:rows:" + name.split(":")[-1], "[%s] interactions %r, expected %r" % (name, got, exp), dict(rows=c["rows"], how=name)); break
            bad = None
            for tab, idc, extra in ((res.environments, "environment_id", {"env_type": "PEnv"}), (res.learners, "learner_id", {"family": "p"})):
                pr = [dict(x) for x in tab.to_dicts()]
                want = dict(pexp, **extra); want[idc] = 0
                if len(pr) != 1 or not same({k: v for k, v in pr[0].items()}, want): bad = "[%s] %s table %r, expected %r" % (name, idc, pr, want)
            if bad:
                ctx.violation("experiment:params:" + name.split(":")[-1], bad, dict(rows=c["rows"], how=name)); break
    ctx.extra["experiments_run"] = len(sample) * 7; ctx.traces += len(cases) + len(sample) + len(groups) + len(msample)
    ctx.assumptions += ["numpy / torch values (the ndim branch) are not installed here", "floats whose 6th decimal is exactly 5 (rounding ties in binary) are not generated",
                        "reward objects are built from ints, lists and floats with <= 5 decimals (their state is the object's own and is compared as it is)"]
