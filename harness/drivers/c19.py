"""C19 - ConcurrentCacher: spec/Cacher.tla (exhaustive), spec/CacherTrace.tla (binding).

1. TLC checks Cacher.tla exhaustively for the tier's program sets, memory-like and disk-like.
2. The repository's ConcurrentCacher runs under the virtual scheduler (injected VLock, recording
   lock table, `cachers.time.sleep` -> scheduling point, inner cache wrapped so that its operations
   are scheduling points) with 2-3 real threads executing random programs over equal, distinct and
   *really* colliding keys, inner cache = real MemoryCacher and real DiskCacher; seeded-random and
   bounded-DFS schedules.  Every execution is a trace validated by TLC against CacherTrace.tla
   (all invariants evaluated in every trace state).  Deadlock = scheduler verdict.
3. Disk entries: every byte cut of a real DiskCacher .gz entry must read as an error or as absent."""
import os, random, gzip, threading, types, itertools, json, shutil
from .. import tlc, vsched, tracecheck
from ..vsched import Sched, VLock

ACTIONS = ["NestStart", "NTryRead", "NCheck", "NInnerGet", "NBodyExit", "NRelRead", "NRmvProbe", "NRmvRaise", "Dispatch", "TryRead", "Check1", "InnerGet", "RelReadMid", "TryWrite", "Check2", "PutBegin", "PutEnd", "Switch",
           "EnterAfterPut", "BodyExit", "RelReadFinal", "ErrRelease", "RmvProbe", "InnerRmv", "RelWrite"]
FINISH = dict(level="model_checking",
              rule="a case = one execution of the real ConcurrentCacher under one virtual schedule (program assignment x schedule x inner cache kind) or one byte cut of a disk entry; distinct = distinct (program, event sequence)")


class GetterErr(Exception): pass
class BodyErr(Exception): pass


class _ProbeList(list):
    """a lock table that remembers which entries were written (to observe the entry a key is guarded by)"""
    def __setitem__(self, i, v):
        self.touched.add(i); list.__setitem__(self, i, v)


_SLOT = {}
def slot_of(key):
    """The lock-table entry that guards `key`, OBSERVED: a lone caller takes and releases the read lock through get_set and the
    entries it wrote are recorded (no reliance on how the code computes the index)."""
    if key not in _SLOT:
        from coba.context.cachers import ConcurrentCacher, MemoryCacher
        pl = _ProbeList([0] * 65536); pl.touched = set()
        cc = ConcurrentCacher(MemoryCacher(), list=pl, lock=threading.Lock())
        with cc.get_set(key, lambda: "v") as _: pass
        if len(pl.touched) != 1: raise RuntimeError("a lone get_set(%r) wrote %d lock-table entries" % (key, len(pl.touched)))
        _SLOT[key] = next(iter(pl.touched))
    return _SLOT[key]


def real_keys():
    """k1,k2: distinct keys whose lock-table entries really collide; k3: another entry."""
    seen = {}
    for i in range(200000):
        k = "key%d" % i
        ix = slot_of(k)
        if ix in seen:
            k1, k2 = seen[ix], k
            k3 = next("key%d" % j for j in range(10) if slot_of("key%d" % j) != ix)
            return {"k1": k1, "k2": k2, "k3": k3}
        seen[ix] = k
    raise RuntimeError("no colliding keys found")


def expected_value(key):
    return ["%s line %d" % (key, i) for i in range(3)]


class RecArray(list):
    """The shared lock table; records accesses so that each critical section's effect is observed."""
    def __init__(self, n):
        super().__init__([0] * n); self.version = 0; self.acc = []
    def __getitem__(self, i):
        v = list.__getitem__(self, i); self.acc.append(("r", i, v)); return v
    def __setitem__(self, i, v):
        self.acc.append(("w", i, list.__getitem__(self, i), v)); list.__setitem__(self, i, v); self.version += 1


class VInner:
    """Wraps the real inner cacher; every operation is a scheduling point and an event."""
    def __init__(self, real, names):
        self.real = real; self.names = names   # real key -> spec key name
    def __contains__(self, key):
        s = vsched._S()
        def eff():
            res = key in self.real
            s.log(e="contains", k=self.names[key], res=bool(res), c=vsched._tls.acting.name); return res
        return s.op("contains", self, lambda: True, eff)
    def rmv(self, key):
        s = vsched._S()
        def eff():
            self.real.rmv(key); s.log(e="rmv", k=self.names[key], c=vsched._tls.acting.name)
        s.op("rmv", self, lambda: True, eff)
    def get_set(self, key, getter):
        s = vsched._S()
        if key in self.real and getter is None:
            def eff():
                cm = self.real.get_set(key, None); s.log(e="get", k=self.names[key], c=vsched._tls.acting.name); return cm
            return s.op("get", self, lambda: True, eff)
        if getter is None:
            # the outer cacher asked for a cached value that is not there: no spec action explains this
            s.op("get", self, lambda: True, lambda: s.log(e="get-absent", k=self.names[key], c=vsched._tls.acting.name))
        return self.real.get_set(key, getter)


def make_getter(s, kname, key, outcome, lazy, gen=False):
    """The caller's getter. Its body runs when the inner cache really produces the value (lazy:
    DiskCacher iterates the lines after creating the file)."""
    def produce():
        # memory-like: the put begins when the getter starts; disk-like: when the file is created (VGzip.open)
        if not lazy: s.op("putB", None, lambda: True, lambda: s.log(e="putB", k=kname, c=vsched._tls.acting.name))
        vals = expected_value(key)
        for i, v in enumerate(vals):
            if outcome == "raise" and i == 1:
                s.op("putE", None, lambda: True, lambda: s.log(e="putE", k=kname, g="raise", c=vsched._tls.acting.name))
                raise GetterErr(key)
            yield v
            if i < len(vals) - 1: s.op("writing", None, lambda: True, lambda: None)
        s.op("putE", None, lambda: True, lambda: s.log(e="putE", k=kname, g="ok", c=vsched._tls.acting.name))
    if lazy or gen:      # gen: a getter may hand a memory-like cache a lazy generator too (it is drained inside the inner get_set)
        return lambda: produce()
    return lambda: list(produce())


def run_one(policy, progs, disk, keys, tmpdir, max_steps=4000):
    """One execution of the real ConcurrentCacher. Returns dict(trace=.., verdict=.., choices..)."""
    import coba.context.cachers as C
    names = {v: k for k, v in keys.items()}
    s = Sched(policy, max_steps=max_steps)
    arr = RecArray(65536); lock = VLock("mutex")
    if disk:
        d = os.path.join(tmpdir, "dc"); shutil.rmtree(d, ignore_errors=True); os.makedirs(d)
        real = C.DiskCacher(d)
    else:
        real = C.MemoryCacher()
    cc = C.ConcurrentCacher(VInner(real, names), list=arr, lock=lock)
    label = {}
    LAB = {"_acquire_read_lock": "acqR", "_release_read_lock": "relR", "_acquire_write_lock": "acqW",
           "_release_write_lock": "relW", "_switch_write_to_read_lock": "sw"}
    for mname, lab in LAB.items():
        def wrap(f, lab=lab):
            def g(*a, **k):
                t = s.current(); prev = label.get(t); label[t] = lab
                try: return f(*a, **k)
                finally: label[t] = prev
            return g
        setattr(cc, mname, wrap(getattr(cc, mname)))
    def on_acquire_eff(): arr.acc = []
    orig_acquire = lock.acquire
    def acquire(*a, **k):
        r = orig_acquire(*a, **k); arr.acc = []; return r
    lock.acquire = acquire
    def on_exit():
        t = s.current()
        ws = [a for a in arr.acc if a[0] == "w"]; rs = [a for a in arr.acc if a[0] == "r"]
        if ws: i, pre, post = ws[0][1], ws[0][2], ws[-1][3]
        elif rs: i, pre, post = rs[0][1], rs[0][2], rs[0][2]
        else: i, pre, post = -1, 0, 0
        s.events.append(dict(e="cs", m=label.get(t) or "?", i=i, pre=pre, post=post, c=t.name, nw=len(ws)))
    lock.on_exit = on_exit
    def vsleep(_):
        v0 = arr.version
        s.op("sleep", None, lambda: arr.version != v0, lambda: None)
    old_time = C.time; old_gzip = C.gzip
    C.time = types.SimpleNamespace(sleep=vsleep)
    def vgzip_open(path, mode="rb", *a, **k):
        if "w" in mode:   # DiskCacher creates the entry file: this is where the put becomes visible
            kname = names.get(os.path.basename(str(path))[:-3], "?")
            return s.op("putB", None, lambda: True, lambda: (s.log(e="putB", k=kname, c=vsched._tls.acting.name), gzip.open(path, mode, *a, **k))[1])
        return gzip.open(path, mode, *a, **k)
    C.gzip = types.SimpleNamespace(open=vgzip_open)
    errors = []; ngs = [0]
    def caller(cname, prog):
        for op in prog:
            s.op("begin", None, lambda: True, lambda: s.log(e="begin", c=cname))
            key = keys[op["k"]]
            try:
                if op["t"] == "gs":
                    ngs[0] += 1
                    with cc.get_set(key, make_getter(s, op["k"], key, op["g"], disk, gen=(ngs[0] % 2 == 1))) as v:
                        s.log(e="enter", c=cname)
                        s.op("body", None, lambda: True, lambda: None)
                        try:
                            data = [x.rstrip("\n") for x in v] if not isinstance(v, list) else v
                            ok = data == expected_value(key)
                        except (EOFError, OSError) as e:
                            ok = False
                        if op.get("n", "none") == "gs":        # the same key again, inside the body (a re-entrant read)
                            s.op("nest", None, lambda: True, lambda: s.log(e="nest", c=cname))
                            with cc.get_set(key, make_getter(s, op["k"], key, "ok", disk)) as v2:
                                s.log(e="enter", c=cname)
                                s.op("body", None, lambda: True, lambda: None)
                                d2 = [x.rstrip("\n") for x in v2] if not isinstance(v2, list) else v2
                                s.log(e="bodyExit", c=cname, ok=bool(d2 == expected_value(key)))
                        elif op.get("n", "none") == "rmv":     # removing the entry one is reading must be refused, changing nothing
                            s.op("nest", None, lambda: True, lambda: s.log(e="nest", c=cname))
                            try:
                                cc.rmv(key)
                                s.log(e="error", c=cname, what="rmv inside the body was not refused")
                            except C.CobaException:
                                s.log(e="nraise", c=cname)
                        s.op("body", None, lambda: True, lambda: None)
                        s.log(e="bodyExit", c=cname, ok=bool(ok))
                        if op["b"] == "raise": raise BodyErr(key)
                else:
                    cc.rmv(key)
            except (GetterErr, BodyErr):
                pass
            except vsched._Aborted:
                raise
            except Exception as e:
                errors.append("%s: %s %r" % (cname, type(e).__name__, str(e)[:120]))
                s.log(e="error", c=cname, what=type(e).__name__)
        s.op("begin", None, lambda: True, lambda: s.log(e="begin", c=cname))
    for c in sorted(progs):
        if progs[c]: s.spawn(c, (lambda c=c: caller(c, progs[c])))
    verdict = "ok"
    try:
        s.run()
    except vsched.Deadlock as d:
        verdict = "deadlock %s" % (d,)
        s.abort()
    except vsched.TooLong:
        verdict = "livelock (step budget exceeded)"
        s.abort()
    finally:
        C.time = old_time; C.gzip = old_gzip
    for t in s.tasks:
        if t.exc is not None and not isinstance(t.exc, vsched._Aborted):
            errors.append("%s crashed: %r" % (t.name, t.exc))
    # index mapping: the recorded table index -> spec index (1 for k1/k2, 2 for k3)
    ix = {slot_of(keys["k1"]): 1, slot_of(keys["k3"]): 2}
    evs = []
    for e in s.events:
        e = dict(e); e.pop("task", None)
        if e["e"] == "cs":
            e["i"] = ix.get(e["i"], 0); e.pop("nw", None)
        evs.append(e)
    # callers that have no program still finish: the spec's Dispatch for them is a `begin`
    for c in sorted(progs):
        if not progs[c]: evs.append(dict(e="begin", c=c))
    leaked = [i for i, v in enumerate(list.__iter__(arr)) if v != 0]
    return dict(trace=dict(prog=progs, ev=evs), verdict=verdict, errors=errors, leaked=leaked,
                choices=list(s.choices), nen=list(s.nenabled), locks={str(k): v for k, v in getattr(cc, "_locks", {}).items() if v != 0})


def rand_progs(rng, ncallers, maxops):
    ks = ["k1", "k2", "k3"]
    def op():
        k = rng.choice(ks[:2] if rng.random() < .8 else ks)
        if rng.random() < .3: return dict(t="rmv", k=k, g="ok", b="ok", n="none")
        if rng.random() < .2: return dict(t="gs", k=k, g="ok", b="ok", n=rng.choice(["gs", "rmv"]))
        return dict(t="gs", k=k, g=rng.choice(["ok", "ok", "raise"]), b=rng.choice(["ok", "ok", "raise"]), n="none")
    progs = {c: [] for c in "abc"}
    for c in "abc"[:ncallers]:
        progs[c] = [op() for _ in range(rng.randint(1, maxops))]
    return progs


def run(ctx):
    import coba.context.cachers as C
    rng = random.Random(ctx.seed)
    keys = real_keys()
    # ---- 1. exhaustive model checking ----
    for disk in (False, True):
        cfg = tracecheck._cfg("Cacher_mc.cfg", {"DiskLike = FALSE": "DiskLike = %s" % ("TRUE" if disk else "FALSE"),
                                                "ProgSet <- QuickProgs": "ProgSet <- %s" % ctx.pick("QuickProgs", "ThoroughProgs")},
                              ctx.scratch, "Cacher_mc_%s.cfg" % disk)
        r = tlc.run("MC_Cacher", cfg, ctx.scratch, workers=16, coverage=True, timeout=7200, heap="16g")
        ctx.add_tlc("Cacher_mc disk=%s" % disk, r, required_actions=ACTIONS)
        for v in r.violations:
            ctx.violation("spec:%s" % (v["name"] or v["kind"]), "Cacher.tla itself violates %s %s" % (v["kind"], v["name"]), v["trace"][:80])
    # ---- 2. real code under virtual schedules -> traces -> TLC ----
    nrand = ctx.pick(300, 4000); ndfs = ctx.pick(400, 6000)
    for disk in (False, True):
        traces = []; meta = []
        def record(res, how):
            key = json.dumps([res["trace"]["prog"], res["trace"]["ev"]], sort_keys=True)
            ctx.case(key)
            if res["verdict"] != "ok":
                ctx.violation("hang", "caller(s) wait forever: %s" % res["verdict"], dict(how=how, disk=disk, **res)); return
            if res["errors"]:
                ctx.violation("unexpected-exception", "; ".join(res["errors"]), dict(how=how, disk=disk, **res)); return
            if res["leaked"] or res["locks"]:
                ctx.violation("lock-leak", "lock table / _locks not clear after all callers left: %s %s" % (res["leaked"], res["locks"]), dict(how=how, disk=disk, **res)); return
            traces.append(res["trace"]); meta.append((how, res))
        for n in range(nrand // (2 if disk else 1)):
            progs = rand_progs(rng, rng.choice([2, 2, 3]), 3)
            sseed = rng.randrange(1 << 30)
            res = run_one(vsched.random_policy(random.Random(sseed)), progs, disk, keys, ctx.scratch)
            record(res, dict(kind="random", sched_seed=sseed))
        # bounded DFS over schedules of small programs
        dfs_budget = ndfs // (2 if disk else 1)
        while dfs_budget > 0:
            progs = rand_progs(rng, 2, 2)
            per = min(dfs_budget, ctx.pick(100, 600))
            def one(policy):
                res = run_one(policy, progs, disk, keys, ctx.scratch)
                return res["choices"], res["nen"], res
            k = 0
            for res in vsched.dfs(one, per):
                record(res, dict(kind="dfs", n=k)); k += 1
            dfs_budget -= max(k, 1)
        if traces: ctx.sample(dict(disk=disk, **traces[0]), limit=2)
        rej = tracecheck.validate(ctx, "CacherTrace", "CacherTrace.cfg", traces,
                                  subst={"DiskLike = FALSE": "DiskLike = %s" % ("TRUE" if disk else "FALSE")},
                                  name="cacher_trace_%s" % ("disk" if disk else "mem"), workers=16)
        for i, reason, pos in rej:
            how, res = meta[i]
            evs = res["trace"]["ev"]
            at = evs[pos - 1] if pos and pos <= len(evs) else None
            ctx.violation("trace-rejected", "%s; first unexplained event #%s: %s" % (reason, pos, at), dict(how=how, disk=disk, **res))
    # ---- 3. disk entries cut at every byte ----
    d = os.path.join(ctx.scratch, "cut"); os.makedirs(d, exist_ok=True)
    dc = C.DiskCacher(d)
    with dc.get_set("entry", lambda: expected_value("entry")) as f: full = [x.rstrip("\n") for x in f]
    assert full == expected_value("entry")
    blob = open(os.path.join(d, "entry.gz"), "rb").read()
    step = 1
    for n in range(0, len(blob), step):
        open(os.path.join(d, "entry.gz"), "wb").write(blob[:n])
        table = [0] * 65536
        cc = C.ConcurrentCacher(C.DiskCacher(d), list=table, lock=threading.Lock())
        outcome = None
        try:
            with cc.get_set("entry", lambda: expected_value("entry")) as f:
                got = [x.rstrip("\n") for x in f]
            outcome = "complete" if got == expected_value("entry") else "served-partial"
        except Exception as e:
            outcome = "error:" + type(e).__name__
        ctx.case("cut%d" % n)
        leaked = [i for i, v in enumerate(table) if v != 0]
        if outcome == "served-partial":
            ctx.violation("disk-cut-served", "entry cut at byte %d of %d was served as if complete: %r" % (n, len(blob), got), dict(cut=n, size=len(blob)))
        if leaked:
            ctx.violation("disk-cut-lock-leak", "entry cut at byte %d: lock still held after the with-block (%s)" % (n, outcome), dict(cut=n, size=len(blob), outcome=outcome))
    ctx.extra["disk_cuts"] = len(blob)
    real_processes(ctx, keys)
    slot_agreement(ctx, keys)
    ctx.assumptions += ["one virtual scheduling point per lock acquisition, sleep, inner-cache operation and body boundary; code between two points runs atomically (as in the property's stated granularity)",
                        "callers are threads; caller processes share the same code path through the injected lock/list"]


# ---------------------------------------------------------------- real processes (schedule-independent observables only)
def _proc_main(args):
    import os, time
    d, arr, lock, who, prog, keys = args
    import coba.context.cachers as C
    cc = C.ConcurrentCacher(C.DiskCacher(d), arr, lock)
    out = []
    for op in prog:
        key = keys[op["k"]]
        if op["t"] == "rmv":
            cc.rmv(key); out.append(("rmv", op["k"], True)); continue
        def getter(key=key):
            with open(os.path.join(d, "getter-%s-%s-%d" % (key, who, time.time_ns())), "w"): pass   # one marker file per getter run
            return expected_value(key)
        with cc.get_set(key, getter) as f:
            got = [x.rstrip("\n") for x in f]
        out.append(("gs", op["k"], got == expected_value(key)))
    return out


def real_processes(ctx, keys):
    """Spawned processes sharing a RawArray + Lock exactly as CobaMultiprocessor sets them up: every value read is
    complete, the lock table is clear afterwards, and without removals the getter ran at most once per key."""
    import multiprocessing as mp
    from ctypes import c_short
    sp = mp.get_context("spawn")
    rng = random.Random(ctx.seed + 19)
    for rnd in range(ctx.pick(2, 8)):
        d = os.path.join(ctx.scratch, "rp%d" % rnd); os.makedirs(d, exist_ok=True)
        arr = sp.RawArray(c_short, [0] * 2 ** 16); lock = sp.Lock()
        with_rmv = rnd % 2 == 1
        progs = []
        for w in range(3):
            prog = [dict(t="gs", k=rng.choice(["k1", "k2", "k3"])) for _ in range(3)]
            if with_rmv: prog.insert(rng.randrange(4), dict(t="rmv", k=rng.choice(["k1", "k2"])))
            progs.append(prog)
        q = sp.Queue()
        ps = [sp.Process(target=_proc_entry, args=(q, d, arr, lock, w, progs[w], keys)) for w in range(3)]
        for p in ps: p.start()
        outs = []
        for _ in ps:
            try: outs.append(q.get(timeout=300))
            except Exception: ctx.violation("real-process-hang", "a caller process did not finish within 300 s", dict(progs=progs)); break
        for p in ps: p.join(timeout=30)
        ctx.case("realproc%d" % rnd)
        if any(not ok for o in outs for (_, _, ok) in o):
            ctx.violation("real-process-partial", "a caller process read an incomplete value", dict(progs=progs, outs=outs))
        if any(v != 0 for v in arr):
            ctx.violation("real-process-lock-leak", "lock table not clear after all caller processes left", dict(progs=progs))
        if not with_rmv:
            from collections import Counter
            runs = Counter(f.split("-")[1] for f in os.listdir(d) if f.startswith("getter-"))
            if any(n > 1 for n in runs.values()):
                ctx.violation("real-process-getter-twice", "the getter ran more than once for a key that stayed cached: %s" % dict(runs), dict(progs=progs))
    ctx.extra["real_process_rounds"] = ctx.pick(2, 8)


def _slot_entry(q, d, arr, lock, key):
    """Which lock-table entries does a caller PROCESS hold inside the body of get_set(key)?  (observed, not computed)"""
    import coba.context.cachers as C
    cc = C.ConcurrentCacher(C.MemoryCacher(), arr, lock)
    with cc.get_set(key, lambda: "v") as _:
        held = [i for i, v in enumerate(arr) if v != 0]
    q.put((key, held, [i for i, v in enumerate(arr) if v != 0]))


def slot_agreement(ctx, keys):
    """Cacher.tla's `Idx` is a function of the key alone: every caller - thread or process - guards a key with the
    same lock-table entry.  CobaMultiprocessor's workers are spawned interpreters, each with its own string-hash salt,
    so the binding starts caller processes with different PYTHONHASHSEED values and compares the entry each one holds."""
    import multiprocessing as mp
    from ctypes import c_short
    sp = mp.get_context("spawn")
    saved = os.environ.get("PYTHONHASHSEED")
    seeds = ctx.pick(["0", "1", "random"], ["0", "1", "2", "12345", "random", "random"])
    try:
        for kname in ("k1", "k3"):
            key = keys[kname]; seen = {}
            for hs in seeds:
                os.environ["PYTHONHASHSEED"] = hs
                arr = sp.RawArray(c_short, [0] * 2 ** 16); lock = sp.Lock(); q = sp.Queue()
                p = sp.Process(target=_slot_entry, args=(q, None, arr, lock, key)); p.start()
                try: _, held, after = q.get(timeout=120)
                except Exception:
                    ctx.violation("real-process-hang", "a lone caller process did not finish get_set within 120 s", dict(key=key, hashseed=hs)); p.kill(); continue
                p.join(timeout=30)
                ctx.case(("slot", kname, hs))
                if after: ctx.violation("real-process-lock-leak", "lock table not clear after a lone caller process left", dict(key=key, hashseed=hs, after=after))
                seen[hs] = held
            if len({tuple(v) for v in seen.values()}) > 1:
                ctx.violation("lock-entry-differs-between-processes",
                              "caller processes (spawned interpreters with different string-hash salts) guard key %r with different lock-table entries: %s - between them the key is not locked at all" % (key, seen),
                              dict(key=key, held=seen))
            if any(len(v) != 1 for v in seen.values()):
                ctx.violation("lock-entry-count", "inside the body of get_set a lone caller holds %s lock-table entries for key %r (exactly one expected)" % (seen, key), dict(key=key, held=seen))
    finally:
        if saved is None: os.environ.pop("PYTHONHASHSEED", None)
        else: os.environ["PYTHONHASHSEED"] = saved


def _proc_entry(q, d, arr, lock, who, prog, keys):
    q.put(_proc_main((d, arr, lock, who, prog, keys)))

