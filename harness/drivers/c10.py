"""C10 - changing representation never changes which action earns which reward: spec/ReprFilters.tla.

ReprFilters.tla is a state machine over one small environment (1-3 interactions): one TLA+ action per
representation filter (Repr, Flatten, Sparsify, Densify, Noise on actions, Batch, Unbatch, Finalize), a state = the
current representation of every action / of the logged action, the current binding of the reward and feedback
objects and the batching.  TLC enumerates every chain of filters up to a depth over a catalogue of action shapes
x reward kinds x interaction flavours (bounded-exhaustive BFS), checks on the model that the intended design
conserves the rewards (Conserved, LoggedMember, Injective, KindTable, GroupsOk, Idempotent) and prints every
reachable state as one case: the environment, the chain, and what the property demands of the result - the reward
and feedback of the i-th action, the position of the logged action, the logged reward / probability, and the batch
layout after every step.  None of these expectations is computed here.

The driver turns each case into real interactions (twice: a plain rendering and a rotating one that varies container
types, equal-but-not-identical reward arguments, DiscreteReward form, interaction classes, context type, the level list
the categoricals of an interaction carry - shared / the interaction's own action set in its own order / with a vocabulary
of its own per action set, see levels_of), applies the
real filters one step at a time and compares after EVERY step; when a pipeline has no Finalize the spec also says
whether Environments' implicit Finalize may follow, and that step is replayed too.  A case that is clean step by step
is then run again as one lazy pipeline (Pipes.join) and through the Environments shortcuts.

REUSE (the spec's REUSE RULE): in the plain rendering every filter OBJECT of the step-wise replay is, right after its
first use, also applied to the current state of one or two OTHER cases that have the same chain (another action shape /
flavour / reward kind; the same shape in an environment that starts with the other action set, env `rev`) and then to the
first input again; the Environments shortcuts are built once over all of these environments so that one filter object is
shared by several pipelines, read in turn and the first one again.  Every application is compared with the spec's
expectation for ITS OWN case and the re-read with the first read (identical, also the noise).  A difference that fresh
objects do not show is reported as <filter>:reused-object:second-environment | first-environment-again | reread-differs.

Signatures are <filter>:<clause>[:<qualifier>]: the filter of the first step whose output differs (or `pipeline` /
`shortcut`), the clause of the property that fails (rewards, feedbacks, logged-action, logged-reward,
logged-probability, interactions, raises) and, when the plain form of the same case is fine, the one feature that
makes it fail (table=reversed, ident=alias, dense=lazy ..)."""
import json, zlib, random
from fractions import Fraction
from .. import tlc, tracecheck

FINISH = dict(level="model_checking",
              rule="a case = one TLC-generated (environment, chain of representation filters) replayed step by step through the real filters in two renderings (each filter object reused on other environments and on the first again), then as one pipeline and through the Environments shortcuts (one pipeline shared by several environments); distinct = distinct (shape, reward kind, flavour, environment pattern, chain)")

LEV = ["a", "b", "c"]          # Lev of the spec
CLEV = ["u", "v"]              # levels of the categorical that sits in the context
LEV2 = ["d", "a", "b"]         # the names the SECOND action set gives its categoricals under levels=local (partly those of the first, at other positions)
PLAIN = dict(dense="tuple", sparse="dict", ident="same", form="lists", cls="dict", ctx="dense", noise=1, nest="tuple", levels="shared")
FEATURES = dict(dense=("tuple", "list", "lazy"), sparse=("dict", "lazy"),
                ident=("same", "copy", "alias", "alias2"), form=("lists", "mapping"), cls=("dict", "coba"),
                ctx=("dense", "none", "scalar", "sparse"), noise=(1, 7),
                nest=("tuple", "list"),        # the container of a NESTED part of an action (a mutable one can be shared between input and output)
                levels=("shared", "own", "local"))   # the level list a categorical carries: one list for the whole environment / the levels that occur in the
                                               # interaction's own action set, in its own order / the same with a vocabulary of its own per action set (see levels_of)


def rendering(k):
    """the k-th non-plain rendering: every feature rotates with its own period"""
    rng = random.Random(k * 7919 + 13)
    rd = {f: rng.choice(vals) for f, vals in sorted(FEATURES.items())}
    if rd == PLAIN: rd["ident"] = "alias"
    return rd


# ---- conversion of spec values to Python values ----------------------------------------------------------------
def levels_of(setc, u, rd):
    """(name of Cat(j) by j - 1, level list) of the categoricals of action set number u.  The spec's Cat(j) is an abstract
    level; only that different j are different values (with different one-hots) within an interaction matters to it.
    shared: Categorical(LEV[j], LEV) everywhere.  own: all categoricals of an interaction carry the levels that occur in
    its action set, in the order of their first appearance (so the level list differs between interactions that offer
    different actions).  local: the same, and the second action set names its levels from a vocabulary of its own."""
    mode = rd.get("levels", "shared")
    if mode == "shared": return LEV, LEV
    names = LEV2 if (mode == "local" and u != 1) else LEV
    seen = []
    def walk(c):
        if isinstance(c, (int, str)): return
        if c[0] == "c":
            if c[1] not in seen: seen.append(c[1])
        elif c[0] == "s":
            for x in c[1]: walk(x)
        elif c[0] == "map":
            for _, v in c[1]: walk(v)
    for c in setc: walk(c)
    # every level list names ALL levels (those of the set first, in order of appearance): the one-hot width is then the same for
    # every interaction of the environment - actions of different widths would be actions of different forms, which the filters
    # (deciding by the first interaction) do not support and the domain excludes
    seen += [j for j in range(1, len(names) + 1) if j not in seen]
    return names, [names[j - 1] for j in seen]


def mk_val(c, rd, top=True):
    from coba.primitives import Categorical
    from coba.pipes.rows import LazyDense, LazySparse
    if isinstance(c, (int, str)): return c
    tag = c[0]
    if tag == "c":
        names, levels = rd.get("_lv", (LEV, LEV))
        return Categorical(names[c[1] - 1], levels)
    if tag == "s":
        items = [mk_val(x, rd, False) for x in c[1]]
        if not top: return tuple(items) if rd.get("nest", "tuple") == "tuple" else items
        k = rd["dense"]
        return tuple(items) if k == "tuple" else items if k == "list" else LazyDense(items)
    if tag == "map":
        d = {k: mk_val(v, rd, False) for k, v in c[1]}
        k = rd["sparse"]
        return d if k == "dict" else LazySparse(d)
    raise ValueError(c)


def mk_alias(c, rd):
    """an object of another type that is the same value for every == the filters and reward functions can apply (an
    equivalence that survives container changes): float / int, str / Categorical (a str subclass) also with its levels
    listed in another order, tuple / HashableDense (a tuple subclass), dict or LazySparse / HashableSparse (mappings compare by
    items).  LazyDense is NOT used as an alias: it equals both the tuple and the list with its items, which are not equal."""
    from coba.primitives import Categorical, HashableDense, HashableSparse
    if isinstance(c, int): return float(c)
    if isinstance(c, str): return str(c)
    tag = c[0]
    if tag == "c":
        names, levels = rd.get("_lv", (LEV, LEV))
        return names[c[1] - 1] if rd["ident"] == "alias" else Categorical(names[c[1] - 1], levels[::-1])
    if tag == "s":
        items = [mk_val(x, rd, False) for x in c[1]]
        return HashableDense(items) if rd["dense"] == "tuple" else mk_val(c, rd)
    return HashableSparse({k: mk_val(v, rd, False) for k, v in c[1]})


def pick(obj, c, rd, member=False):
    """the object a reward function is keyed by (same object / equal copy / alias); the logged action (member=True) is
    always an object of the action set's own type"""
    if rd["ident"] == "same": return obj
    if rd["ident"] == "copy" or member: return mk_val(c, rd)
    if rd.get("nest") == "list" and not isinstance(c, (int, str)) and c[0] == "map": return mk_val(c, rd)   # HashableSparse with a list inside equals no mapping: no alias exists
    return mk_alias(c, rd)


def num(p):
    return p[0] if p[1] == 1 else p[0] / p[1]


class Table:
    """'arbitrary callable': a lookup by == that answers `miss` for anything else"""
    def __init__(self, keys, vals, miss): self.keys, self.vals, self.miss = keys, vals, miss
    def __call__(self, action):
        for k, v in zip(self.keys, self.vals):
            if k == action: return v
        return self.miss
    def __repr__(self): return "Table(%r -> %r)" % (self.keys, self.vals)


def hashable(x):
    try: hash(x); return True
    except TypeError: return False


def mk_reward(cr, objs, setc, rd):
    from coba.primitives import BinaryReward, DiscreteReward, HammingReward, L1Reward
    k = cr["k"]
    if k == "none": return None
    rs = [num(p) for p in cr["r"]]
    if k == "list": return rs
    keys = [pick(objs[j - 1], setc[j - 1], rd) for j in cr["idx"]]
    if k == "binary": return BinaryReward(keys[0]) if rs[0] == 1 else BinaryReward(keys[0], rs[0])
    if k == "mapping" and all(hashable(x) for x in keys + objs): return DiscreteReward(dict(zip(keys, rs)), default=num(cr["d"]))
    if k in ("discrete", "mapping"):
        if rd["form"] == "mapping" and all(hashable(x) for x in keys + objs): return DiscreteReward(dict(zip(keys, rs)), default=num(cr["d"]))
        return DiscreteReward(keys, rs, default=num(cr["d"]))
    if k == "fn": return Table(keys, rs, num(cr["d"]))
    if k == "hamming": return HammingReward([mk_val(l, rd) for l in cr["lab"]])
    if k == "l1": return L1Reward(num(cr["d"]))
    raise ValueError(k)


def mk_ctx(n, rd):
    from coba.primitives import Categorical
    c = Categorical(CLEV[n % 2], CLEV)
    k = rd["ctx"]
    return (c, n) if k == "dense" else None if k == "none" else n if k == "scalar" else {"c": c, "d": n}


def build(case, rd0):
    from coba.primitives import SimulatedInteraction, GroundedInteraction, LoggedInteraction
    out = []
    for n, u in enumerate(case["use"], 1):
        setc = case["sets"][u - 1]
        rd = dict(rd0, _lv=levels_of(setc, u, rd0))      # the categoricals of this interaction: their names and the level list they carry
        A = [mk_val(c, rd) for c in setc]
        d = {"id": n, "context": mk_ctx(n, rd), "actions": A, "rewards": mk_reward(case["R"][n - 1], A, setc, rd)}
        F = mk_reward(case["F"][n - 1], A, setc, rd)
        if F is not None: d["feedbacks"] = F
        if case["fl"] == "logged":
            m = case["M"][n - 1]
            d["action"] = pick(A[m - 1], setc[m - 1], rd, member=True); d["reward"] = num(case["LR"][n - 1]); d["probability"] = num(case["LP"][n - 1])
        if rd["cls"] == "coba":
            x = dict(d); ctx = x.pop("context")
            if "feedbacks" in x: d = GroundedInteraction(ctx, x.pop("actions"), x.pop("rewards"), x.pop("feedbacks"), **x)
            elif "action" in x: d = LoggedInteraction(ctx, x.pop("action"), x.pop("reward"), x.pop("probability"), **x)
            else: d = SimulatedInteraction(ctx, x.pop("actions"), x.pop("rewards"), **x)
        out.append(d)
    return out


# ---- the real filters ------------------------------------------------------------------------------------------
KEY_UNIVERSE = ["x", "y", "z", "c", "d", "action", "kind", "size"] + [a + "_" + str(i) for a in ("x", "y", "z", "c", "d", "kind", "size", "action") for i in range(4)] + [str(i) for i in range(48)]
HASH_FEATS = next(m for m in range(1024, 10 ** 6) if len({zlib.crc32(k.encode("ascii")) % m for k in KEY_UNIVERSE}) == len(KEY_UNIVERSE))
LOOKUP_FEATS = 64


def plus10(x, rng): return x + 10


def noise_arg(st):
    return plus10 if st["x"] == "fn" else ("g", 0, 1) if st["x"] == "g3" else (0, 1)


def cat_mode(s): return None if s == "None" else s


def mk_filter(st, batched, rd):
    from coba.environments.filters import Repr, Flatten, Sparsify, Densify, Noise, Batch, Unbatch, Finalize, BatchSafe
    f = st["f"]
    if f == "repr": return Repr(cat_mode(st["x"]), cat_mode(st["y"]))
    if f == "flatten": return Flatten()
    if f == "sparsify": return Sparsify(context=st["x"] == "T", action=st["y"] == "T")
    if f == "densify":
        hashing = st["n"] == 1
        return Densify(n_feats=HASH_FEATS if hashing else LOOKUP_FEATS, method="hashing" if hashing else "lookup", context=st["x"] == "T", action=st["y"] == "T")
    if f == "noise": return Noise(action=noise_arg(st), seed=rd["noise"])
    if f == "batch": return Batch(st["n"] or None)
    if f == "unbatch": return Unbatch()
    if f == "finalize": return BatchSafe(Finalize()) if batched else Finalize()
    raise ValueError(f)


def shortcut(envs, st, rd):
    from coba.environments.filters import Finalize, BatchSafe
    f = st["f"]
    if f == "repr": return envs.repr(cat_mode(st["x"]), cat_mode(st["y"]))
    if f == "flatten": return envs.flatten()
    if f == "sparsify": return envs.sparse(context=st["x"] == "T", action=st["y"] == "T")
    if f == "densify":
        hashing = st["n"] == 1
        return envs.dense(HASH_FEATS if hashing else LOOKUP_FEATS, "hashing" if hashing else "lookup", context=st["x"] == "T", action=st["y"] == "T")
    if f == "noise": return envs.noise(action=noise_arg(st), seed=rd["noise"])
    if f == "batch": return envs.batch(st["n"] or None)
    if f == "unbatch": return envs.unbatch()
    if f == "finalize": return envs.filter(BatchSafe(Finalize()))     # what Environments itself appends (core.py 1138-1140)
    raise ValueError(f)


# ---- observation of an output and comparison with what the spec demands ------------------------------------------
def vector(R, acts):
    """the reward each action receives: a sequence is read by position, a function is asked"""
    if callable(R):
        out = []
        for a in acts:
            try: out.append(R(a))
            except Exception as e: out.append("<%s>" % type(e).__name__)
        return out
    return list(R)


def index_of(acts, action):
    try: return list(acts).index(action) + 1
    except ValueError: return 0
    except Exception as e: return "<%s>" % type(e).__name__


def equality_defect(acts):
    """None when the action objects are pairwise different under their own == (both ways round), equal to themselves and
    therefore found at their own position by list.index (first i with acts[i] == a); else what is wrong"""
    try:
        for i, a in enumerate(acts):
            if not (a == a): return "action %d is not equal to itself" % (i + 1)
            for j in range(i + 1, len(acts)):
                if a == acts[j] or acts[j] == a: return "actions %d and %d compare equal (%s)" % (i + 1, j + 1, "both ways" if (a == acts[j] and acts[j] == a) else "one way only")
    except Exception as e:
        return "comparing the actions raises %s" % type(e).__name__
    return None


def observe(out):
    """-> (layout, {n: observation}) ; layout = [[ids of one output item]..], batched flags"""
    layout = []; flags = []; obs = {}
    for o in out:
        ids = o["id"]
        isb = hasattr(ids, "is_batch")
        ids = list(ids) if isb else [ids]
        layout.append(ids); flags.append(isb)
        for j, n in enumerate(ids):
            get = (lambda k, j=j, o=o: o[k][j]) if isb else (lambda k, o=o: o[k])
            acts = list(get("actions"))
            ob = {"rewards": vector(get("rewards"), acts), "distinct-actions": equality_defect(acts)}
            if "feedbacks" in o: ob["feedbacks"] = vector(get("feedbacks"), acts)
            if "action" in o:
                ob["logged-action"] = index_of(acts, get("action"))
                ob["logged-reward"] = get("reward"); ob["logged-probability"] = get("probability") if "probability" in o else None
            obs[n] = ob
        if isb and callable(o["rewards"]):      # the batched reward function, asked for one action per interaction
            for key in ("rewards", "feedbacks"):
                if key not in o or not callable(o[key]): continue
                K = min(len(a) for a in o["actions"])
                cols = []
                for i in range(K):
                    try: cols.append(list(o[key]([a[i] for a in o["actions"]])))
                    except Exception as e: cols.append(["<%s>" % type(e).__name__] * len(ids))
                for j, n in enumerate(ids): obs[n][key + "(batch call)"] = [cols[i][j] for i in range(K)]
    return layout, flags, obs


def same_num(got, want):
    if isinstance(got, bool) or not isinstance(got, (int, float)): return False
    return got == want or abs(got - want) <= 1e-9


def same_vec(got, want):
    return len(got) == len(want) and all(same_num(g, w) for g, w in zip(got, want))


def compare(case, out, groups, batched):
    """-> list of (clause, what) on which the output differs from what the spec demands"""
    bad = []
    try:
        layout, flags, obs = observe(out)
    except Exception as e:
        return [("interactions", "the output cannot be read: %s: %s" % (type(e).__name__, str(e)[:100]))]
    if layout != groups or any(f != batched for f in flags):
        return [("interactions", "output items hold interactions %r (batched %r), expected %r (batched %r)" % (layout, flags, groups, batched))]
    for n in sorted(obs):
        ob = obs[n]
        if case["injective"] and ob["distinct-actions"]:
            bad.append(("distinct-actions", "interaction %d: %s; they were %d different actions" % (n, ob["distinct-actions"], len(case["expR"][n - 1]))))
        want = {"rewards": [num(p) for p in case["expR"][n - 1]]}
        if case["F"][n - 1]["k"] != "none": want["feedbacks"] = [num(p) for p in case["expF"][n - 1]]
        for key, w in want.items():
            for k2 in (key, key + "(batch call)"):
                if k2 == key and key not in ob: bad.append((key, "interaction %d has no %s" % (n, key))); continue
                if k2 in ob and not same_vec(ob[k2], w):
                    bad.append((key, "interaction %d: the actions' %s are %r, they were %r" % (n, k2, ob[k2], w)))
        if case["fl"] == "logged":
            if ob.get("logged-action") != case["M"][n - 1]:
                bad.append(("logged-action", "interaction %d: the logged action is member %r of the action set, it was member %d" % (n, ob.get("logged-action"), case["M"][n - 1])))
            if not same_num(ob.get("logged-reward"), num(case["LR"][n - 1])):
                bad.append(("logged-reward", "interaction %d: logged reward %r, was %r" % (n, ob.get("logged-reward"), num(case["LR"][n - 1]))))
            if not same_num(ob.get("logged-probability"), num(case["LP"][n - 1])):
                bad.append(("logged-probability", "interaction %d: logged probability %r, was %r" % (n, ob.get("logged-probability"), num(case["LP"][n - 1]))))
    seen = set(); out_ = []
    for c, w in bad:
        if c not in seen: seen.add(c); out_.append((c, w))
    return out_


def chain_str(chain):
    def one(st):
        f = st["f"]
        if f == "repr": return "Repr(%s,%s)" % (st["x"], st["y"])
        if f == "sparsify": return "Sparsify(context=%s,action=%s)" % (st["x"] == "T", st["y"] == "T")
        if f == "densify": return "Densify(%s,context=%s,action=%s)" % ("hashing" if st["n"] else "lookup", st["x"] == "T", st["y"] == "T")
        if f == "noise": return "Noise(action=%s)" % {"fn": "x+10", "g3": "('g',0,1)", "g2": "(0,1)"}[st["x"]]
        if f == "batch": return "Batch(%s)" % (st["n"] or None)
        return f.capitalize() + "()"
    return " | ".join(one(st) for st in chain)


def describe(case, rd):
    diff = {k: v for k, v in rd.items() if PLAIN[k] != v}
    return "%s actions, %s rewards, %s, env=%s [%s] through %s" % (case["shape"], case["rk"], case["fl"], case["env"],
            ",".join("%s=%s" % kv for kv in sorted(diff.items())) or "plain", chain_str(case["chain"]))


def original(case, rd):
    """before any filter the real reward objects must give the spec's values (this binds the spec's reading of
    primitives.py - BinaryReward, DiscreteReward, HammingReward, L1Reward - and the conversion layer to the code)"""
    try:
        ints = build(case, rd)
    except Exception as e:
        return [("original", "raises:" + type(e).__name__, "building the interactions: %s: %s" % (type(e).__name__, str(e)[:100]))]
    return [("original", c, w) for c, w in compare(case, ints, [[n] for n in range(1, len(ints) + 1)], False)]


def norm_val(v):
    """a value as plain data (for 'the re-read equals the first read')"""
    import collections.abc
    from coba.primitives import Categorical
    if isinstance(v, Categorical): return ("cat", str(v))
    if v is None or isinstance(v, (str, int, float)): return v
    if callable(v): return "<callable>"          # reward objects are compared through the rewards they give (observe)
    if hasattr(v, "items"): return {k: norm_val(x) for k, x in v.items()}
    if hasattr(v, "__iter__"): return [norm_val(x) for x in v]
    return repr(v)


def same_output(a, b):
    """is the second read of an input the same as the first: same items, same values, same rewards per action"""
    if len(a) != len(b): return False
    try:
        if observe(a) != observe(b): return False
        return all(sorted(x) == sorted(y) and all(norm_val(x[k]) == norm_val(y[k]) for k in x) for x, y in zip(a, b))
    except Exception:
        return False


def steps_of(case):
    """[(step, layout, batched)..] of the chain, plus Environments' implicit Finalize when the spec says it may follow"""
    chain = case["chain"]
    steps = [(st, case["groups"][d], case["batched"][d]) for d, st in enumerate(chain)]
    has_fin = any(st["f"] == "finalize" for st in chain)
    if not has_fin and case["finOK"]:
        steps.append((dict(f="finalize", x="", y="", n=0), case["finGroups"], case["batched"][-1]))
    return steps, has_fin


REUSE = ":reused-object:"


def replay(case, rd, others=()):
    """-> (bad, reuse).  bad = [] or [(where, clause, what)..] for the first step whose output differs, fresh filter objects.
    reuse = [(signature, what, case)..]: with `others` (cases with the SAME chain, other environments) every filter OBJECT
    is also applied to the others' current state and then to this case's input again (the spec's REUSE RULE)."""
    from coba.pipes import Pipes
    from coba.environments import Environments
    from coba.primitives import Environment
    reuse = []
    bad = original(case, rd)
    if bad: return bad, reuse
    steps, has_fin = steps_of(case)
    cur = build(case, rd)
    live = []                      # [case, its steps, its current state, its label]
    for k, o in enumerate(others):
        if not original(o, rd): live.append([o, steps_of(o)[0], build(o, rd), "second-environment"])
    def attribute(o, f, clause, what, label):
        # a difference on a reused object: if fresh objects give it too it is the other case's own finding, not one of reuse
        fresh, _ = replay(o, rd)
        if fresh: return [(":".join([w, c]), "%s: %s" % (describe(o, rd), t), o) for w, c, t in fresh]
        return [(f + REUSE + label, "%s, filtered by the object that had filtered [%s] before: %s (%s)" % (describe(o, rd), describe(case, rd).split(" through ")[0], what, clause), o)]
    was_batched = False
    for d, (st, groups, batched) in enumerate(steps):
        try:
            flt = mk_filter(st, was_batched, rd)
            out = list(flt.filter(cur))
        except Exception as e:
            return [(st["f"], "raises:" + type(e).__name__, "%s: %s" % (type(e).__name__, str(e)[:100]))], reuse
        bad = compare(case, out, groups, batched)
        if bad: return [(st["f"], c, w) for c, w in bad], reuse
        for item in list(live):            # the same object, the other environments
            o, osteps, ocur, label = item
            if d >= len(osteps): live.remove(item); continue
            try:
                oout = list(flt.filter(ocur)); obad = compare(o, oout, osteps[d][1], osteps[d][2])
            except Exception as e:
                oout = None; obad = [("raises:" + type(e).__name__, "%s: %s" % (type(e).__name__, str(e)[:100]))]
            if obad:
                reuse += attribute(o, st["f"], obad[0][0], obad[0][1], label); live.remove(item)
            else: item[2] = oout
        if others:                         # the same object, the first input again
            try:
                again = list(flt.filter(cur)); abad = compare(case, again, groups, batched)
            except Exception as e:
                again = None; abad = [("raises:" + type(e).__name__, "%s: %s" % (type(e).__name__, str(e)[:100]))]
            if abad: reuse.append((st["f"] + REUSE + "first-environment-again", "%s, read again after other environments: %s (%s)" % (describe(case, rd), abad[0][1], abad[0][0]), case))
            elif case["reuse"]["reread"] == "identical" and not same_output(out, again):
                reuse.append((st["f"] + REUSE + "reread-differs", "%s: the second read of the same input differs from the first: %r / %r" % (describe(case, rd), [norm_val(x.get("actions")) for x in out][:1], [norm_val(x.get("actions")) for x in again][:1]), case))
        cur = out; was_batched = batched
    # the same chain as one lazy pipeline
    def env_of(c):
        class Env(Environment):
            def read(self): return iter(build(c, rd))
        return Env()
    try:
        filters = []; wb = False
        for st, groups, batched in steps: filters.append(mk_filter(st, wb, rd)); wb = batched
        out = list(Pipes.join(env_of(case), *filters).read())
    except Exception as e:
        return [("pipeline", "raises:" + type(e).__name__, "%s: %s" % (type(e).__name__, str(e)[:100]))], reuse
    bad = compare(case, out, steps[-1][1], steps[-1][2])
    if bad: return [("pipeline", c, w) for c, w in bad], reuse
    # and through the Environments shortcuts (an implicit BatchSafe(Finalize()) is appended when there is none); one
    # Environments object over this and the other environments shares each filter object among them
    if has_fin or case["finOK"]:
        group = [case] + [o for o in others if (has_fin or o["finOK"]) and not original(o, rd)]
        try:
            envs = Environments.from_custom(*[env_of(c) for c in group])
            for st in case["chain"]: envs = shortcut(envs, st, rd)
            pipes = list(envs)
            out = list(pipes[0].read())
        except Exception as e:
            return [("shortcut", "raises:" + type(e).__name__, "%s: %s" % (type(e).__name__, str(e)[:100]))], reuse
        bad = compare(case, out, steps[-1][1], steps[-1][2])
        if bad: return [("shortcut", c, w) for c, w in bad], reuse
        for o, pipe in zip(group[1:], pipes[1:]):
            osteps = steps_of(o)[0]
            try: obad = compare(o, list(pipe.read()), osteps[-1][1], osteps[-1][2])
            except Exception as e: obad = [("raises:" + type(e).__name__, "%s: %s" % (type(e).__name__, str(e)[:100]))]
            if obad: reuse += attribute(o, "shortcut", obad[0][0], obad[0][1], "second-environment")
        if len(group) > 1:
            try: again = list(pipes[0].read()); abad = compare(case, again, steps[-1][1], steps[-1][2])
            except Exception as e: again = None; abad = [("raises:" + type(e).__name__, "%s: %s" % (type(e).__name__, str(e)[:100]))]
            if abad: reuse.append(("shortcut" + REUSE + "first-environment-again", "%s, read again after other environments: %s (%s)" % (describe(case, rd), abad[0][1], abad[0][0]), case))
            elif not same_output(out, again): reuse.append(("shortcut" + REUSE + "reread-differs", "%s: the second read of the same pipeline differs from the first" % describe(case, rd), case))
    return [], reuse


# ---- TLC chunks ------------------------------------------------------------------------------------------------
ALL_SHAPES = ("scalar", "string", "cat", "dense", "densecat", "nested", "sparse", "sparsecat", "sparsecatk", "sparsenest", "sparsepart", "sparsezero", "nestedcat", "nestedmix", "sparsenestcat", "sparsenull")


def chunks(ctx):
    """(name, MaxLen, levels, shapes, flavours, envs, check Idempotent, Mixes)"""
    if ctx.quick:
        return [("len1", 1, ("full", "off", "off"), ALL_SHAPES, ("igl", "logged"), ("diff", "rev"), True, "none"),
                ("len2", 2, ("tiny", "tiny", "off"), ("scalar", "cat", "densecat", "nested", "sparsecat", "sparsepart", "sparsezero", "nestedcat", "sparsenestcat", "sparsenull"), ("iglmix", "logged"), ("same", "rev"), False, "none"),
                ("mix1", 1, ("tiny", "off", "off"), ALL_SHAPES, ("igl",), ("same",), False, "only")]
    return [("len1", 1, ("full", "off", "off"), ALL_SHAPES, ("sim", "igl", "iglmix", "logged"), ("one", "same", "diff", "samediff", "rev"), True, "none"),
            ("len2", 2, ("lite", "lite", "off"), ALL_SHAPES, ("igl", "iglmix", "logged"), ("same", "diff", "rev"), False, "none"),
            ("len3", 3, ("tiny", "tiny", "tiny"), ALL_SHAPES, ("iglmix", "logged"), ("diff", "rev"), False, "none"),
            ("mix1", 1, ("full", "off", "off"), ALL_SHAPES, ("igl", "logged"), ("same", "samediff", "rev"), False, "only"),
            ("mix2", 2, ("tiny", "tiny", "off"), ALL_SHAPES, ("igl",), ("same", "diff"), False, "only")]


def tla_set(xs): return "{" + ", ".join('"%s"' % x for x in xs) + "}"


def tlc_chunk(ctx, name, maxlen, levels, shapes, flavours, envs, idem, mixes):
    """the TLC run of one chunk (runs in a thread: the chunks' model checking overlaps with each other and with the replay)"""
    sub = {"MaxLen = 1": "MaxLen = %d" % maxlen, 'Level1 = "full"': 'Level1 = "%s"' % levels[0], 'Level2 = "off"': 'Level2 = "%s"' % levels[1],
           'Level3 = "off"': 'Level3 = "%s"' % levels[2],
           'Shapes = {"scalar", "string", "cat", "dense", "densecat", "nested", "sparse", "sparsecat", "sparsecatk", "sparsenest", "sparsepart", "sparsezero", "nestedcat", "nestedmix", "sparsenestcat", "sparsenull"}': "Shapes = " + tla_set(shapes),
           'Flavours = {"sim", "igl", "iglmix", "logged"}': "Flavours = " + tla_set(flavours),
           'Envs = {"one", "same", "diff"}': "Envs = " + tla_set(envs), 'Mixes = "none"': 'Mixes = "%s"' % mixes}
    if not idem: sub["INVARIANT Idempotent"] = ""
    cfg = tracecheck._cfg("ReprFilters.cfg", sub, ctx.scratch, "repr_%s.cfg" % name)
    r = tlc.run("ReprFilters", cfg, ctx.scratch, workers=ctx.pick(6, 8), timeout=1400, heap="8g", seed=ctx.seed, coverage=True)
    r.out = ""
    return r


def finish_chunk(ctx, r, name, maxlen):
    need = ["ReprStep", "FlattenStep", "SparsifyStep", "DensifyStep", "NoiseStep", "BatchStep", "FinalizeStep"] + (["UnbatchStep"] if maxlen > 1 else [])
    ctx.add_tlc("ReprFilters_" + name, r, required_actions=need)
    for v in r.violations:
        ctx.violation("spec:%s" % (v["name"] or v["kind"]), "ReprFilters.tla itself violates %s" % (v["name"] or v["kind"]), v["trace"][:60])
    r.out = ""
    cases = [j for j in r.json if isinstance(j, dict) and "chain" in j and "expR" in j]
    r.json = []
    if len(cases) < 500: raise RuntimeError("ReprFilters %s produced only %d cases" % (name, len(cases)))
    for c in cases: c["key"] = "%s|%s|%s|%s" % (c["shape"], c["fl"], c["env"], json.dumps(c["chain"], sort_keys=True))
    cases.sort(key=lambda c: (c["key"], c["rk"]))
    return cases


def qualifier(case, rd, where, clause):
    """a minimal set of rendering features that, added to the plain rendering, makes (where, clause) fail (greedy reduction)"""
    def fails(r): return any(w == where and c == clause for w, c, _ in replay(case, r)[0])
    cur = dict(rd)
    for f in sorted(rd):
        if cur[f] == PLAIN[f]: continue
        trial = dict(cur); trial[f] = PLAIN[f]
        if fails(trial): cur = trial
    name = lambda v: v.rstrip("2") if isinstance(v, str) else v
    return ",".join("%s=%s" % (f, name(cur[f])) for f in sorted(cur) if cur[f] != PLAIN[f])


_CASES = []          # the chunk's cases, inherited by the forked workers
_OTHERS = {}         # index of a case -> indexes of the other environments its filter objects are reused on


def choose_others(cases, both=True):
    """For every primary case two other cases of the chunk with the SAME chain (so the same filter objects apply): one of
    another action shape (another flavour / reward kind where there is one) and one of the same shape whose environment starts
    with the other action set (env `rev`, another reward kind).  Deterministic in the case."""
    by_chain = {}
    for i, c in enumerate(cases): by_chain.setdefault(json.dumps(c["chain"], sort_keys=True), []).append(i)
    others = {}
    for idxs in by_chain.values():
        for i in idxs:
            c = cases[i]
            if c["env"] == "rev": continue
            h = zlib.crc32((c["key"] + "|" + c["rk"]).encode())
            pick_ = []
            for pools in (([j for j in idxs if cases[j]["shape"] != c["shape"] and cases[j]["fl"] != c["fl"] and cases[j]["rk"] != c["rk"]],
                           [j for j in idxs if cases[j]["shape"] != c["shape"]]),
                          ([j for j in idxs if cases[j]["shape"] == c["shape"] and cases[j]["env"] == "rev" and cases[j]["rk"] != c["rk"]],
                           [j for j in idxs if cases[j]["shape"] == c["shape"] and cases[j]["env"] == "rev"])):
                pool = next((p for p in pools if p), None)
                if pool: pick_.append(pool[h % len(pool)])
            others[i] = pick_ if both or len(pick_) < 2 else [pick_[(h >> 8) % 2]]     # quick: one of the two, alternating
    return others


def replay_both(i):
    c = _CASES[i]
    rd = rendering(zlib.crc32(c["key"].encode()) + _SEED)      # the same for all reward kinds of one (environment, chain)
    d0, reuse = replay(c, PLAIN, [_CASES[j] for j in _OTHERS[i]])
    d1, _ = replay(c, rd)
    return rd, d0, d1, [(sig, what, o["key"] + "|" + o["rk"]) for sig, what, o in reuse]


def replay_all(cases, seed, both):
    """both renderings of every primary case, in order (the `rev` environments only serve as second environments); the work
    is spread over forked workers (replay is a pure function of the case and of the others chosen for it)"""
    import multiprocessing, os
    global _CASES, _OTHERS, _SEED
    _CASES = cases; _OTHERS = choose_others(cases, both); _SEED = seed
    todo = sorted(_OTHERS)
    n = min(16, os.cpu_count() or 1)
    if n < 2 or len(todo) < 2000: return todo, [replay_both(i) for i in todo]
    with multiprocessing.get_context("fork").Pool(n) as pool:
        return todo, pool.map(replay_both, todo, chunksize=100)


def run(ctx):
    import warnings
    warnings.filterwarnings("ignore")
    import coba.environments, coba.pipes      # imported before the workers are forked
    total = 0; ncase = 0; by_depth = {}; by_shape = {}; steps_checked = 0; excluded = 0; second = 0
    import concurrent.futures
    pool = concurrent.futures.ThreadPoolExecutor(max_workers=ctx.pick(3, 2))
    futures = [(chunk, pool.submit(tlc_chunk, ctx, *chunk)) for chunk in chunks(ctx)]
    for chunk, fut in futures:
        cases = finish_chunk(ctx, fut.result(), chunk[0], chunk[1])
        bad_of = {}              # (key, rk, which rendering) -> {(where, clause)}
        pending = []
        todo, results = replay_all(cases, ctx.seed, not ctx.quick)
        reused = {}
        for i, (rd, d0, d1, reuse) in zip(todo, results):
            c = cases[i]
            ncase += 1
            ctx.case(c["key"] + "|" + c["rk"])
            by_depth[len(c["chain"])] = by_depth.get(len(c["chain"]), 0) + 1
            by_shape[c["shape"]] = by_shape.get(c["shape"], 0) + 1
            napp = len(c["chain"]) + 1
            steps_checked += napp * (3 + len(_OTHERS[i]))
            if not c["finOK"]: excluded += 1
            total += 2 + 2 * (1 + len(_OTHERS[i])); second += len(_OTHERS[i])
            bad_of[(c["key"], c["rk"], 0)] = {(w, cl) for w, cl, _ in d0}
            bad_of[(c["key"], c["rk"], 1)] = {(w, cl) for w, cl, _ in d1}
            if d0 or d1: pending.append((c, rd, d0, d1))
            for sig, what, okey in reuse: reused.setdefault((sig, okey), what)
            if ncase % 997 == 1:
                ctx.sample(dict(case=describe(c, rd), same_filter_objects_then_applied_to=[describe(cases[j], PLAIN).split(" through ")[0] for j in _OTHERS[i]],
                                demanded=dict(rewards=c["expR"], feedbacks=c["expF"], logged_member=c["M"], layout=c["groups"][-1])), limit=5)
        for (sig, okey), what in sorted(reused.items()):
            ctx.violation(sig, what, dict(case_key=okey, rendering=PLAIN))
        def table_qual(c, which, where, clause):
            # the same environment and chain with the table written in the interaction's own order is fine: the order is what matters
            if c["rk"] in ("discrev", "discpart") and (where, clause) not in bad_of.get((c["key"], "disc", which), {(where, clause)}):
                return [("table=reversed" if c["rk"] == "discrev" else "table=partial")]
            return []
        plain_sigs = set()
        for c, rd, d0, d1 in pending:
            for where, clause, what in d0:
                sig = ":".join([where, clause] + table_qual(c, 0, where, clause)); plain_sigs.add(sig)
                ctx.violation(sig, "%s: %s" % (describe(c, PLAIN), what), dict(case=c, rendering=PLAIN))
        for c, rd, d0, d1 in pending:
            plain_clauses = {cl for _, cl, _ in d0}
            for where, clause, what in d1:
                if clause in plain_clauses: continue      # this clause already fails for this case in its plain form (reported above)
                sig = ":".join([where, clause] + table_qual(c, 1, where, clause))
                if sig not in plain_sigs and sig.count(":") == (2 if clause.startswith("raises") else 1):
                    sig += ":" + qualifier(c, rd, where, clause)       # only the non-plain form fails like this: name the feature
                ctx.violation(sig, "%s: %s" % (describe(c, rd), what), dict(case=c, rendering=rd))
        del cases
    ctx.exhaustive = True
    ctx.traces += total
    ctx.extra["cases_by_chain_length"] = by_depth
    ctx.extra["cases_by_action_shape"] = by_shape
    ctx.extra["filter_outputs_compared"] = steps_checked
    ctx.extra["second_environments_filtered_by_reused_objects"] = second
    ctx.extra["cases_whose_implicit_finalize_is_outside_the_domain"] = excluded
    ctx.assumptions += [
        "a chain is in the domain when every step is an injective relabelling of each interaction's actions (decided by the spec's guard on its abstract values: chains that merge two actions - trailing zeros under Sparsify, explicit zeros under Densify / Flatten of a mapping - are not generated); all actions of an environment have the same form (filters decide by the first interaction / first action)",
        "Densify's key -> index map is injective: lookup with n_feats = %d >= number of keys; hashing with n_feats = %d chosen so that crc32 has no collision on the keys that can occur" % (LOOKUP_FEATS, HASH_FEATS),
        "action noise is an injective perturbation: the callable x+10 or gaussian noise (float collisions not considered); integer noise ('i',a,b) can merge actions and is outside the domain",
        "a batched environment is only unbatched or finalized (through BatchSafe, as Environments does); torch batches are not covered",
        "reward functions are asked only about the interaction's own actions; 'arbitrary callable' = a lookup table by == ; HammingReward only over flat numeric label vectors, L1Reward only over numbers",
        "equal-but-not-identical reward arguments (ident=copy/alias) are objects that the reward function's own == identifies with the action BEFORE any filter is applied (checked for every case: str vs Categorical, float vs int, LazyDense vs tuple/list, HashableSparse vs dict)",
        "the concrete representation of the new actions (key names, vector positions) is not compared with the model, only what the property relates: rewards / feedbacks per position, membership position of the logged action, logged reward and probability, and the batch layout",
    ]
