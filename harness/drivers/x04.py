"""X04 - the logger protocol: spec/Loggers.tla (+ MC_Loggers.tla, Loggers.cfg).

Loggers.tla is coba/context/loggers.py as a state machine over PROGRAMS (nestings of `with logger.log(m):`,
`with logger.time(m):`, bare logs, bodies that end normally / raise Exception / raise KeyboardInterrupt at any depth):
state = stack of open contexts, held-back lines, written lines, level, clock; one action per program step.  TLC
enumerates every program up to the bounds for each logger kind (basic / indent / null / exception) and decorator
configuration, checks the design invariants in every state (every line exactly once, program order with each timing
line at its reserved place, balanced level, nothing held back without an open time context, the escaping exception
is the raised one, outcome suffixes, clean state at the end) and prints each program with the lines expected in the
sink after every step.  Three deliberately broken designs must be rejected.

The driver runs every program on the REAL logger (real `with` statements, a fake clock in place of
coba.context.loggers.time) writing to a ListSink: sink contents are compared after EVERY step and at the end, the
escaping exception must be the very object raised; the same logger OBJECT then runs a second program and a bare log
(no state may carry over); two logger objects run two programs with their steps interleaved; decorated loggers are
redirected to a second sink and undecorated; DecoratedLogger([], inner, []) must equal the plain logger.  Finally
real CobaMultiprocessor runs: worker processes execute programs on the re-installed CobaContext.logger and the
parent's sink must receive exactly the multiset of expected lines."""
import collections, json, os, random, re, subprocess, sys, traceback
from concurrent.futures import ThreadPoolExecutor
from .. import tlc, tracecheck

FINISH = dict(level="model_checking",
              rule="a case = one TLC-generated program executed on one real logger object in one mode (first+second program on the same object / two objects interleaved / redirected+undecorated / empty decoration) or one real multi-process run; distinct = distinct (configuration, program, mode)")

TICK = 0.25          # the fake clock advances by this much per reading (exactly representable: round(k*TICK, 2) is exact)
STAMP = (2020, 1, 2, 3, 4, 5)
_SECONDS = re.compile(r"\((\d+(?:\.\d+)?) seconds\)")


# ------------------------------------------------------------------ deterministic pieces used in-process and in workers
class FakeClock:
    """stands in for the module `time` inside coba.context.loggers: .time() advances by TICK per call and remembers during
    which program step each reading was taken"""
    def __init__(self): self.k = 0; self.mark = None; self.reads = []
    def time(self):
        self.k += 1; v = 1000.0 + TICK * self.k
        self.reads.append((self.mark, v)); return v


class Tag:
    """a NameLog / StampLog-like prefixer with a fixed prefix"""
    def __init__(self, name): self._name = name
    def filter(self, item): return "%s|%s" % (self._name, item)


try:
    from coba.context import StampLog as _StampLog
    import datetime as _dt

    class FixedStamp(_StampLog):
        """the real StampLog with a fixed `now` (as the repository's own test patches it)"""
        def _now(self): return _dt.datetime(*STAMP)
except ImportError:       # pragma: no cover
    FixedStamp = None


def _decorator(tag):
    from coba.context import ExceptLog, NameLog
    if tag == "ExceptLog": return ExceptLog()
    if tag == "name": return NameLog()
    if tag == "stamp": return FixedStamp()
    return Tag(tag[3:])


def build(kind, pre, post, sink):
    """-> (logger to use, inner logger)"""
    from coba.context import BasicLogger, IndentLogger, NullLogger, ExceptionLogger, DecoratedLogger
    inner = {"basic": BasicLogger, "indent": IndentLogger, "null": NullLogger, "exception": ExceptionLogger}[kind](sink)
    if pre is None: return inner, inner
    return DecoratedLogger([_decorator(p) for p in pre], inner, [_decorator(p) for p in post]), inner


class Raised(RuntimeError):
    pass


def body(L, steps, i, st):
    """the program as real Python: a generator that yields the number of every completed step (so that two programs can be
    interleaved); `with` statements are real, a raise leaves through all of them"""
    from coba.exceptions import CobaException
    fmt = st["fmt"]
    while i < len(steps):
        op = steps[i]["op"]; k = i + 1; m = fmt % k
        st["clock"].mark = (st["tag"], k)
        if op == "log":
            L.log(m); yield k; i += 1
        elif op == "logxC":
            L.log(CobaException(m)); yield k; i += 1
        elif op == "logxO":
            L.log(ValueError(m)); yield k; i += 1
        elif op in ("enter_log", "enter_time"):
            cm = L.log(m) if op == "enter_log" else L.time(m)
            with cm:
                yield k
                i = yield from body(L, steps, i + 1, st)
            if st["raised"] is not None:     # control comes back although the body raised: a context swallowed the exception - the program is over
                return len(steps)
            yield i                      # the `exit` step (number i) is complete once the with block has been left
        elif op == "exit":
            return i + 1
        elif op in ("raiseE", "raiseK"):
            e = Raised("boom %d" % k) if op == "raiseE" else KeyboardInterrupt()
            st["raised"] = e
            raise e
        else:
            raise AssertionError(op)
    return i


def analyse(steps):
    """which step closes which time context, and how many clock readings the spec places in each step"""
    stack = []; close = {}; nreads = {}
    for i, s in enumerate(steps):
        k = i + 1; op = s["op"]
        if op == "enter_log": stack.append((k, "log"))
        elif op == "enter_time": stack.append((k, "time")); nreads[k] = 1
        elif op == "exit":
            m, kd = stack.pop()
            if kd == "time": close[m] = (k, 0); nreads[k] = 1
        elif op.startswith("raise"):
            idx = 0
            for m, kd in reversed(stack):
                if kd == "time": close[m] = (k, idx); idx += 1
            nreads[k] = idx; stack = []
    return close, nreads


def ticks_from_reads(steps, reads, tag):
    """t = exit reading - entry reading, from the readings the real logger took (None where they cannot be attributed)"""
    close, nreads = analyse(steps)
    by = collections.defaultdict(list)
    for mark, v in reads:
        if mark is not None and mark[0] == tag: by[mark[1]].append(v)
    out = {}
    for m, (k, idx) in close.items():
        a, b = by.get(m, []), by.get(k, [])
        out[m] = int(round((b[idx] - a[0]) / TICK)) if (len(a) == 1 and len(b) == nreads[k]) else None
    return out


def _exc_text(x, msg):
    if x == "coba": return "EXCEPTION: " + msg                               # ExceptLog: a CobaException -> its message only
    ex = ValueError(msg)                                                     # ExceptLog: any other exception -> a traceback text (never raised: no frames)
    return "Unexpected exception:\n\n  " + "".join(traceback.TracebackException.from_exception(ex).format_exception_only())


BARE = dict(m=0, x="str", ind=0, bul="", t=-1, suf="")      # a bare log at level 0


def render(ln, pre, post, pid, tmap, fmt="m%d", text=None):
    """the text of one line record of the spec (see the header of Loggers.tla)"""
    msg = text if text is not None else fmt % ln["m"]
    if ln["x"] != "str": msg = _exc_text(ln["x"], msg)
    for p in (pre or []):
        if p != "ExceptLog": msg = "%s|%s" % (p[3:], msg)
    s = "  " * ln["ind"] + ln["bul"] + msg
    if ln["t"] >= 0:
        t = tmap.get(ln["m"], ln["t"]) if tmap is not None else ln["t"]
        s += " (%s seconds)" % ("<T>" if t is None else repr(round(t * TICK, 2)))
    if ln["suf"]: s += " " + ln["suf"]
    for p in (post or []):
        if p == "name": s = "pid-%-6d -- %s" % (pid, s)
        elif p == "stamp": s = "%04d-%02d-%02d %02d:%02d:%02d -- %s" % (STAMP + (s,))
        else: s = "%s|%s" % (p[3:], s)
    return s


def mask(lines): return [_SECONDS.sub("(<T> seconds)", l) if isinstance(l, str) else l for l in lines]


_IND = re.compile(r"(?:^|(?<= -- )|(?<=\|))(?:  )*(?:\* |> |- |\+ |~)?((?:[A-Z]\|)*(?:EXCEPTION: |Unexpected exception:|p\d+\.m\d+|m\d+|tail|parent-after))")
_OUT = re.compile(r"\((completed|exception|interrupt|error)\)")


def strip_indent(lines): return [_IND.sub(r"\1", l, count=1) for l in lines]


def classify(got, exp, final):
    """a short stable name for how the sink differs from the expectation"""
    if got == exp: return None
    if any(not isinstance(g, str) for g in got): return "not-text"
    if len(got) < len(exp): return "lines-missing" if final else "written-late"
    if len(got) > len(exp): return "lines-extra" if final else "written-early"
    if collections.Counter(got) == collections.Counter(exp): return "order"
    classes = set()
    for g, e in zip(got, exp):
        if g == e: continue
        if mask([g]) == mask([e]): classes.add("seconds")
        elif _OUT.sub("()", g) == _OUT.sub("()", e): classes.add("outcome")
        elif strip_indent([g]) == strip_indent([e]): classes.add("indentation")
        elif g.replace("|", "").replace(" -- ", "").endswith(e.replace("|", "").replace(" -- ", "")[-4:]) and (g.count("|") + g.count(" -- ") != e.count("|") + e.count(" -- ")): classes.add("decoration")
        else: classes.add("text")
    return classes.pop() if len(classes) == 1 else "text"


class Runner:
    """one program on one logger object: executes the steps, snapshots the sink after every step, then judges"""
    def __init__(self, rec, L, sink, clock, tag, base, pid, pre, post, fmt="m%d"):
        self.rec = rec; self.L = L; self.sink = sink; self.clock = clock; self.tag = tag; self.base = base
        self.pid = pid; self.pre = pre; self.post = post; self.fmt = fmt
        self.st = dict(clock=clock, tag=tag, fmt=fmt, raised=None)
        self.g = body(L, rec["steps"], 0, self.st); self.snaps = {}; self.esc = None; self.over = False; self.read0 = len(clock.reads)

    def step(self):
        """advance by one program step; False when the program is over"""
        if self.over: return False
        try:
            k = next(self.g)
            self.snaps[k] = list(self.sink.items[self.base:])
            return True
        except StopIteration:
            self.over = True
        except BaseException as e:          # the program's own exception (Exception or KeyboardInterrupt) leaving the outermost context
            self.esc = e; self.over = True
        self.clock.mark = None
        self.final = list(self.sink.items[self.base:])
        return False

    def run(self):
        while self.step(): pass
        return self

    def judge(self, sequential):
        """-> None or (class, text)"""
        rec = self.rec; steps = rec["steps"]
        want = rec["esc"]
        if want == "none":
            if self.esc is not None: return ("escape", "the program raised nothing but %s: %s left it" % (type(self.esc).__name__, str(self.esc)[:80]))
        else:
            if self.esc is None: return ("escape", "the raised %s did not leave the program" % ("Exception" if want == "E" else "KeyboardInterrupt"))
            if self.esc is not self.st["raised"]:
                return ("escape", "the program raised %r but %s: %s left it" % (self.st["raised"], type(self.esc).__name__, str(self.esc)[:80]))
        reads = self.clock.reads[self.read0:]
        mine = [r for r in reads if r[0] is not None and r[0][0] == self.tag]
        if sequential and len(mine) == rec["reads"] and len(mine) == len(reads): tmap = None          # the spec's own clock applies
        else: tmap = ticks_from_reads(steps, reads, self.tag)
        exp = [render(ln, self.pre, self.post, self.pid, tmap, self.fmt) for ln in rec["lines"]]
        masked = tmap is not None and any(v is None for v in tmap.values())
        norm = mask if masked else (lambda x: x)
        for k in sorted(self.snaps):
            nout = steps[k - 1]["nout"]
            if nout < 0: continue
            c = classify(norm(self.snaps[k]), norm(exp[:nout]), False)
            if c: return (c, "after step %d (%s) the sink holds %r, expected %r" % (k, steps[k - 1]["op"], self.snaps[k], exp[:nout]))
        c = classify(norm(self.final), norm(exp), True)
        if c: return (c, "after the program the sink holds %r, expected %r" % (self.final, exp))
        return None


def show(rec): return " ".join(s["op"] for s in rec["steps"])


# ------------------------------------------------------------------ worker side of the real multi-process runs
class ProgFilter:
    """runs one program on CobaContext.logger inside a worker process (fake clock installed there)"""
    def filter(self, item):
        import coba.context.loggers as LG
        from coba.context import CobaContext
        from coba.pipes import ListSink
        clock = FakeClock(); old = LG.time; LG.time = clock
        try:
            rec = dict(steps=item["steps"], lines=[], esc="none", reads=0)
            r = Runner(rec, CobaContext.logger, ListSink(), clock, "w", 0, os.getpid(), None, None, fmt="p%d." % item["id"] + "m%d").run()
            esc = None if r.esc is None else ("E" if isinstance(r.esc, Raised) and r.esc is r.st["raised"] else "K" if isinstance(r.esc, KeyboardInterrupt) and r.esc is r.st["raised"] else "other:" + repr(r.esc))
            yield dict(id=item["id"], esc=esc, pid=os.getpid(), reads=[[m[1] if m else 0, v] for m, v in clock.reads])
        finally:
            LG.time = old


MP_SCRIPT = r"""
import sys, json
sys.path.insert(0, %r)
from harness.drivers import x04
from coba.context import CobaContext
from coba.multiprocessing import CobaMultiprocessor
from coba.pipes import ListSink
if __name__ == '__main__':
    job = json.load(open(sys.argv[1]))
    sink = ListSink()
    logger, inner = x04.build(job['kind'], job['pre'], job['post'], sink)
    CobaContext.logger = logger
    out = dict(res=[], exc=None, opened=None)
    try:
        if job.get('open'):                      # the parent is itself inside a context while the workers log
            with (logger.time('outer') if job['open'] == 'time' else logger.log('outer')):
                out['res'] = list(CobaMultiprocessor(x04.ProgFilter(), job['P'], job['Max']).filter(job['items']))
        else:
            out['res'] = list(CobaMultiprocessor(x04.ProgFilter(), job['P'], job['Max']).filter(job['items']))
    except BaseException as e:
        out['exc'] = type(e).__name__ + ':' + str(e)
    out['same_logger'] = CobaContext.logger is logger
    import os; out['pid'] = os.getpid()
    out['same_sink'] = logger.sink is sink
    out['lines'] = list(sink.items)
    logger.log('parent-after')
    out['after'] = list(sink.items)[len(out['lines']):]
    print(json.dumps(out))
"""


# ------------------------------------------------------------------ the check
def configs(ctx):
    q = ctx.quick
    C = []
    def add(name, kind, pre, post, alpha, steps, depth, prefix=0):
        C.append(dict(name=name, kind=kind, pre=pre, post=post, sub={
            'Kind = "indent"': 'Kind = "%s"' % kind, "Pre <- NoDec": "Pre <- %s" % pre, "Post <- NoDec": "Post <- %s" % post,
            "Alphabet <- AlphaAll": "Alphabet <- %s" % alpha, "MaxSteps = 5": "MaxSteps = %d" % steps, "MaxDepth = 3": "MaxDepth = %d" % depth,
            "MinPrefix = 0": "MinPrefix = %d" % prefix}))
    add("indent-plain", "indent", "NoDec", "NoDec", "AlphaAll", 6 if q else 8, 3 if q else 4)
    add("basic-plain", "basic", "NoDec", "NoDec", "AlphaAll", 6 if q else 8, 3 if q else 4)
    add("indent-dec", "indent", "PreEP", "PostNS", "AlphaX", 5 if q else 6, 3)
    add("basic-dec", "basic", "PreEP", "PostNS", "AlphaX", 5 if q else 6, 3)
    add("indent-dec2", "indent", "PreP", "PostT", "AlphaAll", 4 if q else 6, 3)
    add("basic-dec2", "basic", "PreP", "PostT", "AlphaAll", 4 if q else 6, 3)
    add("null", "null", "NoDec", "NoDec", "AlphaX", 4 if q else 6, 2 if q else 3)
    add("exception-plain", "exception", "NoDec", "NoDec", "AlphaX", 4 if q else 6, 2 if q else 3)
    add("exception-dec", "exception", "NoDec", "PostNS", "AlphaX", 4 if q else 5, 2)
    if q:
        add("indent-deep", "indent", "NoDec", "NoDec", "AlphaDeep", 10, 6, 5)
    else:
        add("indent-deep", "indent", "NoDec", "NoDec", "AlphaAll", 11, 6, 5)
        add("indent-deeper", "indent", "NoDec", "NoDec", "AlphaAll", 13, 6, 6)
        add("indent-dec-deep", "indent", "PreEP", "PostNS", "AlphaDeep", 10, 6, 5)
        add("basic-deep", "basic", "NoDec", "NoDec", "AlphaDeep", 10, 6, 5)
    return C


GUARDS = [("flush_any", "held-back lines flushed when ANY time context exits", "indent", {"NoPlaceholderWritten", "OrderIndent", "NothingHeld"}),
          ("level_leak", "level not restored when a context is left by an exception", "indent", {"Balanced", "CleanAtEnd"}),
          ("k_completed", "KeyboardInterrupt reported as (completed)", "basic", {"Outcomes"})]
INVARIANTS = ["ExactlyOnce", "NoPlaceholderWritten", "Balanced", "NothingHeld", "CleanAtEnd", "EscapeIsRaised", "OrderIndent", "OrderBasic",
              "Outcomes", "AllReported", "Silent"]


def run(ctx):
    import coba.context.loggers as LG
    from coba.pipes import ListSink
    rng = random.Random(ctx.seed)
    pid = os.getpid()
    C = configs(ctx)
    DEC = {"NoDec": [], "PreEP": ["ExceptLog", "tagP"], "PreP": ["tagP", "tagQ"], "PostNS": ["name", "stamp"], "PostT": ["tagX", "tagY"]}

    # ---- 1. TLC: the protocol and its guards ----
    def tlc_job(job):
        name, sub = job
        cfg = tracecheck._cfg("Loggers.cfg", sub, ctx.scratch, "lg_%s.cfg" % name)
        guard = name.startswith("guard-")          # a guard run stops at its first violation: one worker keeps its counts reproducible
        return name, tlc.run("MC_Loggers", cfg, ctx.scratch, workers=1 if guard else 4, timeout=1500, heap="6g", coverage=name.endswith("-plain"))
    jobs = [(c["name"], c["sub"]) for c in C]
    for g, _, kind, _ in GUARDS:
        jobs.append(("guard-" + g, {'Variant = "ok"': 'Variant = "%s"' % g, 'Kind = "indent"': 'Kind = "%s"' % kind}))
    with ThreadPoolExecutor(max_workers=4) as ex:
        results = dict(ex.map(tlc_job, jobs))
    for g, what, kind, expect in GUARDS:
        r = results["guard-" + g]
        ctx.add_tlc("Loggers guard " + g, r)
        names = {v["name"] for v in r.violations}
        if not (names & expect):
            raise RuntimeError("the broken design %r (%s) is not rejected by any of %s: the invariants are vacuous" % (g, what, sorted(expect)))
    ctx.extra["guards_rejected"] = {g: sorted({v["name"] for v in results["guard-" + g].violations}) for g, _, _, _ in GUARDS}
    progs = {}
    for c in C:
        r = results[c["name"]]
        ctx.add_tlc("Loggers " + c["name"], r, required_actions=(["Log", "EnterLog", "EnterTime", "ExitNormally", "Unwind", "Finish"] if c["name"].endswith("-plain") else ()))
        for v in r.violations:
            ctx.violation("spec:%s" % (v["name"] or v["kind"]), "Loggers.tla (%s) itself violates %s" % (c["name"], v["name"]), v["trace"][:60])
        recs = [j for j in r.json if isinstance(j, dict) and "steps" in j and j.get("kind") == c["kind"]]
        seen = {}
        for j in recs: seen.setdefault(show(j), j)
        progs[c["name"]] = [seen[k] for k in sorted(seen)]
        if len(progs[c["name"]]) < 50: raise RuntimeError("Loggers %s produced only %d programs" % (c["name"], len(progs[c["name"]])))
        assert c["pre"] in DEC and c["post"] in DEC
        for j in progs[c["name"]][:3]:
            assert j["pre"] == DEC[c["pre"]] and j["post"] == DEC[c["post"]], (j["pre"], j["post"])
    ctx.exhaustive = True
    ctx.extra["programs"] = {k: len(v) for k, v in progs.items()}

    # ---- 2. every program on the real loggers ----
    old_time = LG.time
    total = 0
    try:
        for c in C:
            kind = c["kind"]; P = progs[c["name"]]
            pre, post = DEC[c["pre"]], DEC[c["post"]]
            decorated = bool(pre or post)
            variants = [("dec" if decorated else "plain", pre if decorated else None, post if decorated else None)]
            if not decorated: variants.append(("dec-empty", [], []))
            partner = P[:]; rng.shuffle(partner)
            for idx, A in enumerate(P):
                B = partner[idx]
                total += 1
                for vname, vpre, vpost in variants:
                    sig0 = "%s:%s" % (kind, vname)
                    # (a) the program, then a second program and a bare log on the same OBJECT
                    clock = FakeClock(); LG.time = clock
                    sink = ListSink(); L, inner = build(kind, vpre, vpost, sink)
                    ctx.case((c["name"], vname, "first", show(A)))
                    r1 = Runner(A, L, sink, clock, "a", 0, pid, vpre, vpost).run()
                    bad = r1.judge(True)
                    if bad:
                        ctx.violation("%s:%s" % (sig0, bad[0]), "%s   program: %s" % (bad[1], show(A)), dict(config=c["name"], variant=vname, program=A)); continue
                    n1 = len(sink.items)
                    r2 = Runner(B, L, sink, clock, "b", n1, pid, vpre, vpost).run()
                    bad = r2.judge(True)
                    if bad:
                        ctx.violation("%s:second-program:%s" % (sig0, bad[0]), "the same logger object, after the program [%s] %s: %s   second program: %s" % (
                            show(A), "completed" if A["esc"] == "none" else "was left by an exception", bad[1], show(B)), dict(config=c["name"], variant=vname, first=A, second=B)); continue
                    n2 = len(sink.items)
                    L.log("tail")
                    tail = [render(BARE, vpre, vpost, pid, None, text="tail")] if kind in ("basic", "indent") else []
                    if sink.items[n2:] != tail:
                        ctx.violation("%s:bare-log-after-programs" % sig0, "after the programs [%s] and [%s] a bare log('tail') wrote %r, expected %r (level 0, nothing held back)" % (
                            show(A), show(B), sink.items[n2:], tail), dict(config=c["name"], variant=vname, first=A, second=B)); continue
                    # (b) two logger objects, their programs interleaved step by step
                    clock = FakeClock(); LG.time = clock
                    s1, s2 = ListSink(), ListSink()
                    L1, _ = build(kind, vpre, vpost, s1); L2, _ = build(kind, vpre, vpost, s2)
                    ra = Runner(A, L1, s1, clock, "a", 0, pid, vpre, vpost); rb = Runner(B, L2, s2, clock, "b", 0, pid, vpre, vpost)
                    ctx.case((c["name"], vname, "interleaved", show(A), show(B)))
                    while not (ra.over and rb.over):
                        ra.step(); rb.step()
                    for rr, nm in ((ra, "first"), (rb, "second")):
                        bad = rr.judge(False)
                        if bad:
                            ctx.violation("%s:interleaved:%s" % (sig0, bad[0]), "two logger objects run [%s] and [%s] with their steps alternating; the %s one: %s" % (
                                show(A), show(B), nm, bad[1]), dict(config=c["name"], variant=vname, first=A, second=B)); break
                    # (c) decorated: undecorate() and redirection
                    if vpre is not None:
                        clock = FakeClock(); LG.time = clock
                        s1, s2 = ListSink(), ListSink()
                        L, inner = build(kind, vpre, vpost, s1)
                        ctx.case((c["name"], vname, "redirect", show(A)))
                        if L.undecorate() is not inner or L.sink is not s1:
                            ctx.violation("%s:undecorate" % sig0, "undecorate() / .sink do not give back the inner logger / its sink", dict(config=c["name"])); continue
                        bad = Runner(A, L, s1, clock, "a", 0, pid, vpre, vpost).run().judge(True)
                        L.sink = s2
                        if L.sink is not s2:
                            ctx.violation("%s:redirect:sink-property" % sig0, "after `.sink = s2` the decorated logger reports another sink", dict(config=c["name"])); continue
                        n1 = len(s1.items)
                        bad = bad or Runner(B, L, s2, clock, "b", 0, pid, vpre, vpost).run().judge(True)
                        if bad or len(s1.items) != n1:
                            ctx.violation("%s:redirect:%s" % (sig0, bad[0] if bad else "old-sink-written"), "after the program [%s] the decorated logger's sink was replaced, then [%s] ran: %s" % (
                                show(A), show(B), bad[1] if bad else "the old sink received %r" % s1.items[n1:]), dict(config=c["name"], variant=vname, first=A, second=B)); continue
                        u = L.undecorate()
                        if u is not inner:
                            ctx.violation("%s:undecorate" % sig0, "undecorate() does not give back the inner logger", dict(config=c["name"])); continue
                        if not any(s["op"].startswith("logx") for s in A["steps"]) or kind in ("null", "exception"):
                            # the inner logger on its own: the plain protocol (lines without decoration), wherever its sink is now
                            us = u.sink
                            if not isinstance(us, ListSink):
                                ctx.violation("%s:undecorate:sink" % sig0, "the undecorated logger's sink is %r" % us, dict(config=c["name"])); continue
                            bad = Runner(A, u, us, clock, "u", len(us.items), pid, None, None).run().judge(True)
                            if bad:
                                ctx.violation("%s:undecorate:%s" % (sig0, bad[0]), "the logger given back by undecorate() ran [%s]: %s" % (show(A), bad[1]), dict(config=c["name"], variant=vname, first=A, second=B))
                # (d) a decorated logger decorated again: the decorations compose, and the logger that was decorated stays as it was
                if c["name"].endswith("-dec2"):
                    from coba.context import DecoratedLogger
                    clock = FakeClock(); LG.time = clock
                    s0 = ListSink(); inner = build(kind, None, None, s0)[0]
                    D1 = DecoratedLogger([_decorator(pre[1])], inner, [_decorator(post[0])])
                    D2 = DecoratedLogger([_decorator(pre[0])], D1, [_decorator(post[1])])
                    ctx.case((c["name"], "nested", show(A)))
                    replay = dict(config=c["name"], first=A, second=B, build="D1 = DecoratedLogger([Q], %sLogger(sink), [X]); D2 = DecoratedLogger([P], D1, [Y])" % kind.capitalize())
                    bad = Runner(A, D2, s0, clock, "a", 0, pid, pre, post).run().judge(True)
                    if bad:
                        ctx.violation("%s:nested:%s" % (kind, bad[0]), "DecoratedLogger([P], DecoratedLogger([Q], logger, [X]), [Y]) ran [%s]: %s" % (show(A), bad[1]), replay); continue
                    n1 = len(s0.items)
                    bad = Runner(B, D1, s0, clock, "b", n1, pid, [pre[1]], [post[0]]).run().judge(True)
                    what = None
                    if bad: what = "the logger D1 that was decorated then ran [%s] itself: %s" % (show(B), bad[1])
                    else:
                        n2 = len(s0.items); inner.log("tail")
                        if s0.items[n2:] != ["tail"]: what = "the innermost logger then wrote %r for log('tail') to the original sink" % (s0.items[n2:],)
                        elif D2.undecorate() is not D1 or D1.undecorate() is not inner: what = "undecorate() does not give back the decorated logger"
                        elif not (D2.sink is s0 and D1.sink is s0 and inner.sink is s0): what = "the .sink of D2 / D1 / the innermost logger is no longer the sink they were built on"
                    if what:
                        ctx.violation("decorated:nested:decorated-logger-changed", "D1 = DecoratedLogger([Q], %sLogger(sink), [X]); D2 = DecoratedLogger([P], D1, [Y]); D2 ran [%s]; %s" % (kind.capitalize(), show(A), what), replay)
            ctx.sample(dict(config=c["name"], program=show(P[len(P) // 2]), expected=[render(l, pre, post, pid, None) for l in P[len(P) // 2]["lines"]], escapes=P[len(P) // 2]["esc"]), limit=8)
    finally:
        LG.time = old_time
    ctx.traces += total

    # ---- 2b. directed: an exception OBJECT given to a plain logger (Logger.log: "Log a message or exception to the sink") ----
    from coba.exceptions import CobaException
    from coba.context import BasicLogger, IndentLogger
    for kind, K in (("basic", BasicLogger), ("indent", IndentLogger)):
        for xname, mk in (("CobaException", lambda: CobaException("w1")), ("ValueError", lambda: ValueError("w1"))):
            for depth in (0, 1):
                sink = ListSink(); L = K(sink); ctx.case(("log-exception-object", kind, xname, depth))
                how = "%sLogger(sink)%s.log(%s('w1'))" % (kind.capitalize(), "" if depth == 0 else " inside `with log('m1')`", xname)
                try:
                    if depth == 0: L.log(mk())
                    else:
                        with L.log("m1"): L.log(mk())
                    new = sink.items[depth:(depth + 1)]
                    if len(new) != 1 or "w1" not in str(new[0]) or (kind == "indent" and depth == 1 and not str(new[0]).startswith("  * ")):
                        ctx.violation("%s:plain:log-exception-object:not-logged" % kind, "%s wrote %r" % (how, sink.items), dict(kind=kind, exception=xname, depth=depth))
                except Exception as e:
                    ctx.violation("%s:plain:log-exception-object:raises" % kind, "%s raised %s: %s" % (how, type(e).__name__, e), dict(kind=kind, exception=xname, depth=depth))

    # ---- 3. real worker processes (CobaMultiprocessor.ProcessFilter re-installs the logger, lines travel to the parent's sink) ----
    script = os.path.join(ctx.scratch, "x04_mp.py")
    open(script, "w").write(MP_SCRIPT % os.path.dirname(os.path.dirname(os.path.dirname(os.path.abspath(__file__)))))
    runs = [("indent-dec", 2, 0, 8, None), ("basic-dec", 2, 2, 6, None), ("indent-plain", 1, 1, 4, None), ("indent-dec", 2, 0, 6, "log"), ("indent-dec", 2, 0, 4, "time")]
    if not ctx.quick:
        runs += [("indent-dec2", 3, 1, 9, None), ("basic-plain", 2, 0, 8, None), ("exception-dec", 2, 0, 6, None), ("indent-deep", 2, 3, 8, None),
                 ("basic-dec", 2, 0, 6, "log"), ("basic-dec", 2, 0, 6, "time"), ("indent-plain", 2, 1, 5, "time"), ("indent-dec", 1, 2, 12, None), ("null", 2, 0, 4, None)]
    byname = {c["name"]: c for c in C}
    nreal = 0
    for (cname, Pn, Max, N, opened) in runs:
        c = byname[cname]; P = progs[cname]
        pre, post = DEC[c["pre"]], DEC[c["post"]]
        decorated = bool(pre or post)
        long = [p for p in P if len(p["steps"]) >= 3]
        chosen = rng.sample(long, min(N, len(long)))
        items = [dict(id=i + 1, steps=p["steps"]) for i, p in enumerate(chosen)]
        job = dict(kind=c["kind"], pre=pre if decorated else None, post=post if decorated else None, P=Pn, Max=Max, items=items, open=opened)
        jf = os.path.join(ctx.scratch, "x04_job.json"); json.dump(job, open(jf, "w"))
        ctx.case(("real", cname, Pn, Max, N, opened)); nreal += 1
        replay = dict(config=cname, processes=Pn, maxtasksperchild=Max, programs=[show(p) for p in chosen], parent_context=opened)
        try:
            p = subprocess.run([sys.executable, "-W", "ignore", script, jf], capture_output=True, text=True, timeout=600)
            d = json.loads(p.stdout.strip().splitlines()[-1])
        except subprocess.TimeoutExpired:
            ctx.violation("workers:hang", "real multi-process run did not terminate within 600 s", replay); continue
        except Exception:
            raise RuntimeError("real multi-process run failed: %s %s" % (p.stdout[-500:], p.stderr[-2000:]))
        if d["exc"]:
            ctx.violation("workers:raises", "CobaMultiprocessor run raised %s" % d["exc"], replay); continue
        if sorted(x["id"] for x in d["res"]) != [it["id"] for it in items]:
            ctx.violation("workers:results", "results %r" % d["res"], replay); continue
        exp = []; maskall = False
        byid = {x["id"]: x for x in d["res"]}
        for it, prog in zip(items, chosen):
            x = byid[it["id"]]
            want = None if prog["esc"] == "none" else prog["esc"]
            if x["esc"] != want:
                ctx.violation("workers:escape", "in a worker the program [%s] was left by %r, expected %r" % (show(prog), x["esc"], want), replay); break
            tmap = ticks_from_reads(prog["steps"], [(("w", m), v) for m, v in x["reads"]], "w")
            if any(v is None for v in tmap.values()): maskall = True
            exp += [render(ln, pre if decorated else None, post if decorated else None, x["pid"], tmap, "p%d." % it["id"] + "m%d") for ln in prog["lines"]]
        else:
            got = d["lines"]
            if opened:
                # the parent's own context line comes first ('outer'), the workers' lines are those of the programs
                outer = [l for l in got if "outer" in l]; got = [l for l in got if "outer" not in l]
                if len(outer) != (2 if c["kind"] == "basic" else 1):
                    ctx.violation("workers:parent-context", "the parent's own context wrote %r" % outer, replay); continue
            norm = mask if maskall else (lambda z: z)
            if opened:      # the workers' copies of the logger start at the parent's level: how deep their lines are indented is not demanded
                norm = (lambda z, f=norm: strip_indent(f(z)))
            if collections.Counter(norm(got)) != collections.Counter(norm(exp)):
                missing = collections.Counter(norm(exp)) - collections.Counter(norm(got)); extra = collections.Counter(norm(got)) - collections.Counter(norm(exp))
                cls = "lines-missing" if missing and not extra else "lines-extra" if extra and not missing else "lines-differ"
                ctx.violation("workers:%s%s" % (cls, ":parent-inside-%s-context" % opened if opened else ""),
                              "%d worker processes ran %d programs%s; the parent's sink lacks %r and has in excess %r" % (
                                  Pn, len(items), " while the parent was inside `with logger.%s(..)`" % opened if opened else "",
                                  [re.sub(r"pid-\d+ *", "pid-<pid> ", l) for l in sorted(missing.elements())[:6]], [re.sub(r"pid-\d+ *", "pid-<pid> ", l) for l in sorted(extra.elements())[:6]]), replay)
                continue
            if not d["same_logger"] or not d["same_sink"]:
                ctx.violation("workers:parent-logger-changed", "after the run the parent's CobaContext.logger / its sink are other objects", replay); continue
            tail = [render(BARE, pre if decorated else None, post if decorated else None, d["pid"], None, text="parent-after")] if c["kind"] in ("basic", "indent") else []
            if d["after"] != tail:
                ctx.violation("workers:parent-logger-changed", "after the run a log in the parent wrote %r, expected %r" % (d["after"], tail), replay)
    ctx.extra["real_multiprocess_runs"] = nreal
    ctx.traces += nreal
    ctx.assumptions += [
        "messages are short texts without line breaks (except the ExceptLog rendering of a non-coba exception); the message of step k is 'm<k>'",
        "the clock is coba.context.loggers.time replaced by a fake that advances %.2f per reading; a timing text is compared exactly when the logger read the clock once per time-context entry and once per exit (then t = exit reading - entry reading in ticks), otherwise the number is masked" % TICK,
        "the text of '<t> seconds' (round(.,2) printed by repr), NameLog's 'pid-<pid:6> -- ', StampLog's '%Y-%m-%d %H:%M:%S -- ', the two-blank indent and the bullet table are the repository's documented / tested formats and are mirrored",
        "exceptions are caught outside the outermost context only (no except clause between the contexts); BaseExceptions other than KeyboardInterrupt are not explored",
        "multi-process runs are judged on the multiset of lines in the parent's sink (order across workers is scheduling)",
        "exception OBJECTS are logged only where an ExceptLog sees them first (ExceptionLogger, DecoratedLogger([ExceptLog(), ..]))"]
