"""C15 - every supported prediction format is understood the same way: spec/PredFormat.tla.

PredFormat.tla fixes the MEANING of a learner's answer (the action it named or the CobaRandom.choicew draw from
its PMF with the SafeLearner's own generator, the probability it stated, its kwargs) for every case of the table
format x kwargs x batch layout x batch size x number of actions x seed, over three consecutive calls, computing
the PMF draws with CobaRandom.tla and the real constants.  For every case and every action kind (ints incl. 0/1,
floats that look like probabilities, strings, one-hot tuples, lists, sparse dicts) a synthetic learner that
writes the intended answers in that format and layout is put behind the real SafeLearner: predict's output must
be the meaning, the returned action must be one of the offered actions, and the kwargs handed to learn must
arrive unchanged (per row when the learner cannot take batches).  Every case with kwargs is also replayed with the
kwargs handed over in each other kind of mapping (PAYLOADS: dict subclass, read-only proxy, UserDict, user Mapping,
HashableSparse - Kwargs is Mapping[str, Any]), directly and through SequentialCB, and with the kwargs of every row
filled in in that row's own key order, every name carrying its own value (KWO)."""
import json, random
import collections as _collections, types as _types
from collections import abc as _abc
from .. import tlc, tracecheck

FINISH = dict(level="model_checking",
              rule="a case = one (format, kwargs, layout, batch size, #actions, seed, action kind[, kind of kwargs mapping]): a synthetic learner behind the real SafeLearner, three predict calls + learn; distinct = distinct cases")
PROBS = [0.25, 0.5, 1.0]
BASE = {1: [4], 2: [1, 3], 3: [1, 2, 1]}


class B(list):
    is_batch = True


# "all kwargs payloads": the names a learner uses for its extra outputs are its own business - among them names that the wrappers
# between evaluator and learner use for their own parameters (every name carries the same value, the spec's k)
KWNAMES = ["k", "key", "method", "args", "has_out", "kwargs", "seed"]
def KW(c): return {n: c for n in KWNAMES}


# ... and so is the ORDER in which it fills the mapping in (keys added in data-dependent branches): a mapping is defined by its items,
# not by its insertion order, so two rows of one batch may hand over the same names in different orders.  KWO is the rendering of
# the spec's k for the row with context id c in which every name carries its own value (k tagged with the name: a value that
# arrives under another name is seen) and the names are inserted rotated by c, every second row backwards - no two neighbouring
# rows of a batch share an insertion order.  KW(c) and KWO(c) render the same abstract value k = c.
def KWO(c):
    r = c % len(KWNAMES); names = KWNAMES[r:] + KWNAMES[:r]
    if c % 2: names = names[::-1]
    return {n: (c if n == "k" else "%s=%d" % (n, c)) for n in names}


# ... and the CONTAINER the learner hands them over in is its own business too: coba.primitives.Kwargs is Mapping[str, Any], so any
# mapping is a kwargs payload - a plain dict (the default rendering), a dict subclass, a read-only view of the learner's own state,
# a collections.UserDict, a user-defined collections.abc.Mapping, coba's own read-only HashableSparse.  Pure rendering of the
# spec's abstract kwargs value k: the meaning of the answer (PredFormat.tla Expected) does not depend on it.
class UserMap(_abc.Mapping):
    def __init__(self, d): self._d = dict(d)
    def __getitem__(self, k): return self._d[k]
    def __iter__(self): return iter(self._d)
    def __len__(self): return len(self._d)
    def __repr__(self): return "UserMap(%r)" % self._d


def _hashable_sparse(d):
    from coba.primitives import HashableSparse
    return HashableSparse(dict(d))


PAYLOAD_KINDS = ("str", "int01")     # action kinds the non-dict payloads are replayed with
PAYLOADS = {"dict": dict, "ordered": _collections.OrderedDict, "proxy": lambda d: _types.MappingProxyType(dict(d)),
            "userdict": _collections.UserDict, "usermap": UserMap, "hsparse": _hashable_sparse}


def alt_actions_of(kind, nA):
    """another action set of the same kind and size (action sets may change between rounds)"""
    if kind in ("int01", "int1x", "int0x"): return [7, 8, 9][:nA]
    if kind == "probfloat": return [0.125, 0.375, 0.625][:nA]
    if kind == "str": return ["x", "y", "z"][:nA]
    if kind.startswith("strpre"): r = int(kind[6:]); v = "21,2,1".split(",")[:nA]; return v[r % nA:] + v[:r % nA]
    if kind == "strn": return (["x"], ["xy", "yx"], ["xyz", "yzx", "zxy"])[nA - 1] if nA <= 3 else ["xyzw"[i:] + "xyzw"[:i] for i in range(nA)]
    if kind == "tuple": return [tuple(2 if i == j else 0 for i in range(max(nA, 2))) for j in range(nA)]
    if kind == "list": return [[3 if i == j else 0 for i in range(max(nA, 2))] + [7] for j in range(nA)]
    if kind == "sparse": return [{"xyz"[j]: 1} for j in range(nA)]


def actions_of(kind, nA):
    if kind == "int01": return [0, 1, 2][:nA]
    if kind == "int1x": return [1, 2, 3][:nA]          # holds the int 1 but not 0
    if kind == "int0x": return [0, 2, 3][:nA]          # holds the int 0 but not 1
    if kind == "probfloat": return [0.25, 0.5, 0.75][:nA]
    if kind == "str": return ["a", "b", "c"][:nA]
    # labels as they come out of a parsed file: a two-character label whose characters are themselves offered labels
    # (CPython shares one-character strings, so '10'[0] IS the label '1' and '10'[1] looks like a probability)
    # the label sits at every position in turn (strpre0..2), so that it is the first answer of some case
    if kind.startswith("strpre"): r = int(kind[6:]); v = "10,1,0".split(",")[:nA]; return v[r % nA:] + v[:r % nA]
    # labels as long as the action set is large (a string is an atom, never a PMF or an (action, probability) pair)
    if kind == "strn": return (["a"], ["ab", "ba"], ["abc", "bca", "cab"])[nA - 1] if nA <= 3 else ["abcd"[i:] + "abcd"[:i] for i in range(nA)]
    if kind == "tuple": return [tuple(1 if i == j else 0 for i in range(max(nA, 2))) for j in range(nA)]
    if kind == "list": return [[1 if i == j else 0 for i in range(max(nA, 2))] + [7] for j in range(nA)]
    if kind == "sparse": return [{"abc"[j]: 1} for j in range(nA)]


class FmtLearner:
    """Writes its intended answers in one format / layout.  Intention for the row with context id c:
    action index c mod nA, probability PROBS[c mod 3], pmf BASE rotated by c mod nA, kwargs {'k': c}."""
    def __init__(self, fmt, kw, layout, nA, oh=False, scale=1, payload="dict", kwf=KW):
        self.mk = PAYLOADS[payload]   # the mapping type the kwargs are handed over in
        self.kwf = kwf                # the rendering of the kwargs value (KW: one order, one value; KWO: per-row insertion order, per-name values)
        self.fmt = fmt; self.kw = kw; self.layout = layout; self.nA = nA; self.learned = []; self.calls = 0; self.oh = oh
        self.scale = scale   # PMFs as learners really produce them (rounded, float32): the entries sum to 1 only within the documented tolerance

    @property
    def params(self): return {"family": "fmt"}

    def row(self, c, actions):
        j = c % self.nA; base = self.fmt.rstrip("*")
        if base == "AX": v = actions[j]
        elif base == "AP": v = (actions[j], PROBS[c % 3])
        else:
            w = BASE[self.nA]; r = c % self.nA
            v = [w[(i + r) % self.nA] / 4 * self.scale for i in range(self.nA)]
            if self.oh: v = [1 if i == r else 0 for i in range(self.nA)]      # all mass on one action, written with ints
        if self.fmt.endswith("*"): v = {{"AX": "action", "AP": "action_prob", "PM": "pmf"}[base]: v}
        return v

    def predict(self, context, actions):
        from coba.primitives import is_batch
        self.calls += 1
        batched = is_batch(context) or is_batch(actions)
        if batched and self.layout in ("none", "notbatch"): raise TypeError("this learner does not take batches")
        if not batched:
            v = self.row(context, actions); kw = self.mk(self.kwf(context))
            if not self.kw: return v
            if isinstance(v, tuple) and not self.fmt.endswith("*") and self.fmt == "AP": return (v[0], v[1], kw)
            return (v, kw)
        rows = [self.row(c, a) for c, a in zip(context, actions)]
        kws = [self.mk(self.kwf(c)) for c in context]
        if self.layout == "row":
            if not self.kw: return rows
            out = []
            for v, k in zip(rows, kws):
                out.append((v[0], v[1], k) if self.fmt == "AP" else (v, k))
            return out
        # column-major
        base = self.fmt.rstrip("*")
        if self.fmt.endswith("*"):
            key = {"AX": "action", "AP": "action_prob", "PM": "pmf"}[base]
            col = {key: [r[key] for r in rows]}
            return [col, self.mk({n: [k[n] for k in kws] for n in KWNAMES})] if self.kw else col
        if base == "AX": cols = [rows]
        elif base == "AP": cols = [tuple(r[0] for r in rows), tuple(r[1] for r in rows)]
        else: cols = [list(x) for x in zip(*rows)]
        if self.kw: cols = cols + [self.mk({n: [k[n] for k in kws] for n in KWNAMES})]
        return cols if len(cols) > 1 or self.kw or base == "PM" else cols[0]

    def learn(self, context, action, reward, probability, **kwargs):
        from coba.primitives import is_batch
        if (is_batch(context) or is_batch(action)) and self.layout in ("none", "notbatch"): raise TypeError("this learner does not take batches")
        self.learned.append((context, kwargs))


def run(ctx):
    from coba.safety import SafeLearner
    from coba.context import CobaContext, NullLogger
    CobaContext.logger = NullLogger()
    r = tlc.run("PredFormat", "PredFormat.cfg", ctx.scratch, workers=16, timeout=3600)
    ctx.add_tlc("PredFormat", r)
    for v in r.violations: ctx.violation("spec:%s" % v["name"], "PredFormat.tla violates %s" % v["name"], v["trace"][:40])
    cases = [j for j in r.json if isinstance(j, dict) and "expected" in j]
    if len(cases) < 500: raise RuntimeError("PredFormat produced only %d cases" % len(cases))
    cases.sort(key=lambda c: json.dumps(c["case"], sort_keys=True))
    ctx.exhaustive = True
    ctx.sample(cases[len(cases) // 2], limit=1)
    kinds = ["int01", "int1x", "int0x", "probfloat", "str", "strpre0", "strpre1", "strpre2", "strn", "tuple", "list", "sparse"]
    for c in cases:
        cs = c["case"]; fmt, kw, layout, nA, bs, seed = cs["fmt"], cs["kw"], cs["layout"], cs["nA"], cs["bsize"], cs["seed"]
        for kind in kinds:
            # the property's domain: a value that could be read two ways needs the dict hint
            if fmt == "AX" and kind in ("tuple", "list", "sparse"): continue
            if fmt == "AX" and layout == "col": continue          # a bare column of actions IS the row layout
            if cs.get("oh") and fmt == "PM" and layout != "none" and kind in ("int01", "int1x", "int0x"): continue   # a bare [0,1] over int actions in a batch reads equally as (action 0, prob 1): needs the hint (unbatched calls are protected by the 0/1 -> float conversion)
            if fmt == "PM" and layout == "col" and nA == 1: continue   # one column of numbers reads equally as a column of actions: needs the hint
            for vary in (False, True):      # the same action set every round / the sets A, B, A
                ctx.case(json.dumps([cs, kind, vary], sort_keys=True))
                bad = one(SafeLearner, cs, c["expected"], kind, vary)
                if bad:
                    sig, what = bad
                    ctx.violation(sig, "%s   case=%s kind=%s action-sets=%s" % (what, json.dumps(cs, sort_keys=True), kind, "A,B,A" if vary else "A,A,A"), dict(case=cs, kind=kind, vary=vary, expected=c["expected"]))
            # "all kwargs payloads": the same case with the kwargs handed over in every other kind of mapping (Kwargs = Mapping[str, Any])
            if kw and kind in PAYLOAD_KINDS:
                for payload in PAYLOADS:
                    if payload == "dict": continue
                    ctx.case(json.dumps([cs, kind, "kwargs-in", payload], sort_keys=True))
                    bad = one(SafeLearner, cs, c["expected"], kind, False, 1, payload)
                    if bad:
                        sig, what = bad
                        ctx.violation(sig + ":kwargs-mapping", "%s   case=%s kind=%s kwargs handed over in a %s" % (what, json.dumps(cs, sort_keys=True), kind, payload), dict(case=cs, kind=kind, payload=payload, expected=c["expected"]))
            # ... and with the kwargs of every row filled in in that row's own key order, every name carrying its own value (KWO), in a plain
            # dict and in a user-defined read-only mapping
            if kw and kind in PAYLOAD_KINDS:
                for payload in ("dict", "usermap"):
                    for vary in (False,):
                        ctx.case(json.dumps([cs, kind, vary, "kwargs-order", payload], sort_keys=True))
                        bad = one(SafeLearner, cs, c["expected"], kind, vary, 1, payload, KWO)
                        if bad:
                            sig, what = bad
                            ctx.violation(sig + ":kwargs-order", "%s   case=%s kind=%s action-sets=%s kwargs of each row inserted in the row's own key order, handed over in a %s" % (what, json.dumps(cs, sort_keys=True), kind, "A,B,A" if vary else "A,A,A", payload), dict(case=cs, kind=kind, vary=vary, payload=payload, kwargs="KWO", expected=c["expected"]))
            # the PMF a learner states is reported as stated, also when its entries sum to 1 only within the tolerance (the draw is by
            # share of the total, which for a common factor is the draw of the exact PMF)
            if fmt.rstrip("*") == "PM" and not cs.get("oh") and nA > 1 and kind in ("str", "int1x"):
                for scale in (0.9997, 1.0003):
                    ctx.case(json.dumps([cs, kind, scale], sort_keys=True))
                    bad = one(SafeLearner, cs, c["expected"], kind, False, scale)
                    if bad:
                        sig, what = bad
                        ctx.violation(sig + ":inexact-sum", "%s   case=%s kind=%s PMF entries times %s" % (what, json.dumps(cs, sort_keys=True), kind, scale), dict(case=cs, kind=kind, scale=scale, expected=c["expected"]))
    # ---- the same meaning one level up: the seed an evaluator is given (or, without one, the experiment's) is the seed of the draw
    from coba.evaluators import SequentialCB
    for c in cases:
        cs = c["case"]
        if cs["layout"] != "none" or cs["fmt"] not in ("PM", "PM*") or cs.get("oh"): continue
        for how in ("evaluator-seed", "experiment-seed"):
            for payload in (PAYLOADS if cs["kw"] else ("dict",)):
                ctx.case(json.dumps([cs, how] + ([payload] if payload != "dict" else []), sort_keys=True))
                bad = through_evaluator(SequentialCB, CobaContext, cs, c["expected"], how, payload)
                if bad:
                    ctx.violation(bad[0] + (":kwargs-mapping" if payload != "dict" else ""), "%s   case=%s kwargs handed over in a %s" % (bad[1], json.dumps(cs, sort_keys=True), payload), dict(case=cs, how=how, payload=payload, expected=c["expected"]))
    ctx.traces = ctx.evaluations
    ctx.assumptions += ["learners return the offered action objects themselves; a bare tuple / list / sparse-dict action must use the {'action': ..} hint (the property's own domain rule)",
                        "PMF entries are multiples of 1/4 so that the code's float comparison and the spec's integer comparison coincide"]


class _Env:
    def __init__(self, its): self.its = its
    @property
    def params(self): return {}
    def read(self): return iter([dict(i) for i in self.its])


def through_evaluator(SequentialCB, CobaContext, cs, expected, how, payload="dict"):
    """The three calls of a case as three interactions of an environment evaluated by SequentialCB: the recorded action and
    probability are the draw of the evaluator's seed (how = evaluator-seed; a different experiment seed is in the store)
    or, for an evaluator without a seed, of the experiment's seed."""
    nA, seed = cs["nA"], cs["seed"]
    acts = actions_of("str", nA)
    rows = sorted((e for e in expected if e["row"] == 1), key=lambda e: e["call"])
    its = [{"context": 10 * e["call"] + 1, "actions": list(acts), "rewards": [0.5] * nA} for e in rows]
    lrn = FmtLearner(cs["fmt"], cs["kw"], "none", nA, payload=payload)
    saved = dict(CobaContext.store)
    try:
        CobaContext.store["experiment_seed"] = 99 if how == "evaluator-seed" else seed
        ev = SequentialCB(record=["action", "probability"], seed=(seed if how == "evaluator-seed" else None))
        got = list(ev.evaluate(_Env(its), lrn))
    except Exception as e:
        return ("evaluator:%s:raises:%s" % (how, type(e).__name__), "SequentialCB raised %s: %s" % (type(e).__name__, str(e)[:150]))
    finally:
        CobaContext.store.clear(); CobaContext.store.update(saved)
    if len(got) != len(rows): return ("evaluator:%s:rows" % how, "%d rows for %d interactions" % (len(got), len(rows)))
    for i, (g, e) in enumerate(zip(got, rows)):
        if g.get("action") != acts[e["a"]] or abs(g.get("probability", -1) - e["p"] / 1000) > 1e-12:
            return ("evaluator:%s:wrong-draw" % how, "interaction %d: recorded (%r, %r); seed %d draws (%r, %r) from the learner's PMF" % (i + 1, g.get("action"), g.get("probability"), seed, acts[e["a"]], e["p"] / 1000))
    return None


def one(SafeLearner, cs, expected, kind, vary=False, scale=1, payload="dict", kwf=KW):
    fmt, kw, layout, nA, bs, seed = cs["fmt"], cs["kw"], cs["layout"], cs["nA"], cs["bsize"], cs["seed"]
    acts_a = actions_of(kind, nA); acts_b = alt_actions_of(kind, nA)
    lrn = FmtLearner(fmt, kw, layout, nA, cs.get("oh", False), scale, payload, kwf)
    sl = SafeLearner(lrn, seed)
    exp_by_call = {}
    for e in expected: exp_by_call.setdefault(e["call"], []).append(e)
    for call in (1, 2, 3):
        rows = exp_by_call[call]
        acts = acts_b if (vary and call == 2) else acts_a
        ctxs = [10 * call + e["row"] for e in rows]
        try:
            if layout == "none":
                a, p, k = sl.predict(ctxs[0], list(acts)); A, P = [a], [p]; K = [k]
            else:
                A, P, k = sl.predict(B(ctxs), B([list(acts) for _ in ctxs]))
                A, P = list(A), list(P)
                K = [{kk: vv[i] for kk, vv in k.items()} for i in range(len(ctxs))] if k else [{} for _ in ctxs]
        except Exception as e:
            return ("%s:%s:raises:%s" % (fmt, layout, type(e).__name__), "call %d raised %s: %s" % (call, type(e).__name__, str(e)[:150]))
        if len(A) != len(rows): return ("%s:%s:batch-size" % (fmt, layout), "call %d returned %d actions for %d rows" % (call, len(A), len(rows)))
        for i, e in enumerate(rows):
            want_a = acts[e["a"]]; want_p = None if e["p"] == -1 else e["p"] / 1000 * scale; want_k = {} if e["k"] == -1 else kwf(e["k"])
            if not any(A[i] == x for x in acts): return ("%s:%s:not-an-offered-action" % (fmt, layout), "call %d row %d: %r is not one of the offered actions %r" % (call, i + 1, A[i], acts))
            if A[i] != want_a: return ("%s:%s:wrong-action" % (fmt, layout), "call %d row %d: action %r, the learner named (or the seed draws) %r" % (call, i + 1, A[i], want_a))
            if (P[i] is None) != (want_p is None) or (want_p is not None and abs(P[i] - want_p) > 1e-12):
                return ("%s:%s:wrong-probability" % (fmt, layout), "call %d row %d: probability %r, expected %r" % (call, i + 1, P[i], want_p))
            if dict(K[i]) != want_k: return ("%s:%s:wrong-kwargs" % (fmt, layout), "call %d row %d: kwargs %r, expected %r" % (call, i + 1, K[i], want_k))
        # hand the answer back to learn: the learner must receive its own kwargs
        try:
            n0 = len(lrn.learned)
            if layout == "none": sl.learn(ctxs[0], A[0], 1.0, P[0], **K[0])
            else: sl.learn(B(ctxs), B(A), B([1.0] * len(A)), B(P), **({kk: B([kx[kk] for kx in K]) for kk in K[0]} if K and K[0] else {}))
        except Exception as e:
            return ("%s:%s:learn-raises:%s" % (fmt, layout, type(e).__name__), "learn after call %d raised %s: %s" % (call, type(e).__name__, str(e)[:150]))
        got = lrn.learned[n0:]
        if layout in ("none", "notbatch"):
            for (cx, kk), c0, k0 in zip(got, ctxs, K):
                if cx != c0 or dict(kk) != dict(k0): return ("%s:%s:kwargs-to-learn" % (fmt, layout), "learn received context %r kwargs %r, expected %r %r" % (cx, kk, c0, k0))
            if len(got) != len(ctxs): return ("%s:%s:learn-calls" % (fmt, layout), "learn was called %d times for %d rows" % (len(got), len(ctxs)))
    return None
