"""C05 - random streams are a pure, contract-respecting function of the seed: spec/CobaRandom.tla.

1. TLC, scaled generator (same multiplier mod 2^8, same increment, modulus 2^8): full period from the start
   states (so the states with u = 0 and u = 1 - 1/m occur in every stream), the integer contracts in EVERY
   state (randint range, shuffle permutation, choice index, weighted choice never on a zero weight),
   independence of two instances under all interleavings; the code's `<=` comparison is shown to deviate
   from the contract only in the state whose uniform is 0.  Hull-Dobell side conditions of the real
   constants are ASSUMEd (evaluated by TLC).
2. Traces of the real CobaRandom with the REAL constants in 15-bit limbs: random programs over several
   instances, the module-level generator, coba.random.seed, interleaved use of Python's `random`, pickled
   copies and a child process; int / integral-float / str / non-integral-float seeds; every integer-valued
   return must equal the spec's and every instance must be exactly where its own calls put it (TLC judges).
   Directed traces put the states 0 and 2^30-1 under every method at several stream positions (the seed is
   obtained with the inverse step).  Float-valued results (random/randoms with bounds, gauss) are checked in
   Python against the contract: [min,max), finite.
   "uniforms" events: random / randoms (positional, keyword; module level for instance 0) with
   bounds on the grid of quarters (ints or floats; widths below, at and above 1, lower bounds negative, zero,
   positive, up to +-2^20) where min+(max-min)*u is exact in floats: TLC demands the normalised value to be the
   stream's and floor(4x) to be the spec's UniformCell, which is the contract [min,max)."""
import json, math, os, pickle, random, subprocess, sys
from .. import tlc, tracecheck

FINISH = dict(level="model_checking",
              rule="a case = one recorded call trace (several instances, ~20 calls) of the real CobaRandom validated by TLC, or one directed trace placing a critical state under one method; distinct = distinct traces")
A, C, M = 116646453, 9, 2 ** 30
AINV = pow(A, -1, M)
B = 32768


def prev(s, k=1):
    for _ in range(k): s = ((s - C) * AINV) % M
    return s


def limbs(x): return [x // B, x % B]


Q = 4                      # grid of the bounds of the "uniforms" events: multiples of 1/4 (2^20*Q and Q*x stay far below 2^31 / 2^53)
WIDTHS = [1, 2, 3, 4, 4, 4, 5, 7, 8, 12, 40, 378, 4096, 32768]      # in units of 1/Q: below, at and above the unit interval (4 = width 1.0)
LOWS = [0, 0, 1, 2, 4, 6, 22, 36, 40, 4092, -1, -2, -4, -8, -12, -400, -4096, 4 * 2 ** 20 - 32768, -4 * 2 ** 20]


def grid(v, as_int):
    """Concrete rendering of the bound v/Q: an int where that is possible and asked for, else a float."""
    return v // Q if as_int and v % Q == 0 else v / Q


def rand_bounds(rng):
    wd = rng.choice(WIDTHS); lo = rng.choice(LOWS)
    if rng.random() < .3: lo = rng.randrange(-64, 64)
    if rng.random() < .15: lo = -wd                      # max = 0
    if lo + wd > Q * 2 ** 20: lo = Q * 2 ** 20 - wd
    return dict(lo=lo, hi=lo + wd, lo_int=rng.random() < .5, hi_int=rng.random() < .5)


def record(prog, rng_seed):
    """Run a program (list of abstract calls) on real generators; return (events, python-side problems)."""
    import coba.random as cr
    from coba.random import CobaRandom
    inst = {}; evs = []; probs = []; wbuf = {}
    pyr = random.Random(rng_seed)
    for call in prog:
        i = call["i"]; op = call["op"]
        try:
            if op == "new":
                seed = call["seed"]
                if i == 0: cr.seed(seed); inst[0] = cr
                else: inst[i] = CobaRandom(seed)
                if isinstance(seed, int) or (isinstance(seed, float) and seed.is_integer()):
                    evs.append(dict(i=i, op="new", kind="int", seed=limbs(int(seed) % M), bs=[]))
                else:
                    evs.append(dict(i=i, op="new", kind="bytes", seed=[0, 0], bs=list(str(seed).encode("utf-8"))))
                continue
            if op == "pyrandom":      # somebody uses Python's generator in between: must not matter
                random.seed(pyr.random()); random.random(); random.shuffle([1, 2, 3]); continue
            if op == "pickle":        # a pickled copy is a generator re-created from the same seed
                j = call["j"]; inst[j] = pickle.loads(pickle.dumps(inst[i]))
                sd = inst[i].seed
                evs.append(dict(i=j, op="new", kind="int", seed=limbs(sd % M), bs=[])); continue
            g = inst[i]
            if op == "random":
                lo, hi = call.get("min", 0), call.get("max", 1)
                if (lo, hi) == (0, 1):
                    u = g.random(); evs.append(dict(i=i, op="random", ret=limbs(int(u * M))))
                    if not (0 <= u < 1): probs.append(("random:contract", "random() returned %r" % u))
                else:
                    x = g.random(lo, hi); evs.append(dict(i=i, op="randoms", n=1, ret=[limbs(int(round((x - lo) / (hi - lo) * M)) % M)]))
                    if not (lo <= x < hi): probs.append(("random:contract-bounds", "random(%r,%r) returned %r" % (lo, hi, x)))
            elif op == "randoms":
                us = g.randoms(call["n"]); evs.append(dict(i=i, op="randoms", n=call["n"], ret=[limbs(int(u * M)) for u in us]))
                if not all(0 <= u < 1 for u in us): probs.append(("random:contract", "randoms returned %r" % us))
            elif op == "randint":
                r = g.randint(call["a"], call["b"]); evs.append(dict(i=i, op="randint", a=call["a"], b=call["b"], ret=r))
            elif op == "randints":
                r = g.randints(call["n"], call["a"], call["b"]); evs.append(dict(i=i, op="randints", n=call["n"], a=call["a"], b=call["b"], ret=list(r)))
            elif op == "shuffle":
                n = call["n"]; items = list(range(n)); kind = call.get("kind", "list") if not call.get("inplace") else "list"
                # shuffle takes any iterable: a list, a tuple, a range, a one-shot iterator or generator
                arg = {"list": items, "tuple": tuple(items), "range": range(n), "iter": iter(items), "gen": (x for x in items)}[kind]
                r = g.shuffle(arg, inplace=call.get("inplace", False))
                if not call.get("inplace") and items != list(range(n)): probs.append(("shuffle:modifies-input", "shuffle modified its input"))
                evs.append(dict(i=i, op="shuffle", n=n, ret=list(r)))
            elif op == "choice":
                n = call["n"]; r = g.choice(list(range(n))); evs.append(dict(i=i, op="choice", n=n, ret=r))
            elif op == "choicew":
                w = call["w"]; ids = call.get("ids") or list(range(len(w))); seq = ["m%d" % k for k in ids]     # ids may repeat: the same member listed twice with different weights
                if call.get("reuse"):          # callers may refill and pass the SAME list object again: values, not identity, matter
                    buf = wbuf.setdefault((i, len(w)), list(w)); buf[:] = w; w = buf
                if call.get("plain"):      # choice(seq, weights): only the member comes back
                    m = g.choice(seq, w); rw = -1
                else:
                    m, rw = g.choicew(seq, w)
                evs.append(dict(i=i, op="choicew", w=list(w), sq=list(ids), rm=int(m[1:]), rw=rw))
            elif op == "gauss":
                x = g.gauss(call.get("mu", 0), call.get("sigma", 1)); evs.append(dict(i=i, op="gauss", k=1))
                if not math.isfinite(x): probs.append(("gauss:not-finite", "gauss returned %r" % x))
            elif op == "gausses":     # n values at once = n single draws (for the stream) shifted and scaled
                n, mu, sigma = call["n"], call.get("mu", 0), call.get("sigma", 1)
                xs = g.gausses(n, mu, sigma)
                for _ in range(len(xs)): evs.append(dict(i=i, op="gauss", k=1))
                if len(xs) != n: probs.append(("gausses:count", "gausses(%d) returned %d values" % (n, len(xs))))
                if not all(math.isfinite(x) for x in xs): probs.append(("gauss:not-finite", "gausses returned %r" % (xs,)))
                if sigma == 0 and any(x != mu for x in xs): probs.append(("gausses:mu-sigma", "gausses(%d, %r, 0) returned %r" % (n, mu, xs)))
            elif op == "randomsb":    # randoms with bounds
                lo, hi, n = call["min"], call["max"], call["n"]
                xs = g.randoms(n, lo, hi); evs.append(dict(i=i, op="randoms", n=n, ret=[limbs(int(round((x - lo) / (hi - lo) * M)) % M) for x in xs]))
                if len(xs) != n or not all(lo <= x < hi for x in xs): probs.append(("random:contract-bounds", "randoms(%d,%r,%r) returned %r" % (n, lo, hi, xs)))
            elif op == "uniforms":    # bounds on the grid of 1/Q (spec: UniformCell): min = lo/Q, max = hi/Q, every float operation is exact there
                n, lo, hi = call["n"], call["lo"], call["hi"]
                mn, mx = grid(lo, call.get("lo_int")), grid(hi, call.get("hi_int"))
                form = call.get("form", "plural")
                if form == "single": xs = [g.random(mn, mx) for _ in range(n)]
                elif form == "kw": xs = g.randoms(n, min=mn, max=mx)
                else: xs = g.randoms(n, mn, mx)
                xs = list(xs)
                if len(xs) != n: probs.append(("randoms:count", "randoms(%d,%r,%r) returned %d values" % (n, mn, mx, len(xs))))
                if not all(mn <= x < mx for x in xs): probs.append(("random:contract-bounds", "%s(%r,%r) [%s] returned %r: not in [min,max)" % ("random" if form == "single" else "randoms", mn, mx, form, xs)))
                def norm(x):
                    v = (x - lo / Q) / ((hi - lo) / Q) * M
                    return limbs(int(v)) if v == int(v) and 0 <= v < M else [-1, 0]      # [-1,0] is no state: TLC rejects the event
                def cell(x): c = math.floor(x * Q); return c if abs(c) < 2 ** 30 else 2 ** 30
                evs.append(dict(i=i, op="uniforms", n=len(xs), lo=lo, hi=hi, ret=[norm(x) for x in xs], cell=[cell(x) for x in xs]))
        except Exception as e:
            probs.append(("%s:raises:%s" % (op, type(e).__name__), "%s%r raised %s: %s" % (op, {k: v for k, v in call.items() if k not in ("i", "op")}, type(e).__name__, e)))
            break
    return evs, probs


def rand_prog(rng, ncalls=20):
    prog = []
    live = []
    seeds = [rng.randrange(M), rng.randrange(10), float(rng.randrange(1000)), "seed%d" % rng.randrange(100), rng.random() * 10, rng.randrange(M) + M * rng.randrange(3)]
    for i in range(rng.choice([1, 2, 3])):
        k = rng.choice([0, 1, 2, 3, 4]) if i else rng.choice([0, 1])
        if k in live: continue
        prog.append(dict(i=k, op="new", seed=rng.choice(seeds))); live.append(k)
    for _ in range(ncalls):
        i = rng.choice(live); op = rng.choice(["random", "randoms", "randint", "randints", "shuffle", "choice", "choicew", "choicew", "gauss", "gauss", "pyrandom", "pickle", "new", "random2", "gausses", "randomsb", "uniforms", "uniforms"])
        if op == "random2": prog.append(dict(i=i, op="random", min=rng.choice([-3, 0, 5.5]), max=rng.choice([6, 7.25, 100])))
        elif op == "randoms": prog.append(dict(i=i, op=op, n=rng.randrange(0, 4)))
        elif op == "gausses": mu, sg = rng.choice([(0, 1), (5, 0), (-2, 3)]); prog.append(dict(i=i, op=op, n=rng.randrange(0, 4), mu=mu, sigma=sg))
        elif op == "randomsb": prog.append(dict(i=i, op=op, n=rng.randrange(0, 4), min=rng.choice([-3, 0, 5.5]), max=rng.choice([6, 7.25, 100])))
        elif op == "uniforms": prog.append(dict(rand_bounds(rng), i=i, op=op, n=rng.randrange(0, 4), form=rng.choice(["plural", "plural", "single", "kw"])))
        elif op == "randint": a = rng.randrange(-5, 5); prog.append(dict(i=i, op=op, a=a, b=a + rng.randrange(0, 40)))
        elif op == "randints": a = rng.randrange(-5, 5); prog.append(dict(i=i, op=op, n=rng.randrange(0, 4), a=a, b=a + rng.randrange(0, 9)))
        elif op == "shuffle": prog.append(dict(i=i, op=op, n=rng.randrange(0, 7), inplace=rng.random() < .3, kind=rng.choice(["list", "tuple", "range", "iter", "gen"])))
        elif op == "choice": prog.append(dict(i=i, op=op, n=rng.randrange(1, 6)))
        elif op == "choicew":
            w = [rng.choice([0, 0, 1, 2, 3]) for _ in range(rng.randrange(1, 5))]
            if sum(w) == 0: w[rng.randrange(len(w))] = 1
            ids = [rng.randrange(2) for _ in w] if rng.random() < .35 else None       # equal members at several positions
            prog.append(dict(i=i, op=op, w=w, ids=ids, plain=rng.random() < .4, reuse=rng.random() < .6))
        elif op == "pickle":
            if i == 0: continue
            j = 5; prog.append(dict(i=i, op=op, j=j))
            if j not in live: live.append(j)
        elif op == "new":
            prog.append(dict(i=i, op="new", seed=rng.choice(seeds)))
        else: prog.append(dict(i=i, op=op))
    return prog


def directed():
    """Seeds that put the states 0 and 2^30-1 under every method at positions 1..3."""
    progs = []
    for crit in (0, M - 1):
        for pos in (1, 2, 3):
            seed = prev(crit, pos)
            pre = [dict(i=1, op="random")] * (pos - 1)
            for call in (dict(op="random"), dict(op="random", min=-3, max=7.25), dict(op="randint", a=-2, b=17), dict(op="randints", n=2, a=0, b=5), dict(op="shuffle", n=4), dict(op="shuffle", n=1, kind="gen"), dict(op="shuffle", n=1, kind="iter"), dict(op="shuffle", n=0, kind="gen"), dict(op="shuffle", n=2, kind="iter"),
                         dict(op="choice", n=3), dict(op="choicew", w=[0, 2, 1]), dict(op="choicew", w=[0, 0, 3], plain=True), dict(op="choicew", w=[1, 0]),
                         dict(op="choicew", w=[2, 1, 0], plain=True), dict(op="choicew", w=[0, 3, 7], ids=[0, 1, 0]), dict(op="choicew", w=[1, 2, 3], ids=[1, 1, 1]), dict(op="gauss"), dict(op="randoms", n=2),
                         dict(op="uniforms", n=2, lo=0, hi=4), dict(op="uniforms", n=2, lo=4, hi=8, lo_int=True, hi_int=True), dict(op="uniforms", n=2, lo=-2, hi=2), dict(op="uniforms", n=1, lo=-4, hi=0, form="single"),
                         dict(op="uniforms", n=2, lo=0, hi=40, form="kw"), dict(op="uniforms", n=2, lo=22, hi=29), dict(op="uniforms", n=2, lo=4 * 2 ** 20 - 4, hi=4 * 2 ** 20), dict(op="uniforms", n=2, lo=-4 * 2 ** 20, hi=-4 * 2 ** 20 + 1)):
                progs.append([dict(i=1, op="new", seed=seed)] + pre + [dict(call, i=1), dict(i=1, op="randint", a=0, b=9)])
    # gauss: the second uniform critical too, and gauss after a pending value
    for crit in (0, M - 1):
        seed = prev(crit, 2)
        progs.append([dict(i=1, op="new", seed=seed), dict(i=1, op="gauss"), dict(i=1, op="gauss"), dict(i=1, op="gauss"), dict(i=1, op="randint", a=0, b=9)])
    return progs


CHILD = r"""
import sys, json
sys.path.insert(0, %r)
from harness.drivers import c05
prog = json.loads(sys.argv[1])
print(json.dumps(c05.record(prog, 1)))
"""


def run(ctx):
    rng = random.Random(ctx.seed)
    cfg = tracecheck._cfg("CobaRandom_mc.cfg", {"Starts <- SomeStarts": "Starts <- %s" % ctx.pick("SomeStarts", "AllStarts")}, ctx.scratch, "cr_mc.cfg")
    r = tlc.run("MC_CobaRandom", cfg, ctx.scratch, workers=16, timeout=3600, heap="8g")
    ctx.add_tlc("CobaRandom_mc(scaled m=2^8)", r)
    for v in r.violations:
        ctx.violation("spec:%s" % (v["name"] or v["kind"]), "CobaRandom.tla (scaled) violates %s %s" % (v["kind"], v["name"]), v["trace"][:60])
    # sanity of the limb arithmetic against Python for the real constants (machinery, not a verdict)
    traces = []; meta = []
    def add(prog, how):
        evs, probs = record(prog, rng.randrange(1 << 30))
        ctx.case(json.dumps(evs, sort_keys=True))
        for sig, what in probs:
            ctx.violation(sig, "%s   program=%s" % (what, json.dumps(prog)[:300]), dict(prog=prog, how=how))
        traces.append(dict(ev=evs)); meta.append((prog, how))
    for p in directed(): add(p, "directed")
    for _ in range(ctx.pick(1500, 40000)): add(rand_prog(rng), "random")
    # a child process: same program, same values
    script = os.path.join(ctx.scratch, "child.py"); open(script, "w").write(CHILD % os.path.dirname(os.path.dirname(os.path.dirname(os.path.abspath(__file__)))))
    for k in range(ctx.pick(2, 8)):
        prog = [c for c in rand_prog(rng) if c["op"] not in ("pyrandom",)]
        here, _ = record(prog, 1)
        out = subprocess.run([sys.executable, "-W", "ignore", script, json.dumps(prog)], capture_output=True, text=True, timeout=300)
        there = json.loads(out.stdout.strip().splitlines()[-1])[0]
        ctx.case("child%d" % k)
        if here != there: ctx.violation("process-dependence", "the same calls give different values in a child process", dict(prog=prog, here=here, there=there))
        traces.append(dict(ev=there)); meta.append((prog, "child-process"))
    ctx.sample(traces[0], limit=1); ctx.sample(traces[-3], limit=2)
    rej = tracecheck.validate(ctx, "CobaRandomTrace", "CobaRandomTrace.cfg", traces, name="cr_trace", workers=16)
    for i, reason, pos in rej:
        prog, how = meta[i]; evs = traces[i]["ev"]
        at = evs[pos - 1] if pos and pos <= len(evs) else None
        op = at["op"] if at else "?"
        ctx.violation("trace-rejected:%s" % op, "%s; first unexplained event #%s: %s   program=%s" % (reason, pos, at, json.dumps(prog)[:300]), dict(prog=prog, how=how, events=evs))
    # bounds at the edge of the stated magnitude window: uniforms must stay below max
    from coba.random import CobaRandom
    for (lo, hi) in ((2 ** 20 - 2 ** -20, 2 ** 20), (-2 ** 20, -2 ** 20 + 2 ** -20), (0, 2 ** -20), (1, 1 + 2 ** -20), (2 ** 20 - 1, 2 ** 20)):
        for crit in (M - 1, M - 2, M // 2):
            g = CobaRandom(prev(crit, 1)); x = g.random(lo, hi); ctx.case("edge%r%r" % ((lo, hi), crit))
            if not (lo <= x < hi):
                ctx.violation("random:rounds-to-max", "random(%r, %r) at u = %d/2^30 returned %r which is not in [min,max)" % (lo, hi, crit, x), dict(min=lo, max=hi, state=crit))
    ctx.assumptions += ["the numeric value of gauss beyond finiteness and the statistical quality of the stream are not covered", "weights in traces are small integers (the comparison u*tot <= cum is then exact in floats)"]
