"""C04 - environments can be read any number of times: spec/EnvRead.tla.

1. TLC checks EnvRead.tla (pipes.Cache's buffer / saved-iterator protocol and Shuffle's seed swap on logged
   data, under every history of opens, nexts, drops at any point, params look-ups and pickles): every read is a
   prefix of the reference sequence, a finished read is all of it, parameters never change.  Two guard variants
   must fail: the seed restored by a plain statement (the pinned tree) and a Cache that forgets its saved
   iterator when a read is abandoned.
2. Every history the model generates (full reads, partial reads dropped after k items, params, pickle) is
   replayed on a catalogue of real pipelines built through the public constructors: synthetic / lambda /
   supervised (sequences, CSV and ARFF text) / logged / result-based sources, random type-compatible chains of
   built-in filters, cache() / chunk() / materialize() / save()+from_save() wrappers.  After every step the
   yielded interactions must equal the corresponding prefix of the first full read of a FRESH identical
   pipeline, params must equal the reference's, and the caller's data must be untouched.
3. save() as a step of the history, with the SIZE of the environment as a dimension: the model (BatchSet) cuts what save()
   reads into batches and demands that the saved environment yields the reference sequence (SavedSound) for environments
   below one batch, of exactly one batch, one more, and several batches plus a partial one; the driver renders each size
   class as a real pipeline of the corresponding length (save() writes batches of 1000 interactions)."""
import json, os, pickle, random, copy, itertools
from .. import tlc, tracecheck

FINISH = dict(level="model_checking",
              rule="a case = one (pipeline, history) pair: a TLC-generated history of full / partial reads, params look-ups and pickles replayed on one real pipeline object; distinct = distinct (pipeline description, history)")


def canon(x, actions=None):
    """plain, comparable form of an interaction / value"""
    from collections.abc import Mapping
    if isinstance(x, Mapping):
        acts = x.get("actions") if hasattr(x, "get") else None
        return {str(k): canon(v, acts if k in ("rewards", "feedbacks") else None) for k, v in x.items()}
    if isinstance(x, (list, tuple)): return [canon(v) for v in x]
    if isinstance(x, float): return round(x, 9)
    if isinstance(x, (int, str, bool)) or x is None: return x
    if callable(x) and actions is not None:
        try: return ["fn"] + [canon(x(a)) for a in actions]
        except Exception: return ["fn", repr(type(x))]
    if hasattr(x, "__iter__"):
        try: return [canon(v) for v in x]
        except Exception: pass
    if hasattr(x, "__len__") and hasattr(x, "__getitem__"):      # rows without __iter__ (e.g. the dense view of a sparse row)
        try: return [canon(x[i]) for i in range(len(x))]
        except Exception: pass
    return repr(x)


class PmfLearner:
    """A logging policy that answers with a PMF: the action is then drawn by the caller's generator (seeded with the log seed)."""
    @property
    def params(self): return {"family": "pmf"}
    def predict(self, context, actions): return [(i + 1) / (len(actions) * (len(actions) + 1) / 2) for i in range(len(actions))]
    def learn(self, *a, **k): pass


# ---------------------------------------------------------------- catalogue
def bases(tmp):
    from coba.environments import Environments
    from coba.pipes import ListSource
    from coba.learners import RandomLearner, FixedLearner
    X = [[i % 3, (i * 7) % 5, float(i % 4) / 2] for i in range(40)]; Y = [["a", "b", "c"][i % 3] for i in range(40)]
    csv = "\n".join(["x,y,lbl"] + ["%d,%d,%s" % (i % 4, (i * 3) % 7, "LMN"[i % 3]) for i in range(36)])
    arff = "@relation r\n@attribute x numeric\n@attribute y numeric\n@attribute lbl {L,M,N}\n@data\n" + "\n".join("%d,%d,%s" % (i % 4, (i * 3) % 7, "LMN"[i % 3]) for i in range(36))
    csvf = os.path.join(tmp, "d.csv"); open(csvf, "w").write(csv)
    arfff = os.path.join(tmp, "d.arff"); open(arfff, "w").write(arff)
    arff2f = os.path.join(tmp, "d2.arff"); open(arff2f, "w").write(arff.replace("{L,M,N}", "{L,M}").replace(",N", ",M"))
    # mutable argument objects the caller keeps: whatever is read, they must stay what the caller made them
    RF1 = ["a", "xa", "x"]; RF2 = ["xa", "a", "xxa"]; RF3 = ["x", "xa"]
    def lam():
        return Environments.from_lambda(45, lambda i: [i % 5, i % 3], lambda i, c: [0, 1, 2], lambda i, c, a: float((a + i) % 3 == 0))
    def lam_sparse():      # sparse contexts whose later interactions bring feature names not seen before
        return Environments.from_lambda(45, lambda i: {"f%d" % (i % 7): 1, "g%d" % (i // 4): i % 3 + 1}, lambda i, c: [0, 1, 2], lambda i, c, a: float((a + i) % 3 == 0))
    return {
        "lambda-sparse": (lam_sparse, "sim-sparse"),
        "linear":    (lambda: Environments.from_linear_synthetic(60, n_actions=3, n_context_features=3, n_action_features=2, seed=5), "sim-dense"),
        "neighbors": (lambda: Environments.from_neighbors_synthetic(50, n_actions=3, n_context_features=2, n_action_features=2, n_neighborhoods=5, seed=2), "sim-dense"),
        "kernel":    (lambda: Environments.from_kernel_synthetic(40, n_actions=3, n_context_features=2, n_action_features=2, n_exemplars=4, seed=3), "sim-dense"),
        "bandit":    (lambda: Environments.from_bandit_synthetic(40, n_actions=3, seed=4), "sim-nocontext"),
        "lambda":    (lam, "sim-dense"),
        "sup-seq":   (lambda: Environments.from_supervised(X, Y), "sim-cat"),
        # two classes / two actions: after repr() the actions are one-hot PAIRS, and a reward's argmax is a 2-tuple
        "sup-2cls":  (lambda: Environments.from_supervised(X, [["a", "b"][(i * i) % 2] for i in range(40)]), "sim-cat"),
        "sup-arff2": (lambda: Environments.from_supervised(__import__("coba").environments.ArffSource(arff2f), label_col="lbl"), "sim-cat"),
        "linear-2":  (lambda: Environments.from_linear_synthetic(40, n_actions=2, n_context_features=2, n_action_features=0, seed=9), "sim-dense"),
        "sup-csv":   (lambda: Environments.from_supervised(__import__("coba").environments.CsvSource(csvf, has_header=True), label_col="lbl"), "sim-cat"),
        "sup-arff":  (lambda: Environments.from_supervised(__import__("coba").environments.ArffSource(arfff), label_col="lbl"), "sim-cat"),
        "logged":    (lambda: Environments.from_linear_synthetic(50, n_actions=3, n_context_features=2, n_action_features=2, seed=7).logged(RandomLearner(), seed=2.5), "logged"),
        "logged-fx": (lambda: lam().logged(FixedLearner([.5, .25, .25]), seed=4), "logged"),
        # the caller's own reward_features list, with and without context / action features
        "linear-rf":   (lambda: Environments.from_linear_synthetic(40, n_actions=3, n_context_features=2, n_action_features=2, reward_features=RF2, seed=3), "sim-dense"),
        "linear-rf-a0": (lambda: Environments.from_linear_synthetic(40, n_actions=3, n_context_features=3, n_action_features=0, reward_features=RF1, seed=3), "sim-dense"),
        "linear-rf-x0": (lambda: Environments.from_linear_synthetic(40, n_actions=3, n_context_features=0, n_action_features=2, reward_features=RF3, seed=3), "sim-dense"),
    }, (X, Y, RF1, RF2, RF3)


def _sp_a(i): return {"f%d" % (i % 7): 1, "g%d" % (i // 4): i % 3 + 1}
def _sp_b(i): return {"h%d" % (i % 5): 2, "f%d" % ((i * 3) % 7): 1, "z": i % 4}
def _acts(i, c): return [0, 1, 2]
def _rwd(i, c, a): return float((a + i) % 3 == 0)
def _dn_a(i): return [i % 5, i % 3]
def _dn_b(i): return [(i * 2) % 7, i % 4]


def _siblings():
    from coba.environments import Environments
    from coba.learners import RandomLearner
    return {
        "sparse": (lambda: Environments.from_lambda(40, _sp_a, _acts, _rwd), lambda: Environments.from_lambda(40, _sp_b, _acts, _rwd)),
        "dense": (lambda: Environments.from_lambda(40, _dn_a, _acts, _rwd), lambda: Environments.from_lambda(40, _dn_b, _acts, _rwd)),
        "linear": (lambda: Environments.from_linear_synthetic(40, n_actions=3, n_context_features=2, n_action_features=2, seed=5),
                   lambda: Environments.from_linear_synthetic(40, n_actions=3, n_context_features=2, n_action_features=2, seed=6)),
        "logged": (lambda: Environments.from_lambda(40, _dn_a, _acts, _rwd).logged(RandomLearner(), seed=2),
                   lambda: Environments.from_lambda(40, _dn_b, _acts, _rwd).logged(RandomLearner(), seed=3)),
    }


class _Lazy(dict):
    def items(self):
        if not self: self.update(_siblings())
        return dict.items(self)


SIBLINGS = _Lazy()


STEPS = {
    "shuffle7": lambda e: e.shuffle(seed=7), "shuffle0": lambda e: e.shuffle(seed=0), "take30": lambda e: e.take(30), "take100s": lambda e: e.take(100, strict=True),
    "slice": lambda e: e.slice(2, 33, 2), "reservoir": lambda e: e.reservoir(20, seeds=3), "scale": lambda e: e.scale("mean", "std"), "scale10": lambda e: e.scale("min", "minmax", using=10), "scale0": lambda e: e.scale(0, "maxabs", using=10),
    "impute": lambda e: e.impute("mean"), "sparse": lambda e: e.sparse(), "dense-h": lambda e: e.dense(8, "hashing"), "dense-l": lambda e: e.dense(8, "lookup"),
    "flatten": lambda e: e.flatten(), "sort0": lambda e: e.sort(0), "where": lambda e: e.where(n_interactions=(5, None)), "batch3": lambda e: e.batch(3), "unbatch": lambda e: e.unbatch(),
    "cycle5": lambda e: e.cycle(5), "riffle": lambda e: e.riffle(3, seed=2), "params": lambda e: e.params({"tag": 1}), "repr": lambda e: e.repr("onehot", "onehot"), "binary": lambda e: e.binary(),
    "noise": lambda e: e.noise(context=(0, .1), seed=3), "cache": lambda e: e.cache(), "chunk": lambda e: e.chunk(), "materialize": lambda e: e.materialize(), "ope": lambda e: e.ope_rewards("IPS"),
    "logged": lambda e: e.logged(__import__("coba").learners.RandomLearner(), seed=1.5),
    "grounded": lambda e: e.grounded(5, 3, 4, 2, seed=1),
    # the seed 0 (falsy in Python, as good a seed as any other) for every seeded step
    "reservoir0": lambda e: e.reservoir(20, seeds=0), "noise0": lambda e: e.noise(context=(0, .1), seed=0), "riffle0": lambda e: e.riffle(3, seed=0),
    "logged0": lambda e: e.logged(PmfLearner(), seed=0), "loggedp": lambda e: e.logged(PmfLearner(), seed=3), "grounded0": lambda e: e.grounded(5, 3, 4, 2, seed=0),
}
WRAPS = ["cache", "chunk", "materialize"]

# ---- size classes: the model's N items against batches of `batch` -> a real length against save()'s batches
SAVE_BATCH = 1000      # coba/environments/serialized.py, EnvironmentsToObjects._env_to_objects: list(islice(I,1000))
SIZE_MODEL = {"N = 4": "N = 5", "BatchSet = {}": "BatchSet = {6, 5, 4, 2}"}      # below one batch / exactly one / one more / two and a partial one
KEEP_LEN = ["shuffle7", "shuffle0", "scale10", "impute", "sort0", "params", "noise0", "flatten", "where", "cache", "chunk", "materialize"]      # cheap steps that keep the length


def real_pos(k, batch):
    """abstract position k (in items, batches of `batch`) -> real position (batches of SAVE_BATCH): same number of full batches,
    remainder 0 -> 0, 1 -> 1, batch-1 -> SAVE_BATCH-1, anything between -> the middle"""
    full, rem = divmod(k, batch)
    return full * SAVE_BATCH + (0 if rem == 0 else 1 if rem == 1 else SAVE_BATCH - 1 if rem == batch - 1 else SAVE_BATCH // 2)


def sized_bases(L):
    from coba.environments import Environments
    from coba.learners import RandomLearner
    X = [[i % 3, (i * 7) % 5, float(i % 4) / 2] for i in range(L)]; Y = [["a", "b", "c"][i % 3] for i in range(L)]
    return {
        "lambda":        lambda: Environments.from_lambda(L, _dn_a, _acts, _rwd),
        "lambda-sparse": lambda: Environments.from_lambda(L, _sp_b, _acts, _rwd),
        "linear-2":      lambda: Environments.from_linear_synthetic(L, n_actions=2, n_context_features=2, n_action_features=0, seed=9),
        "bandit":        lambda: Environments.from_bandit_synthetic(L, n_actions=3, seed=4),
        "sup-seq":       lambda: Environments.from_supervised(X, Y),
        "logged":        lambda: Environments.from_lambda(L, _dn_a, _acts, _rwd).logged(RandomLearner(), seed=2),
    }


def pipelines(tmp, rng, count):
    """-> [(description, factory)] where factory() builds a fresh, identical single-environment pipeline"""
    B, data = bases(tmp)
    out = []
    names = sorted(STEPS)
    fixed = [("linear", ["cache"]), ("linear", ["chunk", "shuffle7"]), ("logged", ["shuffle7"]), ("logged", ["shuffle7", "cache"]), ("logged-fx", ["shuffle0", "take30"]),
             ("sup-seq", []), ("sup-seq", ["cache"]), ("sup-csv", ["shuffle7"]), ("sup-arff", ["scale"]), ("linear", ["dense-l"]), ("linear", ["sparse", "dense-l", "cache"]),
             ("lambda", ["batch3", "cache"]), ("neighbors", ["materialize"]), ("kernel", ["reservoir", "chunk"]), ("bandit", ["cycle5", "cache"]), ("linear", ["logged", "shuffle7", "chunk"]),
             ("lambda-sparse", ["dense-l"]), ("lambda-sparse", ["dense-l", "take30"]), ("lambda-sparse", ["shuffle7", "dense-h"]), ("lambda-sparse", ["scale0", "cache"]),
             ("lambda", ["logged0"]), ("lambda", ["logged0", "shuffle0", "cache"]), ("linear", ["noise0", "riffle0"]), ("linear", ["reservoir0", "chunk"]), ("linear-2", ["grounded0"]),
             ("lambda", ["grounded", "cache", "cycle5"]), ("lambda", ["grounded", "materialize", "cycle5"]),     # > 128 feedback evaluations per read on stored feedback objects
             ("sup-arff2", ["repr", "materialize"]), ("sup-2cls", ["repr", "cache"]), ("linear-2", ["grounded", "materialize"]), ("linear-2", ["repr", "shuffle7", "materialize"])]
    chains = list(fixed)
    while len(chains) < count:
        b = rng.choice(sorted(B)); k = rng.randrange(0, 4)
        ch = [rng.choice(names) for _ in range(k)]
        if rng.random() < .5: ch.insert(rng.randrange(len(ch) + 1), rng.choice(WRAPS))
        chains.append((b, ch))
    for b, ch in chains:
        def factory(b=b, ch=ch):
            e = B[b][0]()
            for s in ch: e = STEPS[s](e)
            return e[0]
        out.append(("%s|%s" % (b, ">".join(ch)), factory))
    return out, data


def neighbours():
    """the OTHER environments of an `other` step: the public constructors called with other arguments than the catalogue's bases -
    arguments left at their defaults, feature kinds absent, other sizes / seeds.  Each is built afresh and read completely."""
    from coba.environments import Environments
    return [
        lambda: Environments.from_linear_synthetic(12),
        lambda: Environments.from_linear_synthetic(12, n_context_features=0),
        lambda: Environments.from_linear_synthetic(12, n_action_features=0),
        lambda: Environments.from_linear_synthetic(12, n_actions=2, n_context_features=0, n_action_features=3, reward_features=["a", "xa", "x"], seed=[2, 3]),
        lambda: Environments.from_neighbors_synthetic(12),
        lambda: Environments.from_neighbors_synthetic(12, n_context_features=0, n_neighborhoods=3),
        lambda: Environments.from_neighbors_synthetic(12, n_action_features=0, n_neighborhoods=3),
        lambda: Environments.from_kernel_synthetic(12),
        lambda: Environments.from_kernel_synthetic(12, n_context_features=0, n_exemplars=3),
        lambda: Environments.from_kernel_synthetic(12, n_action_features=0, n_exemplars=3, kernel="linear"),
        lambda: Environments.from_mlp_synthetic(12),
        lambda: Environments.from_mlp_synthetic(12, n_context_features=0),
        lambda: Environments.from_bandit_synthetic(12),
        lambda: Environments.from_lambda(12, _sp_b, _acts, _rwd).dense(8, "lookup"),
        lambda: Environments.from_lambda(12, _dn_b, _acts, _rwd).shuffle(seed=[1, 2]).scale("min", "minmax"),
    ]


def read_others(made):
    """an `other` step: every neighbour is built and read completely (a constructor this version of coba does not have, or that
    rejects the arguments, is no neighbour).  `made` counts the environments read."""
    for f in neighbours():
        try: envs = list(f())
        except Exception: continue
        for e in envs:
            for _ in e.read(): pass
            e.params
            made[0] += 1


def clean_reference(factory):
    """the first complete read and the params of a fresh pipeline IN A FORKED CHILD of this process as it is before any environment
    has been read here: a reference that no earlier read of any other object in this process can have influenced"""
    r, w = os.pipe(); pid = os.fork()
    if pid == 0:
        code = 1
        try:
            os.close(r); env = factory(); ref = [canon(i) for i in env.read()]
            with os.fdopen(w, "w") as f: json.dump([ref, canon(dict(env.params))], f)
            code = 0
        finally:
            os._exit(code)
    os.close(w)
    with os.fdopen(r) as f: txt = f.read()
    os.waitpid(pid, 0)
    return json.loads(txt) if txt else None


def run(ctx):
    rng = random.Random(ctx.seed)
    # ---- 1. the design ----
    for nm, sub, expect in (("cache+shuffle", {}, None), ("no-cache", {"HasCache = TRUE": "HasCache = FALSE"}, None),
                            ("deeper", {"N = 4": "N = 5", "MaxOps = 3": "MaxOps = %d" % ctx.pick(3, 4)}, None),
                            ("guard:seed-restored-by-plain-statement", {'ShuffleMode = "local"': 'ShuffleMode = "plain"'}, "ParamsStable"),
                            ("guard:seed-restored-in-finally-but-cache-keeps-the-iterator", {'ShuffleMode = "local"': 'ShuffleMode = "finally"'}, "ParamsStable"),
                            ("guard:drop-forgets-iterator", {"DropKillsIter = FALSE": "DropKillsIter = TRUE"}, "CacheSound"),
                            ("save+sizes", SIZE_MODEL, None),
                            ("others", {"Others = FALSE": "Others = TRUE"}, None),
                            ("guard:other-read-rewrites-a-shared-default", {"Others = FALSE": "Others = TRUE", "SharedDefault = FALSE": "SharedDefault = TRUE"}, "ParamsStable"),
                            ("guard:save-collects-one-reused-buffer", {"N = 4": "N = 5", "BatchSet = {}": "BatchSet = {2}", "MaxOps = 3": "MaxOps = 1", "AliasBatches = FALSE": "AliasBatches = TRUE"}, "SavedSound")):
        cfg = tracecheck._cfg("EnvRead.cfg", sub, ctx.scratch, "er_%s.cfg" % nm.replace(":", "_"))
        r = tlc.run("EnvRead", cfg, ctx.scratch, workers=8, timeout=3600, coverage=(expect is None))
        ctx.add_tlc("EnvRead " + nm, r, required_actions=((["Open", "Next1", "Drop", "Params", "Pickle"] + (["Save"] if nm == "save+sizes" else []) + (["Other"] if nm == "others" else [])) if expect is None else ()))
        names = {v["name"] for v in r.violations}
        if expect is None:
            for v in r.violations: ctx.violation("spec:%s" % v["name"], "EnvRead.tla (%s) violates %s" % (nm, v["name"]), v["trace"][:60])
            if nm == "cache+shuffle": hists = [h for h in r.json if isinstance(h, list)]
            if nm == "save+sizes": shists = [h for h in r.json if isinstance(h, dict)]
            if nm == "others": ohists = [h for h in r.json if isinstance(h, list) and any(s_["op"] == "other" for s_ in h)]
        elif expect not in names:
            raise RuntimeError("guard model %s does not violate %s: vacuous" % (nm, expect))
    hists = sorted({json.dumps(h, sort_keys=True) for h in hists})
    hists = [json.loads(h) for h in hists]
    if len(hists) < 100: raise RuntimeError("only %d histories" % len(hists))
    # ---- 2. replay on the catalogue ----
    tmp = os.path.join(ctx.scratch, "data"); os.makedirs(tmp, exist_ok=True)
    pipes, data = pipelines(tmp, rng, ctx.pick(70, 400))
    data0 = copy.deepcopy(data)
    # ---- histories with reads of OTHER environment objects between the steps (EnvRead.tla, Other): the object's reads and params
    #      stay what a fresh identical pipeline gives in a process where nothing else has been read (clean_reference)
    ohists = [json.loads(x) for x in sorted({json.dumps(h, sort_keys=True) for h in ohists})]
    if len(ohists) < 50: raise RuntimeError("only %d histories with reads of other environments" % len(ohists))
    nb = ctx.pick(31, min(len(pipes), 120))      # the curated pipelines (quick) / and the first random chains (thorough)
    clean = [clean_reference(f) for _, f in pipes[:nb]]
    rng3 = random.Random(ctx.seed * 104729 + 11); nother = 0; made = [0]
    for (desc, factory), cr in zip(pipes[:nb], clean):
        if cr is None: continue           # not readable: reported (curated) or skipped (random chain) by the catalogue replay below
        for h in rng3.sample(ohists, min(len(ohists), ctx.pick(4, 12))):
            ctx.case(json.dumps([desc, h])); nother += 1
            bad = replay(factory, h, cr[0], cr[1], others=lambda: read_others(made), norm=True)
            if bad:
                sig, what = bad
                ctx.violation("others:" + sig, "%s   pipeline=%s history=%s" % (what, desc, json.dumps([(s["op"], s["k"]) for s in h])), dict(pipeline=desc, history=h))
            if data != data0:
                ctx.violation("caller-data-modified", "reading modified the objects the caller passed in (%s)  pipeline=%s" % (json.dumps(data[2:]), desc), dict(pipeline=desc, history=h))
                for o, o0 in zip(data, data0): o[:] = copy.deepcopy(o0)      # put the caller's objects back as they were
    ctx.extra["other_env_cases"] = nother; ctx.extra["other_envs_read"] = made[0]
    if nother < 60 or made[0] < 10 * nother // 2: raise RuntimeError("only %d histories with other reads ran (%d other environments read)" % (nother, made[0]))
    per = ctx.pick(25, len(hists))
    skipped = 0
    for desc, factory in pipes:
        try:
            ref_env = factory(); ref = [canon(i) for i in ref_env.read()]; ref_params = canon(dict(ref_env.params))
            again = [canon(i) for i in factory().read()]
        except Exception as e:
            if pipes.index((desc, factory)) < 31:     # the curated pipelines are type-compatible by construction
                ctx.violation("curated:first-read-raises", "a fresh %s cannot be read even once: %s: %s" % (desc, type(e).__name__, str(e)[:150]), dict(pipeline=desc))
            skipped += 1; continue            # not a type-compatible chain: a fresh object cannot even be read once
        if again != ref:
            # every component of the catalogue is seeded (None, the time-seeded default, is never passed): two fresh identical
            # pipelines must read alike
            ctx.violation("fresh-reads-differ", "two freshly built identical pipelines yield different sequences%s  pipeline=%s" % (_first(again, ref), desc), dict(pipeline=desc))
            skipped += 1; continue
        nh = per if pipes.index((desc, factory)) >= 31 else min(len(hists), 4 * per)      # the curated pipelines get four times as many histories
        for h in (hists if nh >= len(hists) else rng.sample(hists, nh)):
            ctx.case(json.dumps([desc, h]))
            bad = replay(factory, h, ref, ref_params)
            if bad:
                sig, what = bad
                ctx.violation(sig, "%s   pipeline=%s history=%s" % (what, desc, json.dumps([(s["op"], s["k"]) for s in h])), dict(pipeline=desc, history=h))
            if data != data0:
                ctx.violation("caller-data-modified", "reading modified the sequences the caller passed in  pipeline=%s" % desc, dict(pipeline=desc, history=h))
                for o, o0 in zip(data, data0): o[:] = copy.deepcopy(o0)
    ctx.traces = ctx.evaluations
    ctx.sample(dict(pipeline=pipes[0][0], history=hists[len(hists) // 2]), limit=1)
    ctx.extra["pipelines"] = len(pipes) - skipped; ctx.extra["chains_skipped_as_incompatible"] = skipped
    if len(pipes) - skipped < 15: raise RuntimeError("too few usable pipelines")
    # ---- a shared prefix: environments derived from one materialize()d / cache()d / chunk()ed environment hold the SAME stored
    #      interactions; reading one of them (completely or part-way) must leave what the others - and the stored environment
    #      itself - yield unchanged ("reading never modifies the data held by the source")
    B, _ = bases(tmp)
    nshared = 0
    for bname in ctx.pick(["linear", "logged", "lambda-sparse", "sup-seq"], sorted(B)):
        for wrap in ("materialize", "cache"):
            for sname in sorted(STEPS):
                if sname in WRAPS: continue
                try:
                    stored = STEPS[wrap](B[bname][0]())
                    before = [canon(i) for i in stored[0].read()]
                    derived = STEPS[sname](stored)[0]
                    first = [canon(i) for i in derived.read()]
                except Exception:
                    continue        # not a type-compatible step for this base
                nshared += 1; ctx.case("shared|%s|%s|%s" % (bname, wrap, sname))
                try:
                    it = iter(derived.read()); list(itertools.islice(it, 5)); del it
                    after = [canon(i) for i in stored[0].read()]
                    again = [canon(i) for i in derived.read()]
                except Exception as e:
                    ctx.violation("shared-prefix:raises:%s" % type(e).__name__, "re-reading after a read of a derived environment raised %s: %s  base=%s|%s step=%s" % (type(e).__name__, str(e)[:120], bname, wrap, sname), dict(base=bname, wrap=wrap, step=sname)); continue
                if after != before:
                    ctx.violation("shared-prefix:stored-data-modified", "reading %s(...) changed what the %s()d environment it was derived from yields%s  base=%s" % (sname, wrap, _first(after, before), bname), dict(base=bname, wrap=wrap, step=sname))
                elif again != first:
                    ctx.violation("shared-prefix:reread-differs", "%s(...) on a %s()d environment yields another sequence on its second read%s  base=%s" % (sname, wrap, _first(again, first), bname), dict(base=bname, wrap=wrap, step=sname))
    ctx.extra["shared_prefix_cases"] = nshared
    # ---- siblings: a step applied to a COLLECTION of different environments gives each of them what it gives that environment
    #      alone - whichever sibling was read before it, and also for a pickled copy taken before anything was read (what a worker
    #      process of an experiment receives)
    from coba.environments import Environments
    nsib = 0
    for pname, (fa, fb) in sorted(SIBLINGS.items()):
        for sname in sorted(STEPS):
            if sname in WRAPS: continue
            try:
                solo = [canon(i) for i in STEPS[sname](fb())[0].read()]
                both = STEPS[sname](fa() + fb())
                if len(both) != 2: continue
                try: pk = pickle.loads(pickle.dumps(both[1]))
                except Exception: pk = None
                for _ in both[0].read(): pass
                r1 = [canon(i) for i in both[1].read()]
                rp = [canon(i) for i in pk.read()] if pk is not None else None
            except Exception:
                continue
            nsib += 1; ctx.case("siblings|%s|%s" % (pname, sname))
            if r1 != solo:
                ctx.violation("siblings:differs", "%s(...) over two environments: the second one, read after the first, yields another sequence than the same step over it alone%s  pair=%s" % (sname, _first(r1, solo), pname), dict(pair=pname, step=sname))
            elif rp is not None and rp != solo:
                ctx.violation("siblings:pickled-copy-differs", "%s(...) over two environments: a pickled copy of the second one (taken before any read) yields another sequence than the original object%s  pair=%s" % (sname, _first(rp, solo), pname), dict(pair=pname, step=sname))
    ctx.extra["sibling_cases"] = nsib
    if nsib < 20: raise RuntimeError("only %d sibling cases ran" % nsib)
    # ---- save() as a step of the history, on environments of every size class of the model
    shists = [json.loads(x) for x in sorted({json.dumps(h, sort_keys=True) for h in shists})]
    if len(shists) < 100: raise RuntimeError("only %d histories with save()" % len(shists))
    rng2 = random.Random(ctx.seed * 7919 + 4)
    nsized = 0; import time as _t; _t0 = _t.time()
    for batch in sorted({h["batch"] for h in shists}):
        mine = [h for h in shists if h["batch"] == batch]
        # the histories in which something is read after a save() (the others only show that save() does not raise)
        mine = [h for h in mine if any(s_["op"] in ("full", "partial") and s_["k"] > 0 and any(t["op"] == "save" for t in h["hist"][:j]) for j, s_ in enumerate(h["hist"]))] or mine
        L = real_pos(mine[0]["size"], batch); SB = sized_bases(L); done = 0; tries = 0
        while done < ctx.pick(3, 6) and tries < 40:
            tries += 1
            b = rng2.choice(sorted(SB)); ch = [rng2.choice(KEEP_LEN) for _ in range(rng2.randrange(0, 3))]
            def factory(b=b, ch=ch):
                e = SB[b]()
                for s_ in ch: e = STEPS[s_](e)
                return e[0]
            desc = "%s[%d]|%s" % (b, L, ">".join(ch))
            try:
                ref_env = factory(); ref = [canon(i) for i in ref_env.read()]; ref_params = canon(dict(ref_env.params))
                if [canon(i) for i in factory().read()] != ref or len(ref) != L: continue
            except Exception:
                continue            # not a type-compatible chain
            done += 1
            for h in rng2.sample(mine, ctx.pick(2, 10)):
                ctx.case(json.dumps([desc, h])); nsized += 1
                bad = replay(factory, h["hist"], ref, ref_params, kmap=lambda k, batch=batch: real_pos(k, batch), tmp=tmp)
                if bad:
                    sig, what = bad
                    ctx.violation(sig, "%s   pipeline=%s history=%s" % (what, desc, json.dumps([(s_["op"], s_["k"]) for s_ in h["hist"]])), dict(pipeline=desc, history=h))
    ctx.extra["sized_save_cases"] = nsized
    ctx.traces += nsized; ctx.extra["sized_save_wall_s"] = round(_t.time() - _t0, 1)
    if nsized < 20: raise RuntimeError("only %d sized save() cases ran" % nsized)
    # save()/from_save(): the saved form read repeatedly
    from coba.environments import Environments
    for desc, factory in pipes[:ctx.pick(6, 30)] + [p for p in pipes[20:31]]:
        try:
            ref = [canon(i) for i in factory().read()]
            f = os.path.join(tmp, "sv.zip")
            if os.path.exists(f): os.remove(f)
            Environments.from_custom(factory()).save(f)
            saved = Environments.from_save(f)[0]
        except Exception:
            continue
        ctx.case("save|" + desc)
        r1 = [canon(i) for i in saved.read()]; it = iter(saved.read()); next(it, None); del it; r2 = [canon(i) for i in saved.read()]
        if not (r1 == r2): ctx.violation("from_save:reread", "a saved environment read twice gives different sequences  pipeline=%s" % desc, dict(pipeline=desc))
        elif r1 != ref: ctx.violation("from_save:differs", "the saved environment does not yield the sequence that was saved%s  pipeline=%s" % (_first(r1, ref), desc), dict(pipeline=desc))
    ctx.assumptions += ["components seeded with None (time-seeded by design) and one-shot sources are outside the property", "a chain whose first read on a fresh object raises is not type-compatible and is skipped (counted in chains_skipped_as_incompatible)",
                        "abstract drop points 0..3 of the model (N=4, slice 2) are mapped to real positions 0, 1, 25 (one cache slice) and 30",
                        "save() histories: the model's size classes (5 items against batches of 6, 5, 4, 2) are rendered as environments of 999, 1000, 1001, 2001 interactions (save() writes batches of 1000); positions are mapped batch-wise (real_pos)"]


KMAP = {0: 0, 1: 1, 2: 25, 3: 30, 4: 31}


def replay(factory, h, ref, ref_params, kmap=None, tmp=None, others=None, norm=False):
    try: env = factory()
    except Exception as e:      # the same constructor calls built the reference: what was read in between made them fail
        return ("build:raises:%s" % type(e).__name__, "building the pipeline again, with the arguments that built the reference, raised %s: %s" % (type(e).__name__, str(e)[:120]))
    read_once = False
    files = []
    try: return _replay(env, h, ref, ref_params, kmap, tmp, files, read_once, others, (lambda x: json.loads(json.dumps(x))) if norm else (lambda x: x))
    finally:
        for f in files:
            if os.path.exists(f): os.remove(f)


_NSAVE = itertools.count()


def _replay(env, h, ref, ref_params, kmap, tmp, files, read_once, others=None, norm=lambda x: x):
    for step in h:
        op = step["op"]
        try:
            if op == "full":
                got = norm([canon(i) for i in env.read()]); read_once = True
                if got != ref: return ("full-read-differs", "a full read gave %d interactions %s the reference's %d%s" % (len(got), "vs" , len(ref), _first(got, ref)))
            elif op == "partial":
                k = min(kmap(step["k"]) if kmap else KMAP.get(step["k"], step["k"]), max(len(ref) - 1, 0))
                it = iter(env.read()); got = norm([canon(x) for x in itertools.islice(it, k)])
                if hasattr(it, "close"): it.close()
                del it
                read_once = read_once or k > 0
                if got != ref[:k]: return ("partial-read-differs", "the first %d interactions of a read differ from the reference%s" % (k, _first(got, ref[:k])))
            elif op == "params":
                if read_once:
                    p = norm(canon(dict(env.params)))
                    if p != ref_params: return ("params-changed", "params are %s, the reference reports %s" % (json.dumps(p)[:200], json.dumps(ref_params)[:200]))
            elif op == "pickle":
                env = pickle.loads(pickle.dumps(env))
            elif op == "other":      # other environment objects are built and read completely; this one is not touched
                others()
            elif op == "save":       # save() reads the object as it is now; the history goes on with the environment save() returns
                from coba.environments import Environments
                f = os.path.join(tmp, "sv_%d.zip" % next(_NSAVE)); files.append(f)
                env = Environments.from_custom(env).save(f)[0]; read_once = True
        except Exception as e:
            return ("%s:raises:%s" % (op, type(e).__name__), "%s raised %s: %s" % (op, type(e).__name__, str(e)[:120]))
    return None


def _first(a, b):
    for i, (x, y) in enumerate(zip(a, b)):
        if x != y: return "; first difference at #%d: %s vs %s" % (i, json.dumps(x)[:150], json.dumps(y)[:150])
    return ""
