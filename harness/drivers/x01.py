"""X01 - the OpenML loading protocol: spec/OpenmlLoad.tla (+ MC_OpenmlLoad.tla), spec/OpenmlLoadTrace.tla.

1. TLC checks OpenmlLoad.tla: safety + deadlock over the concurrent families (2 and 3 loaders), liveness (weak
   fairness) over the Live family, and every deliberately broken variant must be rejected (else the run is vacuous).
2. Sequential binding (spec -> code): TLC enumerates the histories of ONE loader (1-3 reads of the same OpenmlSource
   object, every initial cache, every failure placement, abandon after k rows, with / without semaphore); each is
   replayed on the REAL OpenmlSource with `urllib.request.urlopen` replaced by a scripted fake server and compared event
   by event (probes, semaphore operations, cache look-ups, requests with try number and outcome, cache puts, removals,
   read-lock releases, rows, result class), plus the row values.
3. Concurrent binding (code -> spec): 2-3 loaders as real threads under harness/vsched.py sharing one real
   ConcurrentCacher(MemoryCacher) (virtual lock, `cachers.time.sleep` -> scheduling point) and a virtual semaphore;
   seeded-random and bounded-DFS schedules; every execution is an event trace validated by TLC against
   OpenmlLoadTrace.tla.  Deadlock / livelock = scheduler verdict = violation."""
import os, io, gc, json, random, threading, types, urllib.request, urllib.error, urllib.parse, concurrent.futures
from .. import tlc, vsched, tracecheck
from ..core import MachineryError
from ..vsched import Sched, VLock

ACTIONS = ["StartRead", "SCProbeTG", "SCProbe", "SemAcquire", "SemRelC", "Hit", "Miss", "ReqG", "Put", "GFail", "RelRead",
           "Row", "End", "Close", "ParseFail", "ClrProbe", "ClrRmv", "RelSem", "RelArff", "Done"]
FINISH = dict(level="model_checking",
              rule="a case = one execution of the real OpenmlSource.read protocol: (configuration: loaders x form x initial cache x failure script x abandon points x semaphore capacity x cacher kind) x virtual schedule; distinct = distinct (configuration, event sequence)")
VARIANTS = {"semok": "SeqSpecQ", "noclear": "SeqSpecQ", "clearheld": "SeqSpecQ", "reqcached": "SeqSpecQ", "flag": "Con2SpecQ"}
LOADERS = ["a", "b", "c"]
IDS = {"d1": dict(data=11, task=111, file=1111), "d2": dict(data=22, task=222, file=2222)}
KIND = {"t": "task", "d": "data", "f": "feat", "a": "arff"}
ALLKEYS = [ds + kd for ds in ("d1", "d2") for kd in "tdfa"]
HTTP_ERRORS = [(404, "Not Found", ""), (412, "Precondition Failed", "Please provide API key"), (412, "Precondition Failed", "Authentication failed"),
               (500, "Server Error", "something else")]


def real_key(name):
    ds, kd = name[:2], name[2]
    return "openml_%06d_%s" % (IDS[ds]["task" if kd == "t" else "data"], KIND[kd])


# ---------------------------------------------------------------- the synthetic datasets (truth + expected rows)
RAW = {"d1": [("1", "x", "n"), ("?", "z", "p"), ("3", "z", "n"), ("4", "x", "p")], "d2": [("10", "u", "p"), ("?", "v", "n"), ("30", "u", "n"), ("40", "v", "p")]}
NOM = {"d1": "{x,z}", "d2": "{u,v}"}


def documents(ds, dom, R):
    """kind -> (text of the true document, text of a complete but unparsable document)."""
    ids = IDS[ds]
    src = [] if dom == "nosrc" else [{"name": "source_data", "data_set": {"data_set_id": str(ids["data"]), "target_feature": "y"}}]
    task = {"task": {"task_id": str(ids["task"]), "task_type_id": "3" if dom == "badtype" else "1", "input": src + [{"name": "estimation_procedure"}]}}
    descr = {"id": str(ids["data"]), "name": "x01" + ds, "file_id": str(ids["file"]), "status": "deactivated" if dom == "deact" else "active"}
    if dom != "notarget": descr["default_target_attribute"] = "y"
    F = lambda i, n, t, ig="false": {"index": str(i), "name": n, "data_type": t, "is_ignore": ig, "is_row_identifier": "false"}
    feat = {"data_features": {"feature": [F(0, "a", "numeric"), F(1, "ig", "numeric", "true"), F(2, "c", "nominal"), F(3, "y", "nominal")]}}
    head = ["@relation x01" + ds, "@attribute a numeric", "@attribute ig numeric", "@attribute c " + NOM[ds], "@attribute y {n,p}", "@data"]
    arff = head + ["%s,9,%s,%s" % r for r in RAW[ds][:R]]
    badarff = ["@relation x01" + ds, "@attribute a", "@attribute y {n,p}", "@data", "1,n"]      # IndexError in the reader
    J = lambda o: json.dumps(o, indent=1)                                                       # several lines per document
    return {"t": (J(task), J(task)[:-9]), "d": (J({"data_set_description": descr}), J({"data_set_description": descr})[:-7]),
            "f": (J(feat), J(feat)[:-11]), "a": ("\n".join(arff) + "\n", "\n".join(badarff) + "\n")}


def expected_rows(ds, R, drop, label):
    out = []
    for a, c, y in RAW[ds][:R]:
        if drop and a == "?": continue
        av = None if a == "?" else float(a)
        out.append(([av, y if label == "c" else c], c if label == "c" else y))
    return out


def plain(row):
    f, l = row.labeled[0], row.labeled[1]
    conv = lambda v: None if v is None else (float(v) if isinstance(v, (int, float)) else str(v))
    return ([conv(v) for v in f], conv(l))


def lines_of(text): return text.splitlines()


# ---------------------------------------------------------------- the instrumented world of one execution
class FakeResp(io.BytesIO):
    """What urllib hands to HttpSource: a byte stream with headers (HTTP itself is not exercised)."""
    def __init__(self, body, cut=None):
        super().__init__(body); self.headers = {}; self.cut = cut; self.calls = 0
    def info(self): return self
    def get_charsets(self): return ["utf-8"]
    def read(self, n=-1):
        self.calls += 1
        if self.cut is not None:
            if self.calls == 1: return super().read(self.cut)
            raise TimeoutError("timed out (after part of the body)")
        return super().read(n)


class World:
    def __init__(self, s, cfg, pre, R):
        self.s = s; self.cfg = cfg; self.R = R; self.ev = []; self.tl = threading.local()
        self.names = {real_key(n): n for n in ALLKEYS}
        self.docs = {ds: documents(ds, cfg["dom"][ds], R[ds]) for ds in ("d1", "d2")}
        self.nreq = {k: 0 for k in ALLKEYS}; self.tries = {}; self.script = {k: list(v) for k, v in cfg["script"]}
        self.urls = []; self.flags = []
    def me(self):
        t = self.s.current()
        return t.name if t is not None else vsched._tls.acting.name
    def log(self, e, k="", v="", n=0, l=None):
        self.ev.append(dict(e=e, l=l or self.me(), k=k, v=v, n=n))
    def content(self, name, stored):
        got = [x.rstrip("\r\n") for x in stored] if isinstance(stored, list) else None
        while got and got[-1] == "": got.pop()
        good, bad = self.docs[name[:2]][name[2]]
        return "good" if got == lines_of(good) else "bad" if got == lines_of(bad) else "other"
    # ---- the scripted server ----
    def urlopen(self, req, timeout=None):
        url = req.full_url; base = url.split("?")[0]
        name = None
        for ds, ids in IDS.items():
            for kd, u in (("t", "https://openml.org/api/v1/json/task/%d" % ids["task"]), ("d", "https://openml.org/api/v1/json/data/%d" % ids["data"]),
                          ("f", "https://openml.org/api/v1/json/data/features/%d" % ids["data"]), ("a", "https://openml.org/data/v1/download/%d" % ids["file"])):
                if base == u: name = ds + kd
        if name is None:
            self.log("req-unknown-url", v=url[:80]); raise urllib.error.URLError("x01: unknown url " + url)
        def eff():
            i = self.nreq[name]; self.nreq[name] += 1
            sc = self.script.get(name, [])
            o = sc[i] if i < len(sc) else "ok"
            l = self.me(); self.tries[l] = self.tries.get(l, 0) + 1
            self.log("req", name, o, self.tries[l]); self.urls.append((l, name, self.tries[l], url, timeout))
            return o, i
        o, i = self.s.op("req", None, lambda: True, eff)
        good, bad = self.docs[name[:2]][name[2]]
        if o == "ok": return FakeResp(good.encode())
        if o == "corrupt": return FakeResp(bad.encode())
        if o == "to": raise TimeoutError("timed out")
        if o == "tomid":
            body = good.encode(); cut = body.index(b"\n", len(body) // 2) + 1
            return FakeResp(body, cut=cut)
        if o == "herr":
            code, msg, text = HTTP_ERRORS[i % len(HTTP_ERRORS)]
            raise urllib.error.HTTPError(url, code, msg, {}, FakeResp(text.encode()))
        raise urllib.error.URLError("x01: connection reset")


def make_cachers(W, concurrent):
    import coba.context.cachers as C
    T = lambda: True
    class TracedMem(C.MemoryCacher):
        """The real MemoryCacher; its operations on this run's keys are scheduling points and events."""
        outer = not concurrent
        def rmv(self, key):
            name = W.names.get(key)
            if name is None: return C.MemoryCacher.rmv(self, key)
            if self.outer:
                def probe():
                    r = key in self._cache; W.log("rmvProbe", name, "T" if r else "F"); return r
                if not W.s.op("rmvProbe", None, T, probe): return
            W.s.op("rmv", None, T, lambda: (C.MemoryCacher.rmv(self, key), W.log("rmv", name)))
        def get_set(self, key, getter):
            name = W.names.get(key)
            if name is None: return C.MemoryCacher.get_set(self, key, getter)
            if key in self._cache:
                W.s.op("get", None, T, lambda: W.log("get", name))
                return C.MemoryCacher.get_set(self, key, getter)
            if getter is None:
                W.s.op("get", None, T, lambda: W.log("get-absent", name))
                return C.MemoryCacher.get_set(self, key, getter)
            def miss():
                W.log("miss", name); W.tries[W.me()] = 0
            W.s.op("miss", None, T, miss)
            try:
                r = C.MemoryCacher.get_set(self, key, getter)
            except vsched._Aborted:
                raise
            except BaseException as e:
                W.log("getfail", name, exc_kind(e)); raise
            W.log("put", name, W.content(name, self._cache.get(key)))
            return r
    class TracedCC(C.ConcurrentCacher):
        """The real ConcurrentCacher; only observation points are added (no behaviour of its own)."""
        def _in(self): return getattr(W.tl, "inside", 0) > 0
        def __contains__(self, key):
            name = W.names.get(key)
            if name is None or self._in(): return C.ConcurrentCacher.__contains__(self, key)
            def probe():
                r = C.ConcurrentCacher.__contains__(self, key); W.log("probe", name, "T" if r else "F"); return r
            return W.s.op("probe", None, T, probe)
        def rmv(self, key):
            name = W.names.get(key)
            if name is not None:
                def probe():
                    r = C.ConcurrentCacher.__contains__(self, key); W.log("rmvProbe", name, "T" if r else "F")
                W.s.op("rmvProbe", None, T, probe)
            W.tl.inside = getattr(W.tl, "inside", 0) + 1
            try: return C.ConcurrentCacher.rmv(self, key)
            finally: W.tl.inside -= 1
        def get_set(self, key, getter):
            W.tl.inside = getattr(W.tl, "inside", 0) + 1
            try: return C.ConcurrentCacher.get_set(self, key, getter)
            finally: W.tl.inside -= 1
        def _release_read_lock(self, key):
            C.ConcurrentCacher._release_read_lock(self, key)
            name = W.names.get(key)      # the release inside get_set (cachers.py 193: look-up missed) is not an event
            if name is not None and not self._in(): W.log("relR", name)
    mem = TracedMem()
    if not concurrent: return mem, mem, None
    arr = VArr(65536)
    cc = TracedCC(mem, list=arr, lock=VLock("mutex"))
    return cc, mem, arr


class VArr(list):
    def __init__(self, n): super().__init__([0] * n); self.version = 0
    def __setitem__(self, i, v): list.__setitem__(self, i, v); self.version += 1


class VSem:
    """CobaContext.store['openml_semaphore']: acquisition is a scheduling point, both operations are events."""
    def __init__(self, W, cap): self.W = W; self.v = cap; self.cap = cap; self.over = False
    def acquire(self, *a, **k):
        W = self.W
        def eff():
            self.v -= 1; W.log("semAcq")
        W.s.op("semAcq", self, lambda: self.v > 0, eff); return True
    def release(self):
        self.v += 1; self.W.log("semRel")
        if self.v > self.cap: self.over = True


def exc_kind(e):
    from coba.exceptions import CobaException
    return "coba" if isinstance(e, CobaException) else "timeout" if isinstance(e, TimeoutError) else "unexp"


def datasets_rows(cfg):
    """rows of each dataset's file: the largest n any loader of it must yield; a loader's n is R (keep rows with
    missing values) or R-1 (drop_missing)."""
    R = {"d1": 1, "d2": 1}
    for l in LOADERS:
        if cfg["reads"].get(l, 0): R[cfg["ds"][l]] = max(R[cfg["ds"][l]], cfg["n"][l])
    return R


def run_one(policy, cfg, pre, concurrent=True, variety=0, max_steps=6000, extra_row=False):
    """One execution of the real OpenmlSource loaders.  cfg as in OpenmlLoad.tla (JSON form), pre: key name -> content."""
    import coba.context.cachers as C
    import coba.environments.openml as O
    from coba.context import CobaContext, NullLogger
    s = Sched(policy, max_steps=max_steps)
    R = datasets_rows(cfg)
    if extra_row: R = {ds: r + 1 for ds, r in R.items()}      # the file holds one more row (with a missing value) and every loader drops it
    W = World(s, cfg, pre, R)
    outer, mem, arr = make_cachers(W, concurrent)
    for name, c in pre.items():
        if c != "absent": mem._cache[real_key(name)] = lines_of(W.docs[name[:2]][name[2]][0 if c == "good" else 1])
    sem = VSem(W, cfg["cap"]) if cfg["cap"] > 0 else None
    api = "K%d" % variety if variety % 4 == 3 else None
    saved = (CobaContext.cacher, CobaContext.store, CobaContext.api_keys, CobaContext.logger, C.time, O.time, urllib.request.urlopen)
    CobaContext.cacher = outer; CobaContext.store = {"openml_semaphore": sem} if sem else {}
    CobaContext.api_keys = {"openml": api}; CobaContext.logger = NullLogger()
    def vsleep(_):
        v0 = arr.version
        s.op("sleep", None, lambda: arr.version != v0, lambda: None)
    C.time = types.SimpleNamespace(sleep=vsleep)
    O.time = types.SimpleNamespace(sleep=lambda x: None)
    urllib.request.urlopen = W.urlopen
    results = {}
    def loader(l, j):
        ds, form, n = cfg["ds"][l], cfg["form"][l], cfg["n"][l]
        drop = n < R[ds]
        tgt = None if (cfg["dom"][ds] == "notarget" or form == "task") else [None, "y", "c"][(variety + j) % 3]
        label = "c" if tgt == "c" else "y"
        kw = dict(task_id=IDS[ds]["task"]) if form == "task" else dict(data_id=IDS[ds]["data"])
        if tgt: kw["target"] = tgt
        src = O.OpenmlSource(drop_missing=drop, **kw)
        exp = expected_rows(ds, R[ds], drop, label)
        res = results[l] = []
        for i in range(cfg["reads"][l]):
            ab = cfg["ab"][l][i] if i < len(cfg["ab"][l]) else -1
            s.op("start", None, lambda: True, lambda: W.log("start", n=i + 1, l=l))
            rows = []; out = "ok"; what = ""
            gen = src.read()
            try:
                for r in gen:
                    s.op("row", None, lambda: True, lambda: W.log("row", n=len(rows) + 1, l=l))
                    rows.append(plain(r)); r = None
                    if ab >= 0 and len(rows) >= ab:
                        W.log("close", n=len(rows), l=l); out = "closed"; gen.close(); break
            except vsched._Aborted:
                raise
            except BaseException as e:
                out = exc_kind(e); what = "%s: %s" % (type(e).__name__, str(e)[:100])
            gen = None
            if concurrent and any(v != 0 for (t, _), v in list(outer._locks.items()) if t == threading.get_ident()): gc.collect()
            W.log("done", v=out, n=len(rows), l=l)
            res.append(dict(out=out, what=what, rows=rows, rows_ok=(rows == exp[:len(rows)] and (out != "ok" or len(rows) == len(exp))), expected=exp))
    for j, l in enumerate(LOADERS):
        if cfg["reads"].get(l, 0): s.spawn(l, (lambda l=l, j=j: loader(l, j)))
    verdict = "ok"
    try:
        s.run()
    except vsched.Deadlock as d:
        verdict = "deadlock %s" % (d,); s.abort()
    except vsched.TooLong:
        verdict = "livelock (step budget exceeded)"; s.abort()
    finally:
        (CobaContext.cacher, CobaContext.store, CobaContext.api_keys, CobaContext.logger, C.time, O.time, urllib.request.urlopen) = saved
    errors = ["%s crashed: %r" % (t.name, t.exc) for t in s.tasks if t.exc is not None and not isinstance(t.exc, vsched._Aborted)]
    leaked = [] if arr is None else [i for i, v in enumerate(list.__iter__(arr)) if v != 0]
    locks = {} if not concurrent else {str(k[1]): v for k, v in outer._locks.items() if v != 0}
    retry_urls = []
    byreq = {}
    for l, name, n, url, timeout in W.urls:
        if n == 1: byreq[(l, name)] = url
        elif byreq.get((l, name)) != url: retry_urls.append(dict(loader=l, doc=name, first=byreq.get((l, name)), retry=url, try_=n))
    return dict(trace=dict(cfg=cfg, pre=pre, ev=W.ev), verdict=verdict, errors=errors, results=results, leaked=leaked, locks=locks,
                sem=(None if sem is None else sem.v), sem_over=bool(sem and sem.over), retry_urls=retry_urls,
                choices=list(s.choices), nen=list(s.nenabled), kind="cc" if concurrent else "plain", variety=variety)


# ---------------------------------------------------------------- verdicts common to both bindings
def fmt(ev):
    return " ".join("%s%s%s%s%s" % (e["l"] + "." if e.get("l") else "", e["e"], ":" + e["k"] if e["k"] else "", ":" + e["v"] if e["v"] else "", ":%d" % e["n"] if e["n"] else "") for e in ev)


def direct_findings(res):
    """Verdicts that need no spec: hang, crash, semaphore balance, lock table, row values, the URL of a retry."""
    cfg = res["trace"]["cfg"]; out = []
    if res["verdict"] != "ok": out.append(("hang", "loader(s) wait forever: %s" % res["verdict"]))
    if res["errors"]: out.append(("harness-crash", "; ".join(res["errors"])))
    if res["verdict"] == "ok":
        if res["sem_over"]: out.append(("semaphore:released-without-acquire", "the semaphore was released more often than acquired (value above its capacity %d)" % cfg["cap"]))
        elif res["sem"] is not None and res["sem"] != cfg["cap"]:
            out.append(("semaphore:not-released", "after every loader left the semaphore stands at %d, capacity %d" % (res["sem"], cfg["cap"])))
        if res["leaked"] or res["locks"]: out.append(("lock-leak", "cache lock table / _locks not clear after every loader left: %s %s" % (res["leaked"], res["locks"])))
    for l, rr in res["results"].items():
        for i, r in enumerate(rr):
            if not r["rows_ok"]: out.append(("rows:differ", "loader %s read %d (%s) yielded %r, the file holds %r" % (l, i + 1, r["out"], r["rows"], r["expected"])))
    if res["retry_urls"]: out.append(("retry:different-url", "a retry after a timeout requested another URL than the first try: %s" % res["retry_urls"][0]))
    return out


def classify(res, exp, act, before=()):
    """A stable signature for an event the spec does not explain (exp = the spec's event when known)."""
    mine = [e for e in before if act and e["l"] == act["l"]]
    tail = [(e["e"], e["k"][2:], e["v"]) for e in mine[-4:]]
    if act and act["e"] != "semAcq" and tail == [("probe", "t", "F"), ("probe", "d", "T"), ("probe", "f", "T"), ("probe", "a", "T")]:
        return "semaphore:skipped-although-task-description-missing"
    msgs = " ".join(r["what"] for rr in res["results"].values() for r in rr)
    if "unrecoverable state" in msgs: return "clear-cache:refused-while-own-read-lock-held"
    if act and act["e"] == "put" and act["v"] == "other": return "cache:partial-download-stored-as-complete"
    if act is None and not before:       # not diagnosed by TLC (bounded number of single-trace runs): look for the known pattern
        evs = res["trace"]["ev"]
        for l in LOADERS:
            mine = [e for e in evs if e["l"] == l]
            for i in range(4, len(mine)):
                if mine[i]["e"] != "semAcq" and [(e["e"], e["k"][2:], e["v"]) for e in mine[i - 4:i]] == [("probe", "t", "F"), ("probe", "d", "T"), ("probe", "f", "T"), ("probe", "a", "T")]:
                    return "semaphore:skipped-although-task-description-missing"
        return "protocol:unexplained(not-diagnosed)"
    a = act["e"] if act else "end"; e = exp["e"] if exp else None
    if act and act["e"] == "done" and res["sem"] is not None and res["sem"] != res["trace"]["cfg"]["cap"]: return "semaphore:not-released"
    if e: return "protocol:%s-where-%s-expected" % (a, e)
    return "protocol:unexplained-%s" % a


def first_diff(a, b):
    for i in range(max(len(a), len(b))):
        if i >= len(a) or i >= len(b) or a[i] != b[i]: return i
    return None


def validate(ctx, traces, name, workers, max_diag):
    """tracecheck.validate with a bound on the single-trace diagnosis runs (each costs a JVM start)."""
    if not traces: return []
    tf = os.path.join(ctx.scratch, name + ".json")
    json.dump(traces, open(tf, "w"))
    cfg = tracecheck._cfg("OpenmlLoadTrace.cfg", {}, ctx.scratch, name + ".cfg")
    r = tlc.run("OpenmlLoadTrace", cfg, ctx.scratch, workers=workers, env={"TRACE_FILE": tf}, timeout=3000, continue_=True, heap="8g")
    ctx.states += r.distinct; ctx.transitions += r.generated; ctx.traces += len(traces)
    ctx.tlc_runs.append({"name": name, "generated": r.generated, "distinct": r.distinct, "depth": r.depth, "wall_s": round(r.wall, 2), "traces": len(traces)})
    acc = {j["acc"] for j in r.json if isinstance(j, dict) and "acc" in j}
    bad = {}
    for v in r.violations:
        tid = None
        for ln in v["trace"]:
            if "tid = " in ln:
                try: tid = int(ln.split("tid = ")[1].split()[0])
                except Exception: pass
        if tid is not None: bad.setdefault(tid, "%s %s" % (v["kind"], v["name"]))
    rej = []
    for i in range(1, len(traces) + 1):
        if i in acc and i not in bad: continue
        pos = tracecheck.diagnose(ctx, "OpenmlLoadTrace", "OpenmlLoadTrace.cfg", traces[i - 1], name=name) if len(rej) < max_diag else None
        rej.append((i - 1, bad.get(i, "no spec behaviour explains the trace"), pos))
    return rej


# ---------------------------------------------------------------- model checking
def mc_cfg(ctx, name, spec, loaders, variant="intended", rec=False, live=False):
    sub = {"SPECIFICATION Con2SpecQ": "SPECIFICATION " + spec, "Loaders <- mcLoaders2": "Loaders <- " + loaders,
           'Variant = "intended"': 'Variant = "%s"' % variant, "Rec = FALSE": "Rec = %s" % ("TRUE" if rec else "FALSE")}
    if live: sub.update({"\\* PROPERTY Terminates": "PROPERTY Terminates", "CHECK_DEADLOCK TRUE": "CHECK_DEADLOCK FALSE"})
    return tracecheck._cfg("OpenmlLoad_mc.cfg", sub, ctx.scratch, name + ".cfg")


def mc_run(ctx, name, spec, loaders, workers, **kw):
    cov = kw.pop("coverage", True)
    cfg = mc_cfg(ctx, name, spec, loaders, **kw)
    return name, tlc.run("MC_OpenmlLoad", cfg, os.path.join(ctx.scratch, name), workers=workers, coverage=cov, timeout=3000, heap="8g")


# ---------------------------------------------------------------- jobs run in forked workers (results are consumed in submission order: deterministic)
def _seq_job(a):
    gk, idx, conc = a
    cfg = json.loads(gk)
    return run_one(lambda en, s: en[0], cfg, pre_of(cfg["pre"]), concurrent=conc, variety=idx, extra_row=(idx % 2 == 1))


def _rand_job(a):
    cfg, pre, sseed, variety = a
    return run_one(vsched.random_policy(random.Random(sseed)), cfg, pre, variety=variety)


def _dfs_job(a):
    cfg, pre, per, v = a
    def one(policy):
        res = run_one(policy, cfg, pre, variety=v)
        return res["choices"], res["nen"], res
    return list(vsched.dfs(one, per))


def run(ctx):
    import time as _t, multiprocessing as mp
    import coba.context.cachers as C
    t0 = _t.time(); phase = ctx.extra.setdefault("phase_seconds", {})
    rng = random.Random(ctx.seed)
    Q = ctx.pick("Q", "T")
    ix = [C.ConcurrentCacher(C.MemoryCacher())._index(real_key(k)) for k in ALLKEYS]
    if len(set(ix)) != len(ix): raise MachineryError("two cache keys of the synthetic datasets share a lock-table entry")
    workers = mp.get_context("fork").Pool(ctx.pick(6, 12))      # forked before any thread exists
    pool = concurrent.futures.ThreadPoolExecutor(max_workers=4)
    # ---- 1. model checking: the sequential family first (its histories are replayed), the rest in the background ----
    _, rseq = mc_run(ctx, "x01_seq", "SeqSpec" + Q, "mcLoaders1", 16, rec=True)
    jobs = [pool.submit(mc_run, ctx, "x01_con2", "Con2Spec" + Q, "mcLoaders2", ctx.pick(4, 6)),
            pool.submit(mc_run, ctx, "x01_live", "LiveSpec" + Q, "mcLoaders2", ctx.pick(2, 4), live=True),
            pool.submit(mc_run, ctx, "x01_con3", "Con3Spec" + Q, "mcLoaders", ctx.pick(3, 6))]
    def broken():
        return [mc_run(ctx, "x01_broken_" + v, fam, "mcLoaders1" if fam.startswith("Seq") else "mcLoaders2", 2, variant=v, coverage=False)
                for v, fam in VARIANTS.items()]
    vjob = pool.submit(broken)
    coverage = {}
    def account(name, r):
        ctx.add_tlc(name, r)
        for a, c in r.coverage.items(): coverage[a] = coverage.get(a, 0) + c[1]
        for v in r.violations:
            ctx.violation("spec:%s" % (v["name"] or v["kind"]), "OpenmlLoad.tla itself violates %s %s in run %s" % (v["kind"], v["name"], name), v["trace"][-60:])
    account("x01_seq", rseq); phase["seq_mc"] = round(_t.time() - t0, 1)
    # ---- 2. sequential histories replayed on the real OpenmlSource ----
    groups = {}
    for h in rseq.json:
        if isinstance(h, dict) and "hist" in h: groups.setdefault(json.dumps(h["cfg"], sort_keys=True), []).append(h["hist"])
    if not groups: raise MachineryError("no sequential histories were generated")
    keys = sorted(groups)
    if ctx.quick:                      # the quick tier replays a seeded sample (every history in the thorough tier)
        rng.shuffle(keys); keys = sorted(keys[:1500])
    todo = [(gk, idx, conc) for idx, gk in enumerate(keys) for conc in ([False, True] if json.loads(gk)["cap"] == 0 else [True])]
    nseq = 0
    for (gk, idx, conc), res in zip(todo, workers.imap(_seq_job, todo, chunksize=20)):
        cfg = res["trace"]["cfg"]; cands = groups[gk]
        nseq += 1; ctx.traces += 1
        got = res["trace"]["ev"]
        want = [[e for e in c if conc or e["e"] != "relR"] for c in cands]
        ctx.case(json.dumps([gk, conc, got], sort_keys=True))
        if idx % 700 == 0 and conc: ctx.sample(dict(cfg=cfg, kind=res["kind"], events=fmt(got)), limit=4)
        rep = dict(cfg=cfg, pre=res["trace"]["pre"], cacher=res["kind"], variety=idx, actual=fmt(got), expected=[fmt(w) for w in want],
                   results={l: [dict(out=r["out"], what=r["what"], rows=r["rows"]) for r in rr] for l, rr in res["results"].items()})
        found = direct_findings(res)
        if got not in want:
            best = max(want, key=lambda w: first_diff(w, got) or 0)
            i = first_diff(best, got)
            exp = best[i] if i < len(best) else None; act = got[i] if i < len(got) else None
            sig = classify(res, exp, act, got[:i])
            found = [f for f in found if f[0] not in ("rows:differ",) or sig.startswith("protocol")]
            found.insert(0, (sig, "history of one loader differs from the specification at event #%d: the code did `%s`, the specification says `%s`; %s" % (
                i + 1, fmt([act]) if act else "nothing more", fmt([exp]) if exp else "nothing more", "; ".join(r["what"] for r in res["results"]["a"] if r["what"]))))
        for sig, what in found[:2]:
            ctx.violation(sig if sig.startswith(("hang", "harness")) else "seq:" + sig, what, rep)
    ctx.extra["sequential_histories"] = nseq; phase["seq_replay"] = round(_t.time() - t0, 1)
    ctx.exhaustive = not ctx.quick
    # ---- 3. concurrent loaders under virtual schedules -> traces -> TLC ----
    traces = []; meta = []
    def record(res, how):
        ctx.case(json.dumps([res["trace"]["cfg"], res["trace"]["pre"], res["trace"]["ev"]], sort_keys=True))
        rep = dict(how=how, cfg=res["trace"]["cfg"], pre=res["trace"]["pre"], events=fmt(res["trace"]["ev"]), choices=res["choices"], variety=res["variety"],
                   results={l: [dict(out=r["out"], what=r["what"], rows=r["rows"]) for r in rr] for l, rr in res["results"].items()})
        found = direct_findings(res)
        known = None        # executions that show one of the two defects the code itself announces are reported directly
        msgs = " ".join(r["what"] for rr in res["results"].values() for r in rr)
        if "unrecoverable state" in msgs: known = "clear-cache:refused-while-own-read-lock-held"
        elif any(e["e"] == "put" and e["v"] == "other" for e in res["trace"]["ev"]): known = "cache:partial-download-stored-as-complete"
        if known:
            found = [f for f in found if f[0] != "rows:differ"]
            found.insert(0, (known, "%s; events: %s" % (msgs[:200], fmt(res["trace"]["ev"])[:600])))
        for sig, what in found[:2]: ctx.violation(sig if sig.startswith(("hang", "harness")) else "conc:" + sig, what, rep)
        if res["verdict"] == "ok" and not res["errors"] and not known:
            traces.append(res["trace"]); meta.append((res, rep, {f[0] for f in found}))
        elif known: ctx.traces += 1
    nrand = ctx.pick(500, 8000); ndfs = ctx.pick(500, 8000)
    rj = []; hows = []
    for n in range(nrand):
        cfg, pre = rand_cfg(rng); sseed = rng.randrange(1 << 30)
        rj.append((cfg, pre, sseed, n)); hows.append(dict(kind="random", sched_seed=sseed))
    for ci, (cfg, pre) in enumerate(curated()):          # random schedules of the directed configurations
        for n in range(ctx.pick(40, 400)):
            sseed = rng.randrange(1 << 30)
            rj.append((cfg, pre, sseed, n)); hows.append(dict(kind="random-curated", config=ci, sched_seed=sseed))
    dj = []; budget = ndfs; todo = curated()
    while budget > 0:                                     # bounded DFS over the schedules of small configurations
        cfg, pre = todo.pop() if todo else rand_cfg(rng, small=True)
        per = min(budget, ctx.pick(40, 400))
        dj.append((cfg, pre, per, rng.randrange(1000))); budget -= per
    for how, res in zip(hows, workers.imap(_rand_job, rj, chunksize=10)): record(res, how)
    for j, ress in enumerate(workers.imap(_dfs_job, dj)):
        for k, res in enumerate(ress): record(res, dict(kind="dfs", config=j, n=k))
    workers.close()
    phase["conc_runs"] = round(_t.time() - t0, 1)
    if traces: ctx.sample(dict(cfg=traces[0]["cfg"], events=fmt(traces[0]["ev"])), limit=6)
    B = 4000; ndiag = 0
    for b in range(0, len(traces), B):
        for i, reason, pos in validate(ctx, traces[b:b + B], "x01_trace_%d" % (b // B), ctx.pick(8, 12), ctx.pick(5, 30) - ndiag):
            ndiag += 1
            res, rep, already = meta[b + i]
            evs = res["trace"]["ev"]
            act = evs[pos - 1] if pos and pos <= len(evs) else None
            sig = classify(res, None, act, evs[:pos - 1] if pos else [])
            if sig in already or ("semaphore:not-released" in already and sig.startswith("protocol")): continue
            ctx.violation("conc:" + sig, "%s; the specification explains the first %s events, not #%s `%s`" % (reason, (pos or 1) - 1, pos, fmt([act]) if act else "-"), rep)
    phase["trace_validation"] = round(_t.time() - t0, 1)
    # ---- model-checking results ----
    for j in jobs:
        name, r = j.result(); account(name, r)
    for name, r in vjob.result():
        ctx.tlc_runs.append({"name": name, "generated": r.generated, "distinct": r.distinct, "violations": [v["name"] or v["kind"] for v in r.violations][:3], "wall_s": round(r.wall, 2)})
        if not r.violations: raise MachineryError("the deliberately broken variant %s was NOT rejected by TLC: the invariants are vacuous" % name)
    pool.shutdown(); phase["mc_joined"] = round(_t.time() - t0, 1)
    missing = [a for a in ACTIONS if coverage.get(a, 0) == 0]
    if missing: raise MachineryError("vacuous model runs: actions never taken: %s" % missing)
    ctx.extra["action_coverage"] = {a: coverage.get(a, 0) for a in ACTIONS}
    ctx.extra["broken_variants_rejected"] = sorted(VARIANTS)
    ctx.assumptions += [
        "HTTP is replaced at urllib.request.urlopen by a scripted server (documents of two small synthetic datasets; failure kinds: TimeoutError before / after part of the body, HTTPError 404 / 412 / 500, URLError, a complete but unparsable document)",
        "loaders are threads sharing one ConcurrentCacher(MemoryCacher) and one virtual semaphore (stand-ins for CobaMultiprocessor's worker processes); scheduling points: semaphore acquire, every lock acquisition / sleep of the cacher, every inner cache operation, every un-locked probe, every request, every row; code between two points runs atomically",
        "the cache keys of the two datasets do not share a lock-table entry (checked); KeyboardInterrupt and DiskCacher are not exercised",
        "an HTTP error (CobaException raised inside the getter) clears the dataset's cache keys through _get_data's handler: the specification follows the repository's own test test_cache_cleared_on_cache_coba_exception here"]


def curated():
    """Directed configurations for the bounded-DFS schedules (windows that random configurations rarely hit)."""
    def C(cap, fa, fb, ra, rb, script, pre="none", na=1, nb=1):
        return (dict(cap=cap, form=dict(a=fa, b=fb, c="data"), ds=dict(a="d1", b="d1", c="d1"), reads=dict(a=ra, b=rb, c=0),
                     ab=dict(a=[], b=[], c=[]), n=dict(a=na, b=nb, c=1), dom=dict(d1="ok", d2="ok"), script=script, pre=pre), pre_of(pre))
    return [C(2, "task", "data", 1, 1, [["d1t", ["boom"]]]),
            C(1, "data", "data", 1, 1, [], pre="bada", na=2),
            C(2, "task", "task", 2, 1, [["d1d", ["herr"]]]),
            C(2, "task", "task", 1, 1, [["d1t", ["corrupt"]]]),
            C(3, "task", "task", 1, 1, [["d1t", ["corrupt", "corrupt"]]])]


PRES = {"none": [], "all": ["d1t", "d1d", "d1f", "d1a"], "df": ["d1d", "d1f"], "t": ["d1t"], "dfa": ["d1d", "d1f", "d1a"]}


def pre_of(name):
    pre = {k: "absent" for k in ALLKEYS}
    if name.startswith("bad"):
        for k in ("d1t", "d1d", "d1f", "d1a"): pre[k] = "good"
        pre["d1" + name[3]] = "bad"
    else:
        for k in PRES[name]: pre[k] = "good"
    return pre


def rand_cfg(rng, small=False):
    """A random configuration of 2-3 concurrent loaders (JSON form of OpenmlLoad.tla's cfg) and an initial cache."""
    nl = 2 if small or rng.random() < .6 else 3
    two_ds = rng.random() < .25
    R = {"d1": rng.choice([1, 2, 2, 3]), "d2": rng.choice([1, 2])}
    cfg = dict(cap=rng.choice([1, 1, 2, 3]), form={}, ds={}, reads={}, ab={}, n={}, dom={"d1": "ok", "d2": "ok"}, script=[], pre="random")
    if rng.random() < .12: cfg["dom"]["d1"] = rng.choice(["deact", "notarget", "badtype", "nosrc"])
    for i, l in enumerate(LOADERS):
        act = i < nl
        ds = "d2" if (two_ds and i == 1) else "d1"
        cfg["form"][l] = rng.choice(["data", "task"]); cfg["ds"][l] = ds
        cfg["reads"][l] = 0 if not act else (1 if small or rng.random() < .7 else 2)
        cfg["n"][l] = R[ds] if (R[ds] == 1 or rng.random() < .5) else R[ds] - 1
        cfg["ab"][l] = [rng.choice([-1, -1, 1]) for _ in range(cfg["reads"][l])]
    used = {cfg["ds"][l] for l in LOADERS if cfg["reads"][l]}
    for l in LOADERS:
        cfg["ab"][l] = [min(a, cfg["n"][l]) if a > 0 else a for a in cfg["ab"][l]]
    seqs = [["herr"], ["boom"], ["corrupt"], ["to"], ["to", "to"], ["to", "to", "to"], ["to", "herr"], ["corrupt", "boom"], ["boom", "corrupt"], ["to", "to", "to", "to", "boom"]]
    for _ in range(rng.choice([0, 1, 1, 1, 2])):
        k = rng.choice(sorted(used)) + rng.choice("tdfa")
        if k not in [x[0] for x in cfg["script"]]: cfg["script"].append([k, list(rng.choice(seqs + ([["tomid"]] if k[2] == "a" and rng.random() < .3 else [])))])
    pre = {k: "absent" for k in ALLKEYS}
    mode = rng.random()
    for ds in used:
        for kd in "tdfa":
            if mode < .35: continue
            if mode < .55 or rng.random() < .6: pre[ds + kd] = "bad" if rng.random() < .15 else "good"
    return cfg, pre
