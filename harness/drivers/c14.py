"""C14 - supervised data becomes a bandit problem whose best action is the true label: spec/Supervised.tla.

Supervised.tla DEFINES the interactions a set of examples must become (one per example in order or in the
order of the reservoir sample, context = the features, one shared action set = the labels of the data,
reward = [a = y] / Jaccard({a}, Y) / -|a - y|) and what examples a source denotes (X/Y sequences, dense rows
with or without headers, sparse rows, CSV / ARFF / sparse ARFF / LibSVM / Manik text written by the spec's
canonical writer).  TLC enumerates every case of the bounded domain (all label assignments of <= MaxRows
examples over <= 3 labels x label kinds x label types given / inferred x label column position x by index /
by name x take), checks the design invariants (the label is the unique best offered action, ...) and prints
input and expected interactions.  The driver builds the real source from the printed input (Python only
converts values), constructs SupervisedSimulation three ways (positional, keywords,
Environments.from_supervised), reads it and compares every interaction with the spec's.  The reservoir
sample is a parameter of the spec: the positions the real Reservoir(take) picks from n items are handed to
TLC, which checks that they form a sample (predicate IsSample) and defines the expected interactions over it."""
import json, os
from .. import tlc, tracecheck

FINISH = dict(level="model_checking",
              rule="a case = one TLC-generated supervised dataset + source presentation + label column/type + take, read through the real SupervisedSimulation (three construction styles) and compared interaction by interaction; distinct = distinct cases")
LEVELS = ["b", "a", "c"]
MAXN, MAXTAKE = 6, 5


def run(ctx):
    from coba.pipes import Reservoir
    # the seeded reservoir sample is a parameter of the spec (Supervised.tla Order / IsSample)
    table = [[[i + 1 for i in Reservoir(k).filter(range(n))] for k in range(MAXTAKE + 1)] for n in range(MAXN + 1)]
    tf = os.path.join(ctx.scratch, "reservoir.json")
    json.dump(table, open(tf, "w"))
    if ctx.quick:
        runs = [("quick", {})]
    else:
        big = {"MaxRows = 3": "MaxRows = 4", "MaxRowsM = 2": "MaxRowsM = 3", "Takes <- TakesQuick": "Takes <- TakesSome",
               "Shapes <- ShapesQuick": "Shapes <- ShapesFull", "XKs <- XKsQuick": "XKs <- XKsAll"}
        runs = [("rows4-" + s, dict(big, **{"Srcs <- AllSrcs": 'Srcs = {%s}' % ", ".join('"%s"' % x for x in grp)}))
                for s, grp in (("obj", ["xy", "rows"]), ("rowsH", ["rowsH"]), ("sparse", ["sparse"]), ("csv", ["csv", "csvH"]),
                               ("arff", ["arff"]), ("sp-text", ["arffS", "libsvm", "manik"]))]
        runs.append(("takes3", {"Takes <- TakesQuick": "Takes <- TakesFull", "XKs <- XKsQuick": "XKs <- XKsAll"}))
        runs.append(("rows5", {"MaxRows = 3": "MaxRows = 5", "Takes <- TakesQuick": "Takes <- TakesTwo", "Shapes <- ShapesQuick": "Shapes <- ShapesOne"}))
    total = 0
    for name, sub in runs:
        cfg = tracecheck._cfg("Supervised.cfg", sub, ctx.scratch, "sup_%s.cfg" % name)
        r = tlc.run("MC_Supervised", cfg, ctx.scratch, workers=16, timeout=3600, heap="16g", env={"C14_RESERVOIR": tf})
        ctx.add_tlc("Supervised_" + name, r)
        for v in r.violations:
            if v["name"] == "SampleOK":
                ctx.violation("take:not-a-sample", "Reservoir(take) did not return min(take, n) distinct positions: %s" % " ".join(v["trace"][:12]), v["trace"][:40])
            else:
                raise RuntimeError("Supervised.tla violates its own invariant %s:\n%s" % (v["name"] or v["kind"], "\n".join(v["trace"][:40])))
        cases = [j for j in r.json if isinstance(j, dict) and "out" in j and "inp" in j]
        del r
        if len(cases) < 1000: raise RuntimeError("Supervised %s produced only %d cases" % (name, len(cases)))
        cases.sort(key=lambda c: json.dumps(c["case"], sort_keys=True))
        ctx.sample(_brief(cases[len(cases) // 3]), limit=8)
        for c in cases:
            ctx.case(json.dumps(c["case"], sort_keys=True))
            replay(ctx, c)
        total += len(cases)
        del cases
    ctx.traces += total
    ctx.exhaustive = True
    ctx.assumptions += [
        "labels of one dataset have one type (Python cannot sort int against str); label sets are lists without repetition",
        "a categorical label's declared levels are taken as the label set of the data (ARFF nominal declaration), in any fixed order",
        "the order of the action set is only required to be the same in every interaction, not to be a particular order",
        "numeric label types on text that the reader leaves as strings (CSV 'r', LibSVM 'r') and nominal labels in sparse ARFF (reader adds a level '0' by design) are outside the domain",
        "take is explored for sources only (the X, Y overload documents no take); the sample positions come from the real Reservoir and are checked by TLC to be a sample (C09 decides which sample)",
        "file syntax is the spec's canonical writer (no quoting, no blanks): syntax variety is C12's subject",
        "each environment is read once (re-reading is C04's subject)"]


def _brief(c):
    return {"case": c["case"], "lines": c["inp"]["lines"][:8], "T": c["T"], "n_out": len(c["out"]), "out0": c["out"][:1]}


def to_py(v, seq=list):
    from coba.primitives import Categorical
    t = v["t"]
    if t == "int": return v["v"]
    if t == "half": return v["v"] / 2
    if t == "str": return v["v"]
    if t == "cat": return Categorical(v["v"], list(LEVELS))
    if t == "none": return None
    if t == "lst": return [to_py(x) for x in v["v"]]
    if t == "seq": return seq(to_py(x) for x in v["v"])
    if t == "map": return {to_py(k): to_py(x) for k, x in v["v"]}
    raise ValueError(t)


def make_source(inp):
    from coba.pipes import IterableSource, Pipes, HeadRows
    from coba.environments import CsvSource, ArffSource, LibSvmSource, ManikSource
    src = inp["src"]
    if src == "rows": return IterableSource([to_py(r) for r in inp["rows"]])
    if src == "rowsH": return Pipes.join(IterableSource([to_py(r) for r in inp["rows"]]), HeadRows(list(inp["headers"])))
    if src == "sparse": return IterableSource([to_py(r) for r in inp["rows"]])
    lines = IterableSource(list(inp["lines"]))
    if src == "csv": return CsvSource(lines)
    if src == "csvH": return CsvSource(lines, has_header=True)
    if src in ("arff", "arffS"): return ArffSource(lines)
    if src == "libsvm": return LibSvmSource(lines)
    if src == "manik": return ManikSource(lines)
    raise ValueError(src)


def builders(inp):
    """The ways the public API lets one state the same environment."""
    from coba.environments import SupervisedSimulation, Environments
    lt = None if inp["lt"] == "none" else inp["lt"]
    if inp["src"] == "xy":
        X = lambda: [to_py(x, tuple) for x in inp["xs"]]
        Y = lambda: [to_py(y) for y in inp["ys"]]
        yield "positional", (lambda: SupervisedSimulation(X(), Y(), lt)) if lt else (lambda: SupervisedSimulation(X(), Y()))
        yield "keywords", lambda: SupervisedSimulation(X(), Y(), label_type=lt)
        yield "from_supervised", lambda: Environments.from_supervised(X(), Y(), label_type=lt)._envs[0]
        return
    take = None if inp["take"] == -1 else inp["take"]
    lc = to_py(inp["labelcol"])
    args = [lc, lt, take]
    while args and args[-1] is None: args.pop()
    yield "positional", lambda: SupervisedSimulation(make_source(inp), *args)
    yield "keywords", lambda: SupervisedSimulation(source=make_source(inp), label_col=lc, label_type=lt, take=take)
    yield "from_supervised", lambda: Environments.from_supervised(make_source(inp), lc, label_type=lt, take=take)._envs[0]


def replay(ctx, c):
    """Every construction style; every aspect of every interaction.  A problem whose signature is a listed known
    finding does not end the comparison: the remaining aspects of the same case are still compared."""
    for style, build in builders(c["inp"]):
        reported = set()
        for sig, what in replay_one(c, build):
            if sig in reported: continue
            reported.add(sig)
            k = c["case"]
            fresh = ctx.violation(sig, "%s  [src=%s label=%s label_type=%s label_col=%s take=%s n=%d, built by %s] input=%s" % (
                what, k["src"], k["lk"], k["lt"], json.dumps(c["inp"]["labelcol"]["v"]) if c["inp"]["labelcol"]["t"] != "none" else None,
                k["take"], k["n"], style, json.dumps(c["inp"]["lines"] or c["inp"]["rows"] or [c["inp"]["xs"], c["inp"]["ys"]])[:500]),
                dict(case=c["case"], inp=c["inp"], expected=c["out"], style=style))
            if fresh: return     # one unlisted violation per case is enough


def _ctx_view(g):
    """What a consumer sees of a context: the mapping for sparse features, the sequence for dense ones."""
    if g is None or isinstance(g, (str, int, float, tuple, dict)): return g
    if hasattr(g, "items"): return dict(g.items())
    return list(g)


def replay_one(c, build):
    T, out, k = c["T"], c["out"], c["case"]
    try:
        got = list(build().read())
    except Exception as e:
        yield "%s:read:raises" % T, "reading the environment raised %s: %s" % (type(e).__name__, str(e)[:150]); return
    if len(got) != len(out):
        yield "%s:count" % T, "%d interactions, expected %d" % (len(got), len(out)); return
    first = None
    for n, (g, o) in enumerate(zip(got, out)):
        # ---- context = the example's features without the label ----
        exp = to_py(o["ctx"], tuple if k["src"] == "xy" else list)
        try:
            seen = _ctx_view(g["context"])
        except Exception as e:
            yield "%s:context:raises" % T, "interaction %d: reading the context raised %s: %s" % (n, type(e).__name__, str(e)[:120]); seen = exp
        if not (seen == exp and type(seen) is type(exp)):
            sig = "%s:context" % T
            if isinstance(seen, dict) and isinstance(exp, dict) and all(seen.get(a) == b for a, b in exp.items()) and len(seen) == len(exp) + 1:
                sig = "context:label-leak" + (":sparse-arff-by-index" if k["src"] == "arffS" and k["by"] == "index" else "")
            yield sig, "interaction %d: context %r, expected the features without the label %r" % (n, seen, exp)
        else:
            # the same features by position / by key, for contexts that are views rather than plain containers
            raw = g["context"]
            try:
                if isinstance(exp, list) and not isinstance(raw, list):
                    byidx = [raw[j] for j in range(len(raw))]
                    if byidx != exp: yield "%s:context:getitem" % T, "interaction %d: context read by position %r, expected %r" % (n, byidx, exp)
                elif isinstance(exp, dict) and not isinstance(raw, dict):
                    bykey = {key: raw[key] for key in exp}
                    if bykey != exp: yield "%s:context:getitem" % T, "interaction %d: context read by key %r, expected %r" % (n, bykey, exp)
            except Exception as e:
                yield "%s:context:getitem" % T, "interaction %d: reading the context %r by position / key raised %s: %s" % (n, exp, type(e).__name__, str(e)[:100])
        # ---- one action set: the labels of the data ----
        if T in ("c", "m"):
            acts = g["actions"]
            want = [to_py(a) for a in o["acts"]]
            try:
                acts = list(acts)
                ok = len(acts) == len(want) and all(any(a == w for a in acts) for w in want)
            except Exception:
                ok = False
            if not ok:
                yield "%s:actions" % T, "interaction %d: actions %r, expected exactly the labels %r" % (n, g["actions"], want)
            elif first is None: first = acts
            elif acts != first:
                yield "%s:actions:vary" % T, "interaction %d offers %r but interaction 0 offers %r" % (n, acts, first)
        # ---- rewards ----
        rw = g["rewards"]
        for a, (num, den) in o["rw"]:
            pa = to_py(a)
            try:
                val = rw(pa)
                val = float(val)
            except Exception as e:
                sig = "%s:reward:raises" % T
                if T == "m" and isinstance(e, TypeError) and isinstance(pa, (int, float)): sig = "m:reward:unsized-label"
                yield sig, "interaction %d: rewards(%r) raised %s: %s (expected %d/%d)" % (n, pa, type(e).__name__, str(e)[:100], num, den); continue
            if abs(val - num / den) > 1e-9:
                sig = "%s:reward" % T
                if T == "m" and isinstance(pa, str) and len(pa) > 1: sig = "m:reward:multichar-label"
                yield sig, "interaction %d: rewards(%r) = %r, expected %d/%d (true label %s)" % (n, pa, val, num, den, rw)
