"""C14 - supervised data becomes a bandit problem whose best action is the true label: spec/Supervised.tla.

Supervised.tla DEFINES the interactions a set of examples must become (one per example in order or in the
order of the reservoir sample, context = the features, one shared action set = the labels of the data,
reward = [a = y] / Jaccard({a}, Y) / -|a - y|) and what examples a source denotes (X/Y sequences, dense rows
with or without headers, sparse rows, CSV / ARFF / sparse ARFF / LibSVM / Manik text written by the spec's
canonical writer).  TLC enumerates every case of the bounded domain (all label assignments of <= MaxRows
examples over <= 3 labels x label kinds x label types given / inferred x label column position x by index /
by name x take x level order of categorical labels (object sources: every label lists the levels in one order, or each
example's label in its own order - Supervised.tla OwnLevels / YIn; the expectation is defined over the label VALUES) x feature values: all distinct, or - dense sources - drawn from the label's own alphabet so that a
feature left / right of the label column EQUALS the example's label, Supervised.tla FVal / FeatureEqualsLabel), checks the design invariants (the label is the unique best offered action, ...) and prints
input and expected interactions.  The driver builds the real source from the printed input (Python only
converts values), constructs SupervisedSimulation three ways (positional, keywords,
Environments.from_supervised) and compares every interaction with the spec's.  Reads are repeated on ONE object
(Supervised.tla Plan / ReadExpect: every read of a simulation delivers the same interactions): the positional object
is read a first time, a second time, once abandoned after the first interaction and once more after that; the
from_supervised object is read through two shuffled pipelines that share it (each a permutation of the expectation).
Failures that only a later read shows are reported as <kind>:second-read:.. / :abandoned-read: / :after-abandoned-read: /
<kind>:fanout:second-pipeline:..  The reservoir
sample is a parameter of the spec: the positions the real Reservoir(take) picks from n items are handed to
TLC, which checks that they form a sample (predicate IsSample) and defines the expected interactions over it."""
import json, os, sys
from .. import tlc, tracecheck

FINISH = dict(level="model_checking",
              rule="a case = one TLC-generated supervised dataset + source presentation + label column/type + take, read through the real SupervisedSimulation (three construction styles; one object read four times, one object shared by two shuffled pipelines) and compared interaction by interaction on every read; distinct = distinct cases")
LEVELS = ["b", "a", "c"]
MAXN, MAXTAKE = 6, 5


def run(ctx):
    from coba.pipes import Reservoir
    # the seeded reservoir sample is a parameter of the spec (Supervised.tla Order / IsSample)
    table = [[[i + 1 for i in Reservoir(k).filter(range(n))] for k in range(MAXTAKE + 1)] for n in range(MAXN + 1)]
    tf = os.path.join(ctx.scratch, "reservoir.json")
    json.dump(table, open(tf, "w"))
    if ctx.quick:
        runs = [("quick", {})]
    else:
        big = {"MaxRows = 3": "MaxRows = 4", "MaxRowsL = 2": "MaxRowsL = 3", "MaxRowsM = 2": "MaxRowsM = 3", "Takes <- TakesQuick": "Takes <- TakesSome",
               "Shapes <- ShapesQuick": "Shapes <- ShapesFull", "XKs <- XKsQuick": "XKs <- XKsAll"}
        runs = [("rows4-" + s, dict(big, **{"Srcs <- AllSrcs": 'Srcs = {%s}' % ", ".join('"%s"' % x for x in grp)}))
                for s, grp in (("obj", ["xy", "rows"]), ("rowsH", ["rowsH"]), ("sparse", ["sparse"]), ("csv", ["csv", "csvH"]),
                               ("arff", ["arff"]), ("sp-text", ["arffS", "libsvm", "manik"]))]
        runs.append(("takes3", {"Takes <- TakesQuick": "Takes <- TakesRest", "Shapes <- ShapesQuick": "Shapes <- ShapesFull"}))
        runs.append(("upper3", {'SpellRule = "alt"': 'SpellRule = "upper"', "XKs <- XKsQuick": "XKs <- XKsAll"}))   # every given type in upper case
        runs.append(("rows5", {"MaxRows = 3": "MaxRows = 5", "Takes <- TakesQuick": "Takes <- TakesTwo", "Shapes <- ShapesQuick": "Shapes <- ShapesOne",
                               "Srcs <- AllSrcs": 'Srcs = {"xy", "rowsH", "sparse", "csvH", "arff", "libsvm"}'}))
    total = 0
    # exceptions Python cannot raise (raised while a generator is finalized) are counted instead of printed per case
    unraisable, hook = {}, sys.unraisablehook
    def count(u):
        key = "%s: %s in %s" % (type(u.exc_value).__name__, u.exc_value, getattr(u.object, "__qualname__", u.object))
        unraisable[key] = unraisable.get(key, 0) + 1
    sys.unraisablehook = count
    try:
        total = _runs(ctx, runs, tf)
    finally:
        sys.unraisablehook = hook
    if unraisable: ctx.extra["unraisable_exceptions_while_reading"] = unraisable
    _finish(ctx, total)


def _runs(ctx, runs, tf):
    total = 0
    for name, sub in runs:
        cfg = tracecheck._cfg("Supervised.cfg", sub, ctx.scratch, "sup_%s.cfg" % name)
        r = tlc.run("MC_Supervised", cfg, ctx.scratch, workers=16, timeout=3600, heap="16g", env={"C14_RESERVOIR": tf})
        ctx.add_tlc("Supervised_" + name, r)
        for v in r.violations:
            if v["name"] == "SampleOK":
                ctx.violation("take:not-a-sample", "Reservoir(take) did not return min(take, n) distinct positions: %s" % " ".join(v["trace"][:12]), v["trace"][:40])
            else:
                raise RuntimeError("Supervised.tla violates its own invariant %s:\n%s" % (v["name"] or v["kind"], "\n".join(v["trace"][:40])))
        cases = [j for j in r.json if isinstance(j, dict) and "out" in j and "inp" in j and "plan" in j]
        del r
        if len(cases) < 1000: raise RuntimeError("Supervised %s produced only %d cases" % (name, len(cases)))
        cases.sort(key=lambda c: json.dumps(c["case"], sort_keys=True))
        ctx.sample(_brief(cases[len(cases) // 3]), limit=8)
        for c in cases:
            ctx.case(json.dumps(c["case"], sort_keys=True))
            replay(ctx, c)
        total += len(cases)
        del cases
    return total


def _finish(ctx, total):
    ctx.traces += total
    ctx.exhaustive = True
    ctx.assumptions += [
        "a given label type is spelled in lower or upper case alternately (parity of n + first label choice), so every configuration of source x label kind x type x shape x by x take is read with both spellings through all three constructions; the thorough tier adds a run with every type in upper case",
        "labels of one dataset have one type (Python cannot sort int against str); label sets are lists without repetition",
        "a categorical label's declared levels are taken as the label set of the data (ARFF nominal declaration), in any fixed order",
        "categorical labels given as objects (X, Y / rows / rows with headers / sparse rows) list the same SET of levels either all in one order or (lo = 'own') example i in the i-th of four different orders; the rewards are probed with categoricals in the spec's declaration order and with the offered action objects themselves; in an ARFF file one declaration orders all labels",
        "the order of the action set is only required to be the same in every interaction, not to be a particular order",
        "numeric label types on text that the reader leaves as strings (CSV 'r', LibSVM 'r') and nominal labels in sparse ARFF (reader adds a level '0' by design) are outside the domain",
        "take is explored for sources only (the X, Y overload documents no take); the sample positions come from the real Reservoir and are checked by TLC to be a sample (C09 decides which sample)",
        "feature values: all distinct (10i+j) for every source; for the dense sources (rows, rows with headers, CSV, ARFF) also drawn from the label's own alphabet (feature j of example i is the example's label when i+j is even, else the next label; ARFF feature attributes then have the label's declared type), for example sets of <= MaxRowsL (quick 2, thorough 3) examples",
        "file syntax is the spec's canonical writer (no quoting, no blanks): syntax variety is C12's subject",
        "every simulation object built positionally is read four times (first, second, abandoned after one interaction, after that); the fan-out is two shuffled pipelines over one from_supervised simulation, built with .filter([Shuffle(0), Shuffle(1)]) because .shuffle(n=2) also appends Finalize (C10's subject); which permutation Shuffle produces is C09's subject"]


def _brief(c):
    return {"case": c["case"], "lines": c["inp"]["lines"][:8], "T": c["T"], "n_out": len(c["out"]), "out0": c["out"][:1]}


def to_py(v, seq=list):
    from coba.primitives import Categorical
    t = v["t"]
    if t == "int": return v["v"]
    if t == "half": return v["v"] / 2
    if t == "str": return v["v"]
    if t == "cat": return Categorical(v["v"], list(v.get("lv", LEVELS)))     # lv: the order in which THIS label lists the levels (Supervised.tla OwnLevels)
    if t == "none": return None
    if t == "lst": return [to_py(x) for x in v["v"]]
    if t == "seq": return seq(to_py(x) for x in v["v"])
    if t == "map": return {to_py(k): to_py(x) for k, x in v["v"]}
    raise ValueError(t)


def make_source(inp):
    from coba.pipes import IterableSource, Pipes, HeadRows
    from coba.environments import CsvSource, ArffSource, LibSvmSource, ManikSource
    src = inp["src"]
    if "_rows" not in inp: inp["_rows"] = [to_py(r) for r in inp["rows"]]      # converted once per case; the rows are never mutated by coba
    if src == "rows": return IterableSource(list(inp["_rows"]))
    if src == "rowsH": return Pipes.join(IterableSource(list(inp["_rows"])), HeadRows(list(inp["headers"])))
    if src == "sparse": return IterableSource(list(inp["_rows"]))
    lines = IterableSource(list(inp["lines"]))
    if src == "csv": return CsvSource(lines)
    if src == "csvH": return CsvSource(lines, has_header=True)
    if src in ("arff", "arffS"): return ArffSource(lines)
    if src == "libsvm": return LibSvmSource(lines)
    if src == "manik": return ManikSource(lines)
    raise ValueError(src)


def builders(inp):
    """The ways the public API lets one state the same environment: each returns (simulation, Environments or None)."""
    from coba.environments import SupervisedSimulation, Environments
    lt = None if inp["lt"] == "none" else inp["lt"]
    def via_envs(envs): return envs._envs[0], envs      # the un-finalized simulation (Finalize is C10's subject)
    if inp["src"] == "xy":
        if "_xs" not in inp: inp["_xs"], inp["_ys"] = [to_py(x, tuple) for x in inp["xs"]], [to_py(y) for y in inp["ys"]]
        X = lambda: list(inp["_xs"])
        Y = lambda: list(inp["_ys"])
        yield "positional", (lambda: (SupervisedSimulation(X(), Y(), lt), None)) if lt else (lambda: (SupervisedSimulation(X(), Y()), None))
        yield "keywords", lambda: (SupervisedSimulation(X(), Y(), label_type=lt), None)
        yield "from_supervised", lambda: via_envs(Environments.from_supervised(X(), Y(), label_type=lt))
        return
    take = None if inp["take"] == -1 else inp["take"]
    lc = to_py(inp["labelcol"])
    args = [lc, lt, take]
    while args and args[-1] is None: args.pop()
    yield "positional", lambda: (SupervisedSimulation(make_source(inp), *args), None)
    yield "keywords", lambda: (SupervisedSimulation(source=make_source(inp), label_col=lc, label_type=lt, take=take), None)
    yield "from_supervised", lambda: via_envs(Environments.from_supervised(make_source(inp), lc, label_type=lt, take=take))


def prep(c):
    """The spec's expected interactions converted to Python values, once per case."""
    seqt = tuple if c["case"]["src"] == "xy" else list
    return [(to_py(o["ctx"], seqt), [to_py(a) for a in o["acts"]], [(to_py(a), num, den) for a, (num, den) in o["rw"]]) for o in c["out"]]


def _tag(sig, tag):
    a, _, b = sig.partition(":")
    return "%s:%s:%s" % (a, tag, b)


def replay(ctx, c):
    """Three objects per case, one per construction style.
    positional: ONE object gets all reads of the spec's Plan (first read, second read, a read abandoned after the first
      interaction, a read after that), each compared with the same expectation (Supervised.tla ReadExpect).
    keywords: one complete read.
    Environments.from_supervised: the two pipelines of a shuffle fan-out (.filter([Shuffle(0), Shuffle(1)]), what
      .shuffle(n=2) builds before it appends Finalize - C10's subject), which share the one simulation: each must deliver
      a permutation of the expectation.
    A problem that the first read shows as well keeps its plain signature; one that only a later read shows is reported
    as <kind>:second-read:<what> / <kind>:abandoned-read:<what> / <kind>:after-abandoned-read:<what>; the fan-out reports
    <kind>:fanout:<what> (pipeline 0) and <kind>:fanout:second-pipeline:<what> (only the second pipeline fails).
    A problem whose signature is a listed known finding does not end the comparison."""
    from coba.environments import Shuffle
    exp, T, k = prep(c), c["T"], c["case"]
    def report(sig, what, style):
        return ctx.violation(sig, "%s  [src=%s label=%s label_type=%s label_col=%s take=%s n=%d features=%s, built by %s] input=%s" % (
            what, k["src"], k["lk"], k["lt"], json.dumps(c["inp"]["labelcol"]["v"]) if c["inp"]["labelcol"]["t"] != "none" else None,
            k["take"], k["n"], k.get("fv", "distinct") + (", every categorical label lists the levels in its own order" if k.get("lo") == "own" else ""), style, json.dumps(c["inp"]["lines"] or c["inp"]["rows"] or [c["inp"]["xs"], c["inp"]["ys"]])[:500]),
            dict(case=c["case"], inp={a: b for a, b in c["inp"].items() if not a.startswith("_")}, expected=c["out"], style=style, plan=c["plan"]))
    for style, build in builders(c["inp"]):
        try:
            sim, envs = build()
        except Exception as e:
            if report("%s:read:raises" % T, "constructing the environment raised %s: %s" % (type(e).__name__, str(e)[:150]), style): return
            continue
        if style == "from_supervised":
            try:
                outs = [list(p.read()) for p in envs.filter([Shuffle(0), Shuffle(1)])._envs]
            except Exception as e:
                if report("%s:fanout:raises" % T, "reading the two shuffled pipelines over one from_supervised simulation raised %s: %s" % (type(e).__name__, str(e)[:150]), style): return
                continue
            bad = [match_any_order(got, exp, T, k) for got in outs]
            if bad[0]:
                if report("%s:fanout:%s" % (T, bad[0][0]), "pipeline 0 of two shuffled pipelines over one from_supervised simulation: %s" % bad[0][1], style): return
            elif bad[1]:
                if report("%s:fanout:second-pipeline:%s" % (T, bad[1][0]), "pipeline 1 of two shuffled pipelines over one from_supervised simulation (pipeline 0 was right): %s" % bad[1][1], style): return
            continue
        base, reported, prev = set(), set(), None
        for r, step in enumerate(c["plan"] if style == "positional" else c["plan"][:1]):
            kind = step["kind"]
            tag = None if r == 0 else "abandoned-read" if kind == "abandon" else "after-abandoned-read" if prev == "abandon" else "second-read"
            prev = kind
            for sig, what in read_and_compare(sim, exp[:step["n"]], T, k, abandon=(kind == "abandon")):
                if tag is None: base.add(sig)
                elif sig in base: continue          # not a failure of the later read only
                else: sig, what = _tag(sig, tag), "read %d of the same object (%s): %s" % (r + 1, tag, what)
                if sig in reported: continue
                reported.add(sig)
                if report(sig, what, style): return     # one unlisted violation per case is enough


def match_any_order(got, exp, T, k):
    if len(got) != len(exp): return "count", "%d interactions, expected %d" % (len(got), len(exp))
    free = list(range(len(exp)))
    for n, g in enumerate(got):
        hit = next((j for j in free if not any(True for _ in check_interaction(n, g, exp[j], T, k, None))), None)
        if hit is None: return "interactions", "interaction %d (context %r, actions %r, rewards %r) is none of the expected interactions still unmatched" % (n, _safe(lambda: _ctx_view(g["context"])), g.get("actions"), g.get("rewards"))
        free.remove(hit)
    firsts = [list(g["actions"]) for g in got] if T in ("c", "m") else []
    if any(a != firsts[0] for a in firsts): return "actions:vary", "the interactions offer different action sequences %r" % firsts
    return None


def _safe(f):
    try: return f()
    except Exception as e: return "<%s>" % type(e).__name__


def _ctx_view(g):
    """What a consumer sees of a context: the mapping for sparse features, the sequence for dense ones."""
    if g is None or isinstance(g, (str, int, float, tuple, dict)): return g
    if hasattr(g, "items"): return dict(g.items())
    return list(g)


def read_and_compare(sim, want, T, k, abandon=False):
    try:
        if abandon:
            it = iter(sim.read())
            got = [g for g in [next(it, None)] if g is not None]
            if hasattr(it, "close"): it.close()      # the consumer walks away
            del it
        else:
            got = list(sim.read())
    except Exception as e:
        yield "%s:read:raises" % T, "reading the environment raised %s: %s" % (type(e).__name__, str(e)[:150]); return
    if len(got) != len(want):
        yield "%s:count" % T, "%d interactions, expected %d" % (len(got), len(want)); return
    first = [None]
    for n, (g, e) in enumerate(zip(got, want)):
        yield from check_interaction(n, g, e, T, k, first)


def check_interaction(n, g, e, T, k, first):
    exp, want, probes = e
    # ---- context = the example's features without the label ----
    try:
        seen = _ctx_view(g["context"])
    except Exception as ex:
        yield "%s:context:raises" % T, "interaction %d: reading the context raised %s: %s" % (n, type(ex).__name__, str(ex)[:120]); seen = exp
    if not (seen == exp and type(seen) is type(exp)):
        sig = "%s:context" % T
        if isinstance(seen, dict) and isinstance(exp, dict) and all(seen.get(a) == b for a, b in exp.items()) and len(seen) == len(exp) + 1:
            sig = "context:label-leak" + (":sparse-arff-by-index" if k["src"] == "arffS" and k["by"] == "index" else "")
        yield sig, "interaction %d: context %r, expected the features without the label %r" % (n, seen, exp)
    else:
        # the same features by position / by key, for contexts that are views rather than plain containers
        raw = g["context"]
        try:
            if isinstance(exp, list) and not isinstance(raw, list):
                byidx = [raw[j] for j in range(len(raw))]
                if byidx != exp: yield "%s:context:getitem" % T, "interaction %d: context read by position %r, expected %r" % (n, byidx, exp)
            elif isinstance(exp, dict) and not isinstance(raw, dict):
                bykey = {key: raw[key] for key in exp}
                if bykey != exp: yield "%s:context:getitem" % T, "interaction %d: context read by key %r, expected %r" % (n, bykey, exp)
        except Exception as ex:
            yield "%s:context:getitem" % T, "interaction %d: reading the context %r by position / key raised %s: %s" % (n, exp, type(ex).__name__, str(ex)[:100])
    # ---- one action set: the labels of the data ----
    if T in ("c", "m"):
        acts = g["actions"]
        try:
            acts = list(acts)
            ok = len(acts) == len(want) and all(any(a == w for a in acts) for w in want)
        except Exception:
            ok = False
        if not ok:
            yield "%s:actions" % T, "interaction %d: actions %r, expected exactly the labels %r" % (n, g["actions"], want)
        elif first is not None:
            if first[0] is None: first[0] = acts
            elif acts != first[0]:
                yield "%s:actions:vary" % T, "interaction %d offers %r but interaction 0 offers %r" % (n, acts, first[0])
    # ---- rewards ----
    rw = g["rewards"]
    offered = _safe(lambda: list(g["actions"])) if T in ("c", "m") else []
    if not isinstance(offered, list): offered = []
    # every probe is asked as the driver's own value and as the offered action object equal to it (what a learner hands back)
    asked = list(probes)
    try:
        asked += [(a, num, den) for pa, num, den in probes for a in offered if type(a) is type(pa) and a is not pa and a == pa]
    except Exception:
        pass
    for pa, num, den in asked:
        try:
            val = float(rw(pa))
        except Exception as ex:
            sig = "%s:reward:raises" % T
            if T == "m" and isinstance(ex, TypeError) and isinstance(pa, (int, float)): sig = "m:reward:unsized-label"
            yield sig, "interaction %d: rewards(%r) raised %s: %s (expected %d/%d)" % (n, pa, type(ex).__name__, str(ex)[:100], num, den); continue
        if abs(val - num / den) > 1e-9:
            sig = "%s:reward" % T
            if T == "m" and isinstance(pa, str) and len(pa) > 1: sig = "m:reward:multichar-label"
            yield sig, "interaction %d: rewards(%r) = %r, expected %d/%d (true label %s)" % (n, pa, val, num, den, rw)
