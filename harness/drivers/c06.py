"""C06 - SequentialCB feeds and records exactly what the environment provides: spec/Sequential.tla.

The real SequentialCB is run with a recording learner (every predict / score / learn call with its arguments,
its own answers chosen deterministically) on generated environments (dense / sparse / None contexts, changing
action sets, list and functional rewards, logged fields, an extra field, optionally batched) for every
combination learn x eval x record-subset x has-score x environment kind that needs no optional package.  Each
execution is a trace [predict / score / learn / row ... end | reject] that TLC validates against Sequential.tla:
calls in environment order with exactly that interaction's context and actions, learn fed the chosen action,
the environment's (or IPS-transformed, or logged) reward, the learner's own probability and kwargs, one row per
interaction with those same values and the extra field, and either rejection before any call or a complete run."""
import json, random, itertools
from .. import tlc, tracecheck

FINISH = dict(level="model_checking",
              rule="a case = one execution of the real SequentialCB (environment x learn x eval x record x has-score x batching) recorded as a call trace and validated by TLC; distinct = distinct traces")
NOVAL = -1


def S(x):
    """float -> integer scaled by 1000 (None -> NoVal)"""
    if x is None: return NOVAL
    v = round(float(x) * 1000)
    if abs(float(x) * 1000 - v) > 1e-6: raise ValueError("value %r is not on the 1/1000 grid" % x)
    return v


class Rec:
    """The recording learner: answers (action, probability, kwargs) chosen deterministically from the call count."""
    def __init__(self, ctx_id, log, has_score, fmt):
        self.ctx_id = ctx_id; self.log = log; self.n = 0; self.fmt = fmt
        if has_score: self.score = self._score
    @property
    def params(self): return {"family": "rec"}
    def _chk(self, context, actions):
        from coba.primitives import is_batch
        if is_batch(context) or is_batch(actions): raise TypeError("this learner does not take batches")
    def predict(self, context, actions):
        self._chk(context, actions)
        self.n += 1
        a = actions[(self.n * 7) % len(actions)]
        p = [0.5, 0.25, 1.0, 0.0][self.n % 4]      # 0.0: a learner may report probability zero for what it plays (falsy values must be recorded like any other)
        self.log.append(dict(e="predict", ctx=self.ctx_id(context), acts=[int(x) for x in (actions or [])], ra=int(a), rp=S(p) if self.fmt != "a" else NOVAL, rk=self.n if self.fmt == "apk" else NOVAL))
        if self.fmt == "pmf":        # a PMF that puts all mass on the chosen action, written with the ints 1 and 0
            self.log[-1].update(rp=1000, rk=NOVAL)
            return [1 if x is a or x == a else 0 for x in actions]
        if self.fmt == "pmfx":       # a PMF whose entries sum to 1 only within the accepted tolerance: the probability reported is the entry as stated
            self.log[-1].update(rp=1001, rk=NOVAL)
            return [1.001 if x is a or x == a else 0.0 for x in actions]
        if self.fmt == "a": return a
        if self.fmt == "ap": return a, p
        return a, p, {"k": self.n}
    def _score(self, context, actions, action):
        self._chk(context, actions)
        s = [0.25, 0.5, 1.0, 0.0][(self.n + int(action)) % 4]
        self.log.append(dict(e="score", ctx=self.ctx_id(context), acts=[int(x) for x in (actions or [])], a=int(action), rs=S(s)))
        return s
    def learn(self, context, action, reward, probability, **kw):
        self._chk(context, action)
        self.log.append(dict(e="learn", ctx=self.ctx_id(context), a=int(action), r=S(reward), p=S(probability), k=kw.get("k", NOVAL)))


def make_env(rng, kind, n, ctxkind, fn_rewards, extra, ksize=None):
    """-> (list of interaction dicts for coba, abstract env for the spec, ctx_id function)"""
    from coba.primitives import L1Reward
    its = []; abst = []; ksize_off = rng.randrange(5)
    for i in range(1, n + 1):
        if ctxkind == "dense": ctx = (i, 1.5)
        elif ctxkind == "sparse": ctx = {"f": i}
        elif ctxkind == "scalar": ctx = i
        else: ctx = None
        k = (ksize if isinstance(ksize, int) else None) or rng.choice([2, 3, 3, 4])
        acts = [10 * ((i + j) % 5) + j for j in range(k)]        # action sets change between interactions
        if ksize == "pool":  # directed: a few sets (with and without the ints 0 / 1) that come back after other sets: A,B,A / A,B,B,A / A,A
            acts = [[0, 1, 2], [2, 3, 4], [1, 5], [6, 7, 8], [0, 9]][rng.randrange(5)]
        if ksize == 2:      # directed: two actions, exactly one of them the int 0 or the int 1, in either position
            acts = [[0, 2], [1, 2], [3, 1], [2, 0], [5, 7]][(i + ksize_off) % 5]
        rw = [rng.choice([0, 0.4, 1.0]) for _ in acts]
        la = rng.choice(acts); lr = rng.choice([0, 0.4, 1.0]); lp = rng.choice([0.5, 0.25])
        it = {"context": ctx}
        ab = dict(ctx=(i if ctxkind != "none" else 0), acts=[], rwds=[], la=NOVAL, lr=NOVAL, lp=NOVAL, ex=NOVAL)
        if kind in ("sim", "both", "log"):
            it["actions"] = list(acts); ab["acts"] = list(acts)
        if kind in ("sim", "both"):
            it["rewards"] = (lambda a, acts=acts, rw=rw: rw[acts.index(a)]) if fn_rewards else list(rw)
            ab["rwds"] = [S(x) for x in rw]
        if kind in ("log", "both", "lognoact"):
            it["action"] = la; it["reward"] = lr; it["probability"] = lp
            ab["la"] = la; ab["lr"] = S(lr); ab["lp"] = S(lp)
        if extra:
            it["ex"] = 100 + i; ab["ex"] = 100 + i
        its.append(it); abst.append(ab)
    def ctx_id(c):
        if c is None: return 0
        if isinstance(c, dict): return int(c["f"])
        if isinstance(c, (tuple, list)): return int(c[0])
        return int(c)
    return its, abst, ctx_id


class ListEnv:
    def __init__(self, its, batch): self.its = its; self.batch = batch
    @property
    def params(self): return {}
    def read(self):
        from coba.environments import Batch
        its = [dict(i) for i in self.its]
        return Batch(self.batch).filter(its) if self.batch else iter(its)


def run(ctx):
    from coba.evaluators import SequentialCB
    from coba.exceptions import CobaException
    from coba.context import CobaContext, NullLogger
    CobaContext.logger = NullLogger()
    rng = random.Random(ctx.seed)
    recs = [[], ["reward"], ["reward", "action", "probability"], ["action"], ["probability", "context"], ["reward", "actions", "rewards"], ["time", "reward"], ["time"]]
    traces = []; meta = []
    combos = list(itertools.product(["on", "off", "ips", None], ["on", "ips", None], range(len(recs)), [False, True], ["sim", "log", "both", "lognoact"]))
    reps = ctx.pick(1, 4)
    # directed: two-action sets holding exactly one of the ints 0 / 1, answered with integer one-hot PMFs (and the other formats)
    directed = [("on", "on", 2, False, "sim"), ("on", "on", 2, True, "both"), ("ips", "on", 2, False, "both"), ("off", "on", 2, False, "both")]
    for (learn, ev, ri, hs, kind) in combos + directed * 6:
        for rep in range(reps):
            is_directed = (learn, ev, ri, hs, kind) in directed
            rec = recs[ri]
            mode = dict(learn=learn or "none", eval=ev or "none", rec=rec, hs=hs, hasActions=kind != "lognoact", hasRewards=kind in ("sim", "both"), hasLogged=kind != "sim")
            # keep to the property's domain: a prediction is only ever requested when the environment offers actions
            out_pred = (("action" in rec) or ("probability" in rec)) and ev
            if kind == "lognoact" and out_pred and not ((learn in ("on", "ips")) or ev == "on" or (ev == "ips" and not hs)): continue
            n = rng.choice([1, 3, 4]); ctxkind = rng.choice(["dense", "sparse", "scalar", "none"]); fn = rng.random() < .5; extra = rng.random() < .5
            batch = rng.choice([0, 0, 2, 3]); fmt = rng.choice(["a", "ap", "apk", "apk", "pmf", "pmfx"]); ksize = None
            if is_directed: n, batch, fmt, ksize = 10, 0, rng.choice(["pmf", "pmf", "ap"]), rng.choice([2, "pool"])
            elif rng.random() < .25: n, ksize = rng.choice([4, 8]), "pool"
            its, abst, ctx_id = make_env(rng, kind, n, ctxkind, fn, extra, ksize)
            log = []
            case = dict(learn=learn, eval=ev, record=rec, has_score=hs, kind=kind, n=n, context=ctxkind, fn_rewards=fn, extra=extra, batch=batch, fmt=fmt)
            ctx.case(json.dumps(case, sort_keys=True) + str(rep))
            if ctxkind == "none": batch = 0       # calls are attributed to interactions by their context
            if kind == "lognoact": batch = 0      # batches of interactions without an action set: not a meaningful input
            if "time" in rec: batch = 0           # timing columns are per call, not per interaction: out of scope when batched
            if batch and fmt in ("a", "pmf", "pmfx"): fmt = "ap"   # how bare-action answers of a per-row fallback are re-assembled is C15's subject
            case["batch"] = batch
            try:
                nrow = 0
                for r in SequentialCB(record=rec, learn=learn, eval=ev, seed=1).evaluate(ListEnv(its, batch), Rec(ctx_id, log, hs, fmt)):
                    nrow += 1        # rows are yielded lazily: in an unbatched run right after that interaction's calls
                    log.append(dict(e="row", n=nrow, reward=S(r["reward"]) if "reward" in r else NOVAL, action=int(r["action"]) if "action" in r else NOVAL,
                                    probability=S(r["probability"]) if "probability" in r else NOVAL, ex=r.get("ex", NOVAL)))
                evs = list(log)
                if batch:
                    # a batch is predicted, learned and recorded as a whole (P P P L L L R R R): regroup per interaction, keeping
                    # each interaction's own order and the order of interactions
                    key = lambda e: e["n"] if e["e"] == "row" else e["ctx"]
                    evs = sorted(evs, key=key)
                evs.append(dict(e="end"))
            except CobaException as e:
                if log:
                    ctx.violation("reject-after-calls", "rejected with '%s' but only after %d learner calls" % (str(e)[:80], len(log)), case); continue
                evs = [dict(e="reject")]
            except Exception as e:
                ctx.violation("raises:%s" % type(e).__name__, "SequentialCB raised %s: %s" % (type(e).__name__, str(e)[:120]), case); continue
            traces.append(dict(env=abst, mode=mode, ev=evs)); meta.append(case)
    ctx.sample(traces[len(traces) // 2], limit=2)
    rej = tracecheck.validate(ctx, "Sequential", "Sequential.cfg", traces, name="seq_trace", workers=16)
    for i, reason, pos in rej:
        evs = traces[i]["ev"]; at = evs[pos - 1] if pos and pos <= len(evs) else None
        m = meta[i]
        ctx.violation("trace-rejected:%s" % (at["e"] if at else "?"), "%s; first unexplained event #%s: %s   case=%s" % (reason, pos, at, json.dumps(m)), dict(m, trace=traces[i]))
    ctx.assumptions += ["dr / dm modes and ope_loss need vowpalwabbit and are not covered", "values lie on a 1/1000 grid so that rewards, probabilities and the IPS transform are exact integers in TLA+",
                        "the recording learner refuses batches, so batched environments exercise SafeLearner's per-row fallback (the batch protocol itself is C15)"]


