"""X13 - Result analysis beyond C18: spec/ResultMore.tla (EXTENDS ResultFin.tla).

ResultMore.tla DEFINES, over the abstract Result of ResultFin.tla (parameter columns with duplicated values, any
subset of the (environment, learner, evaluator) grid evaluated, ragged lengths, parameter rows without interactions,
integer rewards, exact rationals), what these calls return:
  raw_contrast(l1, l2, x, y, l, p, span)   per x the bag of (y1, y2) pairs of the two compared levels inside one pairing
                                           group, rows in ascending x, only complete pairs, the documented refusals;
  where_best / filter_best standing alone  one best learner per (p, l) cell, every choice among tied maxima accepted;
  filter_env / filter_lrn / filter_val / filter_int and Result.where with keyword conditions (=, in, !=, !in, <, <=, >,
                                           >=), callable keyword values, two keywords (OR) and row predicates; the other
                                           tables trimmed to what is still referenced; `experiment` kept;
  Result.copy(), `obj.experiment = x`, ==, a transaction log written to disk and read back by from_save / from_file /
  from_source (plain and .gz), Result.from_logged_envs (decision table), Table.to_dicts / __getitem__ / groupby / copy
  (decision table, on indexed tables and on views).
The Results live in a WORKSPACE: every call takes one object as its receiver and adds the Result it returns; after
EVERY call every object of the workspace is compared again with what the spec says it holds (so a call that changes
its receiver, a copy that shares state with its source, or state cached on an object between calls is seen), the
process-wide logger must be the one installed, and at the end the first call is repeated on its receiver.
TLC enumerates the Results and the call histories, checks the design facts (contrast antisymmetric, only complete
pairs; best-of: one maximal learner per cell, selection idempotent; independent filters commute; referential
consistency; copy independence) and must REJECT five deliberately broken variants.  Python converts and compares only."""
import json, math, os, random, zlib, hashlib, multiprocessing, concurrent.futures, collections.abc
from fractions import Fraction
from .. import tlc, tracecheck
from . import c18

FINISH = dict(level="model_checking",
              rule="a case = one TLC-generated history (a Result + calls on the objects of a workspace) replayed on real Result objects, one from_logged_envs input, or one Table with all its observations; distinct = distinct histories / inputs")

YSCALE = c18.YSCALE
ICOLS = c18.ICOLS
IDCOLS = ("environment_id", "learner_id", "evaluator_id")
WORKERS = 8
VARIANTS = (  # (variant, cfg substitutions, what TLC must report)
    ("copy_shared", {"XOps <- CallsX": "XOps <- ObjX", "MaxOps = 1": "MaxOps = 2", "LenMode = \"all\"": "LenMode = \"pat\"", "LenPats <- LP6": "LenPats <- LP3"}, "CopyIndep"),
    ("int_count_trim", {"XOps <- CallsX": "XOps <- OnlyFil"}, "RefConsist"),
    ("contrast_incomplete", {"XOps <- CallsX": "XOps <- DesignOnly"}, "ContrastDesign"),
    ("best_all_ties", {"XOps <- CallsX": "XOps <- DesignOnly"}, "BestDesign"),
    ("logged_pos_ids", {'XMode = "hist"': 'XMode = "logged"'}, "LgDesign"),
)
SCRATCH = None      # set in run(), inherited by the forked workers


def expdict(x):
    """abstract experiment value -> the dict a Result carries"""
    return {} if not x else {"description": "experiment %d" % x, "n_learners": x, "n_environments": x + 1, "seed": None, "tags": ["a", x]}


class Logger:
    """stands in for the user's process-wide logger: must still be installed after every call"""
    def __init__(self): self.lines = []
    def log(self, m): self.lines.append(str(m)); return self
    def time(self, m): self.lines.append(str(m)); return self
    def __enter__(self): return self
    def __exit__(self, *a): return False


class XCase(c18.Case):
    """The initial Result of a history (ResultFin's encoding), with an experiment dict, built three ways."""
    def __init__(self, h0, enc, route, rng, nm, tag):
        super().__init__({"args": h0["args"], "tmax": h0["new"][0]["tmax"]}, enc, route, rng, nm)
        self.exp = h0["new"][0]["exp"]; self.tag = tag

    def tables(self):
        E, L, V = self.ids
        rows = [[e, l, v, i, y] for (e, l, v, i), y in self.rows0.items()]
        self.rng.shuffle(rows)
        tabs = []
        for kind, ids in (("e", E), ("l", L), ("v", V)):
            ids = list(ids); self.rng.shuffle(ids)
            tabs.append([list(self.pcols[kind])] + [list(self.prow(kind, i)) for i in ids])
        return tabs, [list(ICOLS)] + rows

    def lines(self):
        from coba.results import TransactionEncode
        E, L, V = self.ids
        trx = [["T0", expdict(self.exp)]]
        for kind, tag, ids in (("e", "T1", E), ("l", "T2", L), ("v", "T3", V)):
            for i in ids: trx.append([tag, i, dict(zip(self.pcols[kind][1:], self.prow(kind, i)[1:]))])
        by = {}
        for (e, l, v, i), y in sorted(self.rows0.items()): by.setdefault((e, l, v), []).append({"reward": y})
        keys = list(by); self.rng.shuffle(keys)
        for k in keys: trx.append(["T4", k, by[k]])
        return list(TransactionEncode(None).filter(trx))

    def build(self):
        from coba.results import Result, TransactionResult, TransactionDecode
        if self.route == "ctor":
            tabs, ints = self.tables()
            return Result(tabs[0], tabs[1], tabs[2], ints, expdict(self.exp))
        if self.route == "log":
            return TransactionResult().filter(TransactionDecode().filter(self.lines()))
        return self.load(self.route)

    def load(self, how):
        """a transaction log on disk (as Experiment.run writes it: DiskSink, one line at a time), read back"""
        from coba.results import Result
        from coba.pipes import DiskSink, DiskSource
        path = os.path.join(SCRATCH, "log_%d_%s.%s" % (os.getpid(), self.tag, "log.gz" if how.endswith("gz") else "log"))
        if os.path.exists(path): os.remove(path)
        DiskSink(path, batch=1 if how.startswith("save") else None).write(self.lines())
        try:
            if how.startswith("save"): return Result.from_save(path)
            if how.startswith("file"): return Result.from_file(path)
            return Result.from_source(DiskSource(path))
        finally:
            os.remove(path)


def rows3(res):
    """the interaction rows read three ways (column list, to_dicts, row iteration) - they must agree"""
    t = res.interactions
    a = c18.got_rows(res)
    if len(t) != len(a): return a, "len(interactions) = %d but %d rows are listed" % (len(t), len(a))
    b = sorted(tuple(d[c] for c in ICOLS) for d in t.to_dicts())
    if a != b: return a, "interactions[[columns]] and interactions.to_dicts() disagree: %r / %r" % (a[:6], b[:6])
    pos = [t.columns.index(c) for c in ICOLS]
    c = sorted(tuple(r[p] for p in pos) for r in t)
    if a != c: return a, "interactions[[columns]] and iter(interactions) disagree: %r / %r" % (a[:6], c[:6])
    return a, None


def check_obj(case, res, exp, expx, what):
    """one object of the workspace against what the spec says it holds; returns [] or [(signature, text, soft)]"""
    out = []
    got, bad = rows3(res)
    if bad: return [("table:read-ways", "%s: %s" % (what, bad), False)]
    want = case.exp_rows(exp["ev"])
    if got != want:
        return [("rows", "%s holds rows %r, expected %r" % (what, [r[:4] for r in got][:12], [r[:4] for r in want][:12]), False)]
    bad = c18.check_tables(case, res, exp)
    if bad: return [(bad[0], "%s: %s" % (what, bad[1]), False)]
    if res.experiment != expdict(expx):
        out.append(("experiment", "%s: .experiment is %r, expected %r" % (what, res.experiment, expdict(expx)), True))
    return out


def sat(op, vals):
    vals = list(vals)
    return {"eq": lambda v: v == vals[0], "in": lambda v: v in vals, "ne": lambda v: v != vals[0], "nin": lambda v: v not in vals,
            "le": lambda v: v <= vals[0], "lt": lambda v: v < vals[0], "ge": lambda v: v >= vals[0], "gt": lambda v: v > vals[0]}[op]


def atom_value(case, col, a):
    if col == "reward": return float(a * YSCALE)
    if case.enc == "mixed" and col not in IDCOLS + ("index", "full_name") and a not in (0, 1, 2, 3): return "absent%d" % a       # a value no row carries
    return case.colval(col, a)


def kwform(case, atom, alt):
    """a keyword condition of the spec as the call takes it"""
    kind, col, op, vals = atom
    vs = [atom_value(case, col, a) for a in vals]
    if kind == "call": return sat(op, vs)
    if op == "eq": return {"=": vs[0]} if alt or isinstance(vs[0], tuple) else vs[0]       # a tuple given bare is documented to mean `in`
    if op == "in": return {"in": vs} if alt else vs
    return {{"ne": "!=", "nin": "!in", "le": "<=", "lt": "<", "ge": ">=", "gt": ">"}[op]: vs if op == "nin" else vs[0]}


def rowpred(table, name, test):
    """a row predicate.  Result.filter_*'s docstrings call the rows dictionaries, Table.where hands tuples: it reads both."""
    cols = list(table.columns)
    def pred(row):
        return test(row[name] if isinstance(row, collections.abc.Mapping) else row[cols.index(name)])
    return pred


FILTERS = {1: ("filter_env", "environments"), 2: ("filter_lrn", "learners"), 3: ("filter_val", "evaluators")}
KIND = {"environment_id": 1, "ea": 1, "eb": 1, "learner_id": 2, "la": 2, "lb": 2, "evaluator_id": 3, "va": 3}


def call_filter(case, recv, atoms, target, variant):
    """-> (description, Result)"""
    meth, tab = target
    if atoms[0][0] == "pred":
        kind, col, op, vals = atoms[0]
        name = case.name(col)
        p = rowpred(getattr(recv, tab), name, sat(op, [atom_value(case, col, a) for a in vals]))
        return "%s(lambda row: row[%r] %s %r)" % (meth, name, op, [atom_value(case, col, a) for a in vals]), getattr(recv, meth)(p)
    kw = {case.name(a[1]): kwform(case, a, variant & 1) for a in atoms}
    shown = {k: ("<callable>" if callable(v) else v) for k, v in kw.items()}
    if variant & 2: return "where(**%r)" % (shown,), recv.where(**kw)
    return "%s(**%r)" % (meth, shown), getattr(recv, meth)(**kw)


def level_value(case, lc, lev, aslist):
    vs = tuple(case.colval(c, a) for c, a in zip(lc, lev))
    return vs if len(lc) > 1 or aslist else vs[0]


def check_contrast(case, table, step, x_is_tuple, l_arg):
    A, B, x, lc, pc, span = step["args"]
    out = step["out"]
    def xval(u):
        if x == ["index"]: return u[0]
        vs = tuple(case.colval(c, a) for c, a in zip(x, u))
        return vs if x_is_tuple else vs[0]
    labs = [xval(r["lab"][0]) if not r["lab"][1] else "%s-%s" % (xval(r["lab"][0]), xval(r["lab"][1])) for r in out["rows"]]
    if tuple(table.columns[:1]) != ("x",) or len(table.columns) != 2 or not isinstance(table.columns[1], tuple) or len(table.columns[1]) != 2:
        return "contrast:columns", "columns %r" % (table.columns,)
    h1, h2 = table.columns[1]
    if l_arg == "learner_id":
        i1, i2 = sorted(a[0] for a in A)[0], sorted(b[0] for b in B)[0]
        if len(A) == 1 and len(B) == 1 and not (str(h1).startswith("%d. " % i1) and str(h2).startswith("%d. " % i2)):
            return "contrast:columns", "heading %r for learners %r / %r" % ((h1, h2), i1, i2)
    elif (h1, h2) != ("l1", "l2"): return "contrast:columns", "heading %r" % ((h1, h2),)
    gx = list(table["x"])
    if gx != labs: return "contrast:x", "x column %r, expected %r (ascending)" % (gx, labs)
    wtl = [0, 0, 0]
    for lab, row, got in zip(labs, out["rows"], table[table.columns[1]]):
        got = sorted((float(a), float(b)) for a, b in got)
        want = sorted((Fraction(p[2][0], p[2][1]) * YSCALE, Fraction(p[3][0], p[3][1]) * YSCALE) for p in row["pairs"])
        if len(got) != len(want) or any(abs(g[k] - float(w[k])) > 1e-9 * (1 + abs(float(w[k]))) for g, w in zip(got, want) for k in (0, 1)):
            return "contrast:pairs", "at x=%r pairs %r, expected %r" % (lab, got, [(float(a), float(b)) for a, b in want])
        gd = sorted(b - a for a, b in got); wd = sorted(Fraction(p[4][0], p[4][1]) * YSCALE for p in row["pairs"])
        if any(abs(g - float(w)) > 1e-9 * (1 + abs(float(w))) for g, w in zip(gd, wd)): return "contrast:diff", "at x=%r differences %r, expected %r" % (lab, gd, [float(w) for w in wd])
        for a, b in got:
            d = b - a
            wtl[0 if d > 1e-9 else 2 if d < -1e-9 else 1] += 1
    if wtl != list(out["wtl"]): return "contrast:win-tie-loss", "win/tie/loss %r, expected %r" % (wtl, out["wtl"])
    return None


def replay(h, enc, route, variant, seed, nm=None, tag="r"):
    """Replays one history.  Returns a list of (signature, what); a hard mismatch ends the history."""
    from coba.exceptions import CobaException
    from coba.context import CobaContext
    from coba.results import Result
    rng = random.Random(seed)
    found = []
    def note(sig, what):
        if sig not in [f[0] for f in found]: found.append((sig, what))
    case = XCase(h[0], enc, route, rng, nm, tag)
    mylog = Logger(); CobaContext.logger = mylog
    aslist = bool(variant & 1)
    colarg = case.cols
    try:
        objs = [case.build()]
    except Exception as ex:
        return [("new:raises:" + type(ex).__name__, "building the Result (%s) raised %s: %s" % (route, type(ex).__name__, str(ex)[:160]))]
    exps = [h[0]["new"][0]]
    def check_all(k, call, exv):
        for i, (o, e) in enumerate(zip(objs, exps)):
            for sig, what, soft in check_obj(case, o, e, exv[i], "object %d after step %d %s" % (i + 1, k, call)):
                if soft and sig == "experiment":
                    made = e.get("by", "")
                    note("experiment-dropped" if o.experiment == {} and made in ("fpar", "fint", "best") else "experiment", what + " (object made by %s)" % (made or "the constructor"))
                    o.experiment = expdict(exv[i])           # repaired so that the rest of the history is still compared
                else:
                    newest = i == len(objs) - 1 and e.get("step") == k
                    note(("%s:%s" % (e.get("by", "new"), sig)) if newest else "mutates:%s" % sig, what); return False
        if CobaContext.logger is not mylog:
            note("logger-not-restored", "after step %d %s CobaContext.logger is %r, not the logger that was installed" % (k, call, type(CobaContext.logger).__name__))
            CobaContext.logger = mylog
        return True
    if not check_all(0, "(construction via %s)" % route, h[0]["exps"]): return found
    first = None
    for k, step in enumerate(h[1:], 1):
        op, args, s = step["op"], step["args"], step["recv"] - 1
        recv = objs[s] if 0 <= s < len(objs) else None
        call = op; new = None
        try:
            if op == "copy":
                new = recv.copy(); call = "copy()"
                if new is recv or any(getattr(new, t) is getattr(recv, t) for t in ("environments", "learners", "evaluators", "interactions")):
                    note("copy:same-object", "copy() returned the receiver or one of its tables"); return found
            elif op == "setexp":
                recv.experiment = expdict(args[0]); call = "object %d .experiment = %r" % (s + 1, expdict(args[0]))
            elif op == "load":
                how = ("save", "file", "source", "savegz", "filegz", "sourcegz")[(variant + k) % 6]
                call = "a log of object 1 written with DiskSink and read by %s" % how
                new = XCase(h[0], enc, route, rng, nm, tag).load(how)
            elif op == "fpar":
                call, new = call_filter(case, recv, args, FILTERS[KIND[args[0][1]]], variant)
            elif op == "fint":
                call, new = call_filter(case, recv, [args], ("filter_int", "interactions"), variant)
                want = sorted((e, l, v, i, case.rows0[(e, l, v, i)]) for e, l, v, i in step["out"]["rows"])
                got, bad = rows3(new)
                if bad: note("fint:table:read-ways", bad); return found
                if got != want:
                    note("fint:rows", "step %d %s on object %d keeps rows %r, expected %r" % (k, call, s + 1, [r[:4] for r in got], [r[:4] for r in want])); return found
                bad = c18.check_tables(case, new, step["out"])
                if bad: note("fint:" + bad[0], "step %d %s on object %d: %s" % (k, call, s + 1, bad[1])); return found
                if new.experiment != expdict(step["out"]["exp"]):
                    note("experiment-dropped" if new.experiment == {} else "experiment", "step %d %s: .experiment is %r, expected %r" % (k, call, new.experiment, expdict(step["out"]["exp"])))
                    new.experiment = expdict(step["out"]["exp"])
                if not step["new"]: new = None
            elif op == "best":
                lc, pc, nb = args
                f = recv.filter_best if variant & 2 and pc else recv.where_best
                if pc:
                    call = "where_best(l=%r, p=%r, n=%r)" % (colarg(lc, aslist), colarg(pc, aslist), nb or None)
                    new = f(colarg(lc, aslist), colarg(pc, aslist), "reward", nb or None)
                else:
                    call = "where_best(l=%r, n=%r)" % (colarg(lc, aslist), nb or None)
                    new = recv.where_best(l=colarg(lc, aslist), n=nb or None)
                got = c18.got_rows(new)
                if got != case.exp_rows(step["new"][0]["ev"]):
                    if any(got == case.exp_rows(a) for a in step["out"]["alts"]): return found      # another accepted choice among tied learners: its sibling history continues
                    note("best:rows", "step %d %s on object %d keeps evaluations %r, accepted results %r" % (k, call, s + 1, sorted({r[:3] for r in got}), [sorted(tuple(e[:3]) for e in a) for a in step["out"]["alts"]]))
                    return found
            elif op == "contrast":
                A, B, x, lc, pc, span = args
                bad_col = any(c not in KIND for c in lc)
                l_arg = lc[0] if bad_col else colarg(lc, aslist)
                l_multi = isinstance(l_arg, list)
                def lev(S):
                    vs = [(tuple(case.colval(c, a) for c, a in zip(lc, L)) if l_multi else case.colval(lc[0], L[0])) if not bad_col else L[0] for L in sorted(S)]
                    return vs[0] if len(vs) == 1 and not (variant & 2) else vs
                x_arg = "index" if x == ["index"] else colarg(x, aslist)
                p_arg = colarg(pc, aslist)
                call = "raw_contrast(%r, %r, x=%r, y='reward', l=%r, p=%r, span=%r)" % (lev(A), lev(B), x_arg, l_arg, p_arg, span or None)
                try:
                    tab = recv.raw_contrast(lev(A), lev(B), x_arg, "reward", l_arg, p_arg, span or None)
                except CobaException as ex:
                    if step["out"]["kind"] != "raise":
                        note("contrast:refused", "step %d %s on object %d raised CobaException(%s) although complete pairs exist" % (k, call, s + 1, str(ex)[:100])); return found
                else:
                    if step["out"]["kind"] == "raise":
                        note("contrast:not-refused", "step %d %s on object %d returned %r; a CobaException is documented" % (k, call, s + 1, list(tab))); return found
                    bad = check_contrast(case, tab, step, isinstance(x_arg, list), l_arg)
                    if bad: note(bad[0], "step %d %s on object %d: %s" % (k, call, s + 1, bad[1])); return found
            elif op == "eq":
                a, b = objs[s], objs[args[0] - 1]
                call = "object %d == object %d" % (s + 1, args[0])
                g1, g2 = (a == b), (b == a)
                if g1 != g2: note("eq:asymmetric", "%s is %r, the reverse %r" % (call, g1, g2))
                elif g1 != step["out"]["val"]:
                    ea, eb = exps[s], exps[args[0] - 1]
                    if step["out"]["val"]: sig = "eq:equal-tables-compare-unequal"
                    elif ea["tmax"] == eb["tmax"]: sig = "eq:interactions-ignored"
                    else: sig = "eq:unequal-compare-equal"
                    note(sig, "%s is %r although the spec says %r: evaluations %r / %r, parameter ids %r / %r" % (call, g1, step["out"]["val"], ea["ev"], eb["ev"], ea["tmax"], eb["tmax"]))
                if not (a == a): note("eq:irreflexive", "object %d != itself" % (s + 1))
        except Exception as ex:
            sig = "%s:raises:%s" % (op, type(ex).__name__)
            if op == "contrast" and isinstance(ex, KeyError) and args[3] == ["learner_id"]:
                have = set(recv.learners["learner_id"])
                if any(sorted(S)[0][0] not in have for S in (args[0], args[1])): sig = "contrast:first-level-absent:KeyError"
            note(sig, "step %d %s on object %d raised %s: %s" % (k, call, s + 1, type(ex).__name__, str(ex)[:200]))
            if CobaContext.logger is not mylog:
                note("logger-not-restored", "after step %d %s raised, CobaContext.logger is %r, not the logger that was installed" % (k, call, type(CobaContext.logger).__name__))
            return found
        if new is not None:
            if not step["new"]: raise RuntimeError("driver: a Result without an expectation")
            objs.append(new); exps.append(dict(step["new"][0], by=op, step=k))
        if not isinstance(objs[-1], Result): note("%s:type" % op, "step %d %s returned %r" % (k, call, type(objs[-1]).__name__)); return found
        if not check_all(k, call, step["exps"]): return found
        if first is None and op in ("fpar", "fint", "best", "contrast"): first = (k, step)
    # the first call again, on the same receiver (nothing may have been cached on it by the calls in between)
    if first is not None and len(h) > 2:
        k, step = first
        sub = replay_again(case, objs, exps, step, variant, aslist)
        if sub: note("again:" + sub[0], "step %d repeated after the history: %s" % (k, sub[1]))
    return found


def replay_again(case, objs, exps, step, variant, aslist):
    from coba.exceptions import CobaException
    op, args, s = step["op"], step["args"], step["recv"] - 1
    recv = objs[s]
    try:
        if op == "fpar": _, new = call_filter(case, recv, args, FILTERS[KIND[args[0][1]]], variant)
        elif op == "fint":
            _, new = call_filter(case, recv, [args], ("filter_int", "interactions"), variant)
            want = sorted((e, l, v, i, case.rows0[(e, l, v, i)]) for e, l, v, i in step["out"]["rows"])
            return None if c18.got_rows(new) == want else ("fint:rows", "rows %r" % ([r[:4] for r in c18.got_rows(new)],))
        elif op == "best":
            lc, pc, nb = args
            new = recv.where_best(case.cols(lc, aslist), case.cols(pc, aslist) if pc else None, "reward", nb or None)
            got = c18.got_rows(new)
            return None if any(got == case.exp_rows(a) for a in step["out"]["alts"]) else ("best:rows", "evaluations %r" % (sorted({r[:3] for r in got}),))
        else:
            return None
    except Exception as ex:
        return ("%s:raises:%s" % (op, type(ex).__name__), str(ex)[:160])
    if not step["new"]: return None
    got = c18.got_rows(new)
    return None if got == case.exp_rows(step["new"][0]["ev"]) else ("%s:rows" % op, "rows %r" % ([r[:4] for r in got],))


# ------------------------------------------------------------------------------------------ from_logged_envs
class LoggedEnv:
    def __init__(self, params, rows, how): self._params = params; self._rows = rows; self._how = how; self.reads = 0
    @property
    def params(self): return dict(self._params)
    def read(self):
        self.reads += 1
        rows = [dict(r) for r in self._rows]
        return iter(rows) if self._how else rows


def logged_case(j, variant):
    from coba.results import Result
    from coba.results.core import Missing
    lgin, out = j["lg"], j["out"]
    unhash = bool(variant & 1)            # list-valued parameters: the rows cannot be hashed (the fall-back path of determine_id)
    def envp(e): return {"src": [e, "s"] if unhash else e, "kind": "synthetic"}
    def lrnp(l): return {"family": "L%d" % l, "alpha": [l] if variant & 2 else l / 4}
    def valp(v): return {"eval": v, "mode": "off"}
    envs = []
    for pos, d in enumerate(lgin["envs"], 1):
        p = dict(envp(d["e"])); p["learner"] = lrnp(d["l"])
        if d["v"]: p["evaluator"] = valp(d["v"])
        if d["logged"]: p["logged"] = True
        elif variant & 4: p["logged"] = False
        rows = [{"context": (pos, i), "actions": [0, 1, 2], "action": i % 3, "reward": float(c18_y(pos, i) * YSCALE), "probability": 0.25 * (1 + i % 2)} for i in range(1, d["len"] + 1)]
        envs.append(LoggedEnv(p, rows, variant & 8))
    what = "from_logged_envs(%r, include_prob=%r)" % ([(e._params, len(e._rows)) for e in envs], lgin["prob"])
    prev = None
    for rep in (1, 2):
        try:
            res = Result.from_logged_envs(list(envs) if rep == 1 else iter(envs), lgin["prob"]) if lgin["prob"] or rep == 2 else Result.from_logged_envs(envs)
        except Exception as ex:
            return ("logged:raises:" + type(ex).__name__, "%s raised %s: %s" % (what, type(ex).__name__, str(ex)[:160]))
        for name, tab, idc, want, mk in (("environments", res.environments, "environment_id", out["envs"], envp), ("learners", res.learners, "learner_id", out["lrns"], lrnp),
                                         ("evaluators", res.evaluators, "evaluator_id", out["vals"], lambda v: valp(v) if v else {"eval_type": "unknown"})):
            got = sorted(({k: v for k, v in d.items() if v is not Missing} for d in tab.to_dicts()), key=lambda d: d[idc])
            exp = sorted((dict(mk(p), **{idc: i}, **({"logged": True} if idc == "environment_id" else {})) for i, p in want), key=lambda d: d[idc])
            if got != exp: return ("logged:%s" % name, "%s (call %d): %s table %r, expected %r" % (what, rep, name, got, exp))
        cols = set(res.interactions.columns)
        wantcols = set(ICOLS) | (({"action"} | ({"probability"} if lgin["prob"] else set())) if out["rows"] else set())
        if cols != wantcols: return ("logged:columns", "%s: interaction columns %r, expected %r" % (what, sorted(cols), sorted(wantcols)))
        got, bad = rows3(res)
        if bad: return ("logged:read-ways", bad)
        exp = sorted((e, l, v, i, float(y * YSCALE)) for e, l, v, i, y in out["rows"])
        if got != exp: return ("logged:rows", "%s (call %d): rows %r, expected %r" % (what, rep, got, exp))
        if res.experiment != {}: return ("logged:experiment", "experiment %r" % (res.experiment,))
        if prev is not None and prev != got: return ("logged:second-call", "the second call returned other rows")
        prev = got
    return None


def c18_y(pos, i):
    """ResultFin!Yv(<<pos,1,1>>, i, 0) - the reward pattern the spec names for logged interactions (input side, not an expectation)"""
    return (pos * 37 + 11 + 5 + i * i * 3) % 13


# ------------------------------------------------------------------------------------------ Table
def table_case(j, variant):
    from coba.results import Table
    t, out = j["tb"], j["out"]
    cols = ["a", "b", "c"]
    rows = [list(r) for r in t["rows"]]
    def make():
        tab = Table(columns=cols)
        if rows:
            if variant % 3 == 0: tab.insert(rows)
            elif variant % 3 == 1: tab.insert({c: [r[k] for r in rows] for k, c in enumerate(cols)})
            else: tab.insert([dict(zip(cols, r)) for r in rows])
        if t["nidx"]: tab.index(*cols[:t["nidx"]])
        return tab
    base = make()
    what = "Table(columns=['a','b','c']).insert(%r).index(%s)" % (rows, ",".join(cols[:t["nidx"]]))
    tab = base
    if t["w"]:
        tab = base.where(**{t["w"][0]: list(t["w"][1])}); what += ".where(%s=%r)" % (t["w"][0], list(t["w"][1]))
    want = [tuple(r) for r in out["rows"]]
    def observe(tb, tag):
        if len(tb) != len(want): return ("table:len", "%s %s: len %d, expected %d" % (what, tag, len(tb), len(want)))
        if list(tb) != want: return ("table:rows", "%s %s: rows %r, expected %r" % (what, tag, list(tb), want))
        if tuple(tb.columns) != tuple(cols): return ("table:columns", "%s %s: columns %r" % (what, tag, tb.columns))
        if tuple(tb.indexes) != tuple(cols[:t["nidx"]]): return ("table:indexes", "%s %s: indexes %r" % (what, tag, tb.indexes))
        gd = list(tb.to_dicts())
        if gd != [dict(zip(cols, r)) for r in out["rows"]]: return ("table:to_dicts", "%s %s: to_dicts %r" % (what, tag, gd))
        for c in cols:
            if list(tb[c]) != list(out[c]): return ("table:getitem:str", "%s %s: [%r] = %r, expected %r" % (what, tag, c, list(tb[c]), out[c]))
        for sel in (["a", "c"], ["c"], ["b", "a", "c"], []):
            if [list(x) for x in tb[sel]] != [list(out[c]) for c in sel]: return ("table:getitem:list", "%s %s: [%r] = %r" % (what, tag, sel, [list(x) for x in tb[sel]]))
        for sl in (slice(0, 2), slice(1, None), slice(None), slice(2, 3), slice(None, -1)):
            if [list(x) for x in tb[sl]] != [list(out[c]) for c in cols[sl]]: return ("table:getitem:slice", "%s %s: [%r] = %r" % (what, tag, sl, [list(x) for x in tb[sl]]))
        for badkey in ("z", 0, ["a", "z"]):
            try: tb[badkey]
            except KeyError: pass
            except Exception as ex: return ("table:getitem:bad-key", "%s %s: [%r] raised %s, KeyError is documented" % (what, tag, badkey, type(ex).__name__))
            else: return ("table:getitem:bad-key", "%s %s: [%r] did not raise" % (what, tag, badkey))
        for lv, groups in enumerate(out["groups"]):
            if lv == 0 and not want: continue                 # groupby(0) of an empty table: outside the domain
            keys = [tuple(g["key"]) for g in groups]
            got = list(tb.groupby(lv))
            if got != keys: return ("table:groupby:none", "%s %s: groupby(%d) = %r, expected %r" % (what, tag, lv, got, keys))
            got = list(tb.groupby(lv, "count"))
            if got != [(k, g["count"]) for k, g in zip(keys, groups)]: return ("table:groupby:count", "%s %s: groupby(%d,'count') = %r" % (what, tag, lv, got))
            got = [(k, list(v)) for k, v in tb.groupby(lv, "c")]
            if got != [(k, list(g["c"])) for k, g in zip(keys, groups)]: return ("table:groupby:column", "%s %s: groupby(%d,'c') = %r, expected %r" % (what, tag, lv, got, [(k, g["c"]) for k, g in zip(keys, groups)]))
            got = [(k, [list(x) for x in v]) for k, v in tb.groupby(lv, ["b", "c"])]
            if got != [(k, [list(x) for x in g["bc"]]) for k, g in zip(keys, groups)]: return ("table:groupby:columns", "%s %s: groupby(%d,['b','c']) = %r" % (what, tag, lv, got))
        return None
    try:
        bad = observe(tab, "") or observe(tab, "(observed again)")
        if bad: return bad
        cp = tab.copy()
        if cp is tab: return ("table:copy", "copy() returned the table itself")
        bad = observe(cp, "copy") or observe(tab, "(after its copy was read)")
        if bad: return bad
        if not (cp == tab and tab == cp): return ("table:eq:copy", "%s: a copy does not compare equal" % what)
        same = Table(columns=cols)
        if want: same.insert([list(r) for r in want])
        if not (tab == same) or not (same == tab):
            return ("eq:equal-tables-compare-unequal" if t["w"] else "table:eq", "%s does not compare equal to Table(columns=['a','b','c']).insert(%r), which holds the same rows" % (what, want))
        other = Table(columns=cols).insert([list(r) for r in want] + [[7, 7, 7]])
        if tab == other: return ("table:eq", "%s compares equal to a table with one more row" % what)
        if t["w"]:
            bad = observe(base.where(**{t["w"][0]: list(t["w"][1])}), "(the same where again)")
            if bad: return bad
    except Exception as ex:
        return ("table:raises:" + type(ex).__name__, "%s: %s: %s" % (what, type(ex).__name__, str(ex)[:160]))
    return None


# ------------------------------------------------------------------------------------------ plan / run
NAMINGS = [None]


def _job(job):
    key, h, quick, seed, force_route = job
    hk = zlib.crc32(key.encode())
    has = {s["op"] for s in h[1:]}
    encs = ("int", "str") if "contrast" in has else (("int", "str"), ("int", "mixed"), ("str", "mixed"))[hk % 3]
    if quick: encs = (encs[hk // 3 % 2],)
    out = []
    for i, enc in enumerate(encs):
        route = force_route or ("ctor", "log", "ctor", "save", "log", "sourcegz", "ctor", "file")[(hk // 2 + i) % 8]
        variant = (hk // 16 + i) % 4
        nm = NAMINGS[(hk // 64 + 3 * i) % len(NAMINGS)]
        bad = replay(h, enc, route, variant, seed * 1000003 + hk, nm, "%08x" % hk)
        if bad: out.append((bad, enc, route, variant, nm))
        if bad and any(not f[0].startswith(("experiment-dropped", "eq:", "logger-not-restored")) for f in bad): break
    return out


def _tjob(job):
    fld, j, quick = job
    fn, nv = (table_case, 3) if fld == "tb" else (logged_case, 16)
    hk = zlib.crc32(json.dumps(j[fld], sort_keys=True).encode())
    vs = (hk % nv, (hk // nv + 1 + hk % nv) % nv) if quick else (range(nv) if fld == "tb" else [(hk + 5 * i) % nv for i in range(6)])
    for v in vs:
        bad = fn(j, v)
        if bad: return bad
    return None


def plan(ctx):
    """(name, cfg substitutions, simulate, minimum number of cases)"""
    PAT = {'LenMode = "all"': 'LenMode = "pat"'}
    def sets(size):
        return {"EnvConds <- EnvFew": "EnvConds <- Env" + size, "LrnConds <- LrnFew": "LrnConds <- Lrn" + size, "ValConds <- ValFew": "ValConds <- Val" + ("All" if size == "All" else "Few"),
                "IntConds <- IntFew": "IntConds <- Int" + size, "CtrArgs <- CtrFew": "CtrArgs <- Ctr" + size, "BestXArgs <- BestFew": "BestXArgs <- Best" + size}
    MID, WIDE = sets("Mid"), sets("All")
    DESIGN = {"XOps <- CallsX": "XOps <- DesignOnly"}
    QD = {"CtrArgs <- CtrFew": "CtrArgs <- CtrMid", "BestXArgs <- BestFew": "BestXArgs <- BestMid"}       # quick design runs: few filter conditions, mid contrast / best arguments
    CB = {"XOps <- CallsX": "XOps <- CtrBest"}
    G222 = {"Dims <- D221": "Dims <- D222", "TabFull <- Bools": "TabFull <- OnlyF"}
    G331 = {"Dims <- D221": "Dims <- D331", "TabFull <- Bools": "TabFull <- OnlyF", "MaxLen = 2": "MaxLen = 3", "Pars <- P2": "Pars <- P4"}
    OBJ = {"XOps <- CallsX": "XOps <- ObjX", "EnvConds <- EnvFew": "EnvConds <- Env2", "LrnConds <- LrnFew": "LrnConds <- Lrn2", "ValConds <- ValFew": "ValConds <- Val1",
           "IntConds <- IntFew": "IntConds <- Int2"}
    def S(*ds):
        out = {}
        for d in ds: out.update(d)
        return out
    if ctx.quick:
        return [
            ("table", {'XMode = "hist"': 'XMode = "table"'}, None, 2000),
            ("logged", {'XMode = "hist"': 'XMode = "logged"'}, None, 2000),
            # the design facts on every Result of the 2x2x1 grid and on patterned 2x2x2 / 3x3x1 Results
            ("design-g221", S(QD, DESIGN), None, 0),
            ("design-g222", S(QD, DESIGN, PAT, G222, {"LenPats <- LP6": "LenPats <- LP3", "MaxMissing = 9": "MaxMissing = 2"}), None, 0),
            ("design-g331", S(QD, DESIGN, PAT, G331, {"LenPats <- LP6": "LenPats <- LP3", "MaxMissing = 9": "MaxMissing = 1", "Pars <- P4": "Pars <- P2"}), None, 0),
            # every Result of the 2x2x1 grid (lengths 1..2, parameter tables exact or with unreferenced rows): every single call
            ("g221-calls", S(MID), None, 10000),
            # two evaluators / three learners and environments: contrast and best-of where pairing groups and levels differ
            ("g222-calls", S(MID, CB, PAT, G222, {"LenPats <- LP6": "LenPats <- LP3", "MaxMissing = 9": "MaxMissing = 1"}), None, 1500),
            ("g331-calls", S(MID, CB, PAT, G331, {"LenPats <- LP6": "LenPats <- LP3", "MaxMissing = 9": "MaxMissing = 1", "Pars <- P4": "Pars <- P2"}), None, 2000),
            # the workspace: copies, re-binding of experiment, a log read back, ==, filters; any object may be the receiver
            ("g221-objects", S(PAT, OBJ, {"MaxOps = 1": "MaxOps = 2", "LenPats <- LP6": "LenPats <- LP3", "MaxMissing = 9": "MaxMissing = 2", "Pars <- P2": "Pars <- P1", "InitExps <- Exp1": "InitExps <- Exp01"}), None, 5000),
            # chains of every call on the larger grids
            ("chains-sim", S(PAT, MID, {"Dims <- D221": "Dims <- DAll", "MaxOps = 1": "MaxOps = 4", "MaxLen = 2": "MaxLen = 3", "Pars <- P2": "Pars <- P4",
                                        "MaxMissing = 9": "MaxMissing = 3", "XOps <- CallsX": "XOps <- AllX", "InitExps <- Exp1": "InitExps <- Exp01"}), dict(num=2), 500),
        ]
    return [
        ("table", {'XMode = "hist"': 'XMode = "table"', "TbMax = 3": "TbMax = 4", "TbWheres <- TWFew": "TbWheres <- TWAll"}, None, 20000),
        ("table3", {'XMode = "hist"': 'XMode = "table"', "TbVals <- TV2": "TbVals <- TV3", "TbIdx <- TI": "TbIdx <- TI13", "TbWheres <- TWFew": "TbWheres <- TW3"}, None, 20000),
        ("logged", {'XMode = "hist"': 'XMode = "logged"', "LgV <- V01": "LgV <- V012", "LgLens <- Len02": "LgLens <- Len012"}, None, 20000),
        ("design-g221", S(WIDE, DESIGN, {"Pars <- P2": "Pars <- P4"}), None, 0),
        ("design-g222", S(WIDE, DESIGN, PAT, G222, {"MaxMissing = 9": "MaxMissing = 3"}), None, 0),
        ("design-g321", S(WIDE, DESIGN, PAT, {"Dims <- D221": "Dims <- D321", "TabFull <- Bools": "TabFull <- OnlyF", "MaxMissing = 9": "MaxMissing = 2", "MaxLen = 2": "MaxLen = 3"}), None, 0),
        ("design-g331", S(WIDE, DESIGN, PAT, G331, {"MaxMissing = 9": "MaxMissing = 2", "LenPats <- LP6": "LenPats <- LP3"}), None, 0),
        ("design-g232", S(WIDE, DESIGN, PAT, G331, {"Dims <- D331": "Dims <- D232", "MaxMissing = 9": "MaxMissing = 2", "LenPats <- LP6": "LenPats <- LP3", "Pars <- P4": "Pars <- P2"}), None, 0),
        ("g221-calls", S(WIDE, {"Pars <- P2": "Pars <- P4"}), None, 100000),
        ("g221-len3", S(WIDE, PAT, {"MaxLen = 2": "MaxLen = 3", "TabFull <- Bools": "TabFull <- OnlyF", "Salts = {0}": "Salts = {1}"}), None, 40000),
        ("g222-calls", S(WIDE, CB, PAT, G222, {"MaxMissing = 9": "MaxMissing = 2"}), None, 50000),
        ("g321-calls", S(WIDE, PAT, {"Dims <- D221": "Dims <- D321", "TabFull <- Bools": "TabFull <- OnlyF", "MaxMissing = 9": "MaxMissing = 2", "MaxLen = 2": "MaxLen = 3"}), None, 50000),
        ("g231-calls", S(WIDE, PAT, {"Dims <- D221": "Dims <- D231", "TabFull <- Bools": "TabFull <- OnlyF", "MaxMissing = 9": "MaxMissing = 2", "MaxLen = 2": "MaxLen = 3"}), None, 50000),
        ("g331-calls", S(WIDE, CB, PAT, G331, {"MaxMissing = 9": "MaxMissing = 2", "LenPats <- LP6": "LenPats <- LP3"}), None, 50000),
        ("g232-calls", S(WIDE, CB, PAT, G331, {"Dims <- D331": "Dims <- D232", "MaxMissing = 9": "MaxMissing = 2", "LenPats <- LP6": "LenPats <- LP3", "Pars <- P4": "Pars <- P2"}), None, 50000),
        ("g221-objects", S(PAT, OBJ, {"MaxOps = 1": "MaxOps = 3", "LenPats <- LP6": "LenPats <- LP3", "MaxMissing = 9": "MaxMissing = 1", "InitExps <- Exp1": "InitExps <- Exp01", "Pars <- P2": "Pars <- P1"}), None, 50000),
        ("g221-chain2", S(PAT, {"MaxOps = 1": "MaxOps = 2", "LenPats <- LP6": "LenPats <- LP3", "TabFull <- Bools": "TabFull <- OnlyF", "RecvAll = TRUE": "RecvAll = FALSE"}), None, 50000),
        ("chains-sim", S(PAT, WIDE, {"Dims <- D221": "Dims <- DAll", "MaxOps = 1": "MaxOps = 5", "MaxLen = 2": "MaxLen = 4", "Pars <- P2": "Pars <- P4",
                                     "MaxMissing = 9": "MaxMissing = 4", "XOps <- CallsX": "XOps <- AllX", "InitExps <- Exp1": "InitExps <- Exp012",
                                     "Salts = {0}": "Salts = {0, 1, 2}"}), dict(num=10), 20000),
    ]


def run(ctx):
    import coba.results  # noqa: F401
    from coba.context import CobaContext
    global SCRATCH
    SCRATCH = ctx.scratch
    if ctx.replay:
        c = json.load(open(ctx.replay))["case"]
        if "tb" in c: bad = [table_case(c, v) for v in range(3)]; bad = [b for b in bad if b]
        elif "lg" in c: bad = [logged_case(c, v) for v in range(16)]; bad = [b for b in bad if b]
        else: bad = replay(c["history"], c["enc"], c["route"], c["variant"], c["seed"], c.get("naming"), "replay")
        ctx.case("replay"); ctx.traces += 1
        for b in bad[:3]: ctx.violation(b[0], b[1], c)
        return

    def model(item):
        name, sub, sim, least = item
        cfg = tracecheck._cfg("ResultMore.cfg", sub, ctx.scratch, "rm_%s.cfg" % name)
        kw = dict(workers=4, timeout=3000, heap="6g")
        if sim: kw.update(simulate=sim, depth=8, seed=ctx.seed)
        r = tlc.run("MC_ResultMore", cfg, ctx.scratch, **kw)
        r.out = ""
        return r

    items = plan(ctx)
    pool = multiprocessing.get_context("fork").Pool(WORKERS)       # forked before any thread exists
    # two TLC runs (4 workers each) at a time, in plan order; the broken variants last.  Results are consumed in plan order.
    ex = concurrent.futures.ThreadPoolExecutor(2)
    futs = [ex.submit(model, it) for it in items]
    vfuts = []
    for vname, sub, inv in VARIANTS:
        s = dict(sub); s['Variant = "none"'] = 'Variant = "%s"' % vname
        vfuts.append(ex.submit(model, ("variant_" + vname, s, None, 0)))
    ops = {}; outcomes = {}; total = 0
    for k, (name, sub, sim, least) in enumerate(items):
        r = futs[k].result(); futs[k] = None
        ctx.add_tlc("ResultMore_" + name, r)
        if name.startswith("design"): continue
        for v in r.violations:
            ctx.violation("spec:%s" % (v["name"] or v["kind"]), "ResultMore.tla itself violates %s (%s)" % (v["name"], name), v["trace"][:60])
        if name.startswith(("table", "logged")):
            fld = "tb" if name.startswith("table") else "lg"
            cases = sorted((j for j in r.json if isinstance(j, dict) and fld in j), key=lambda j: json.dumps(j, sort_keys=True))
            if len(cases) < least: raise RuntimeError("ResultMore %s produced only %d cases" % (name, len(cases)))
            for j in cases: ctx.case(fld + json.dumps(j[fld], sort_keys=True))
            for j, bad in zip(cases, pool.imap(_tjob, [(fld, j, ctx.quick) for j in cases], chunksize=200)):
                if bad: ctx.violation(bad[0], bad[1], j)
            ops[fld] = ops.get(fld, 0) + len(cases)
            ctx.sample(cases[len(cases) // 2][fld], limit=4); total += len(cases)
            ctx.exhaustive = True if ctx.exhaustive is None else ctx.exhaustive
            continue
        hists = {}
        for h in r.json:
            if isinstance(h, list) and len(h) > 1 and isinstance(h[0], dict) and h[0].get("op") == "new":
                hists.setdefault(json.dumps(h, sort_keys=True), h)
        if len(hists) < least: raise RuntimeError("ResultMore %s produced only %d histories" % (name, len(hists)))
        if not sim: ctx.exhaustive = True if ctx.exhaustive is None else ctx.exhaustive
        keys = sorted(hists)
        for key in keys:
            ctx.case(hashlib.sha1(key.encode()).hexdigest()[:20])
            for s in hists[key][1:]:
                ops[s["op"]] = ops.get(s["op"], 0) + 1
                if s["op"] == "contrast": outcomes["contrast:" + s["out"]["kind"]] = outcomes.get("contrast:" + s["out"]["kind"], 0) + 1
                if s["op"] == "best" and len(s["out"]["alts"]) > 1: outcomes["best:tied"] = outcomes.get("best:tied", 0) + 1
                if s["op"] == "fint" and not s["new"]: outcomes["fint:not-a-prefix"] = outcomes.get("fint:not-a-prefix", 0) + 1
                if s["op"] == "eq": outcomes["eq:%s" % s["out"]["val"]] = outcomes.get("eq:%s" % s["out"]["val"], 0) + 1
        jobs = [(key, hists[key], ctx.quick, ctx.seed, None) for key in keys]
        for key, outs in zip(keys, pool.imap(_job, jobs, chunksize=100)):
            for bad, enc, route, variant, nm in outs:
                hk = zlib.crc32(key.encode())
                for sig, what in bad:
                    ctx.violation(sig, "%s [values as %s, Result built via %s]" % (what, enc, route),
                                  dict(history=hists[key], enc=enc, route=route, variant=variant, naming=nm, seed=ctx.seed * 1000003 + hk))
        total += len(hists)
        mid = hists[keys[len(keys) // 2]]
        ctx.sample([(s["op"], s["recv"], s["args"] if s["op"] != "new" else s["args"][0]) for s in mid], limit=6)
        del jobs, r
    pool.close(); pool.join()
    # ---- the broken variants must be rejected by TLC (otherwise the invariants say nothing)
    rejected = {}
    for (vname, sub, inv), f in zip(VARIANTS, vfuts):
        r = f.result()
        ctx.add_tlc("ResultMore_variant_" + vname, r)
        names = sorted({v["name"] for v in r.violations})
        rejected[vname] = names
        if inv not in names:
            raise RuntimeError("the broken variant %s was not rejected by %s (TLC reported %r): the invariants are vacuous" % (vname, inv, names))
    ctx.extra["broken_variants_rejected_by"] = rejected
    ex.shutdown()
    for op in ("copy", "setexp", "load", "fpar", "fint", "best", "contrast", "eq", "tb", "lg"):
        if not ops.get(op): raise RuntimeError("no case exercises the action %s" % op)
    for o in ("contrast:rows", "contrast:raise", "best:tied", "fint:not-a-prefix", "eq:True", "eq:False"):
        if not outcomes.get(o): raise RuntimeError("no case has the outcome %s" % o)
    ctx.traces += total
    ctx.extra["steps_by_action"] = ops; ctx.extra["outcomes"] = outcomes
    ctx.assumptions += [
        "Results as Experiment.run writes them: interaction rows of an evaluation carry index 1..len, a numeric reward in every row; parameter columns never carry the names the four tables reserve",
        "raw_contrast: inside one level no two evaluations share pairing group and x (the code says it assumes so); with x='index' one level on each side; the x labels of one table are all plain values or all 'x2-x1' texts; parameter values are ints or strings (so that x can be sorted and a level is never a tuple); l is a column of a table ('full_name' is refused by where)",
        "where_best: which of several tied best learners is kept is not specified - every choice is accepted (the history continues only with the choice the spec made)",
        "filters: `every parameter row is referenced` is demanded of an output only when it held of the input (DESIGN C18 (i)); the filtered table may hold at most the rows that satisfy the condition; ordering operators only on ids / index / reward; a row predicate is written so that it reads a row given as a tuple (what Table.where passes) or as a dict (what the Result docstrings say)",
        "Result.copy() / Table.copy() are shallow by the repository's own test (Table_Tests.test_copy asserts the data is shared): independence is demanded under re-binding of attributes and under every call of the API, not under Table.insert / Table.index on a copy's tables",
        "== is stated for Results whose parameter tables are known exactly, and not for pairs that differ in `experiment` only",
        "a filter that removes nothing may return the receiver itself (repository tests), so `experiment` is re-bound only on objects made by the constructor, a log or copy()",
        "from_logged_envs: no two logged environments with the same (environment, learner, evaluator) parameters; un-batched interactions with action / reward / probability",
        "Table: columns a, b, c over 2-3 small integers, indexed on a prefix of (a, b, c); groupby(0) of an empty table is not demanded; to_pandas not exercised (no pandas)",
    ]
