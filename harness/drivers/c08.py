"""C08 - Multiprocessor.filter: spec/Multiproc.tla (exhaustive), spec/MultiprocTrace.tla (binding).

1. TLC checks Multiproc.tla exhaustively over a grid of (P, Max, N, outputs per item, fault subsets, abandon) chosen
   in Init: exactly-once, conservation, <= Max per worker, raise-iff-fault, termination under
   weak fairness.
2. The repository's Multiprocessor.filter runs on the virtual multiprocessing layer
   (harness/vmp.py) under seeded-random and bounded-DFS schedules for the same grid; every
   execution is a trace (one event per queue / event / join operation, each with a snapshot of
   queue lengths, _n_procs, #exceptions and the stop flag) that TLC must accept against
   MultiprocTrace.tla, all invariants evaluated per state.  A schedule in which the caller can
   no longer progress is a deterministic hang verdict.
3. Real `spawn` processes: a few configurations judged on schedule-independent observables
   (multiset, exception, per-pid handled counts for the Max clause, termination)."""
import os, pickle, random, json, sys, subprocess, time
from .. import tlc, vsched, tracecheck, vmp
from ..vsched import Sched

ACTIONS = ["MainStart", "MainStartFirst", "MainWait", "MainRestOne", "MainGet", "MainAbandon", "MainFinally", "LoaderPull", "LoaderPut", "LoaderCb",
           "LoaderPillCheck", "LoaderPillPut", "WorkerBoot", "WorkerGet", "WorkerOut", "Callback", "CbStart", "CbPutPoison"]
FINISH = dict(level="model_checking",
              rule="a case = one execution of the real Multiprocessor.filter under one virtual schedule of one configuration (P,Max,N,faults,abandon), or one real-spawn run; distinct = distinct (configuration, event sequence)")


class Fault(Exception):
    pass


# "for filters that raise": WHAT a filter raises is the filter's business.  The kinds include the exception classes that queue and
# pipe plumbing raises itself (a failed assert, EOFError, BrokenPipeError, another OSError), which must not be mistaken for plumbing.
class FaultAssert(Fault, AssertionError): pass
class FaultEOF(Fault, EOFError): pass
class FaultPipe(Fault, BrokenPipeError): pass
class FaultOS(Fault, FileNotFoundError): pass
class FaultKey(Fault, KeyError): pass
KINDS = [Fault, FaultAssert, FaultEOF, FaultOS, FaultPipe, FaultKey]
PLAIN = [ValueError, AssertionError, EOFError, FileNotFoundError, BrokenPipeError, KeyError]


# Outputs per item (the spec's cfg.Outs; the same shapes as MC_Multiproc.tla!OutsOf).  "one" is a plain 1:1 filter returning a
# value; the others are generator filters (Foreach flattens iterator results) yielding several outputs for an item or none at all.
SHAPES = dict(one=lambda x: 1, fan=lambda x: 2, sparse=lambda x: (x + 1) % 2, mix=lambda x: (x + 1) % 3, none=lambda x: 0)
def outs_of(shape, N): return [SHAPES[shape](x) for x in range(1, N + 1)]


# Renderings of the spec's abstract items (Multiproc.tla: items are the integers 1..N; "any finite stream of items" does not say
# what an item is).  "int" renders item x as the integer x; "pal<k>" renders item x as PALETTE[(x-1+k) % len(PALETTE)]: None, falsy
# values of several types, containers holding None, values that equal each other across types (0 / 0.0 / False) - the stream's first
# item is then PALETTE[k].  The filter's OUTPUTS stay the integers of Multiproc.tla!OutId (never None) under every rendering.
PALETTE = [None, 0, "", [], (), 0.0, False, {}, b"", (None,), [None, None], "None", float("inf"), frozenset()]
RENDERINGS = ["int"] + ["pal%d" % k for k in range(len(PALETTE))]
def _key(o): return (type(o).__name__, repr(o))
def render(rendering, x):
    """The Python object standing for item id x (>= 1)."""
    return x if rendering == "int" else PALETTE[(x - 1 + int(rendering[3:])) % len(PALETTE)]
def item_table(rendering, ids): return {_key(render(rendering, x)): x for x in ids}


class F:
    """The wrapped filter: raising for the faulty items; otherwise identity on item ids (outs=None: a plain function result) or a
    generator yielding outs[x-1] outputs x, x+10, x+20, ... for item x (Multiproc.tla!OutId).  table (item_table) maps the rendered
    item it is handed back to the item's id; None = items are their ids."""
    def __init__(self, bad=(), kind=0, outs=None, table=None): self.bad = set(bad); self.kind = kind; self.outs = outs; self.table = table
    def filter(self, x):
        if self.table is not None: x = self.table[_key(x)]
        if self.outs is not None: return self._gen(x)
        if x in self.bad: raise KINDS[self.kind % len(KINDS)](x)
        return x
    def _gen(self, x):
        if x in self.bad: raise KINDS[self.kind % len(KINDS)](x)
        for j in range(self.outs[x - 1]): yield x + 10 * j


class PidF:
    def __init__(self, bad=(), kind=0, outs=None, table=None): self.bad = set(bad); self.kind = kind; self.outs = outs; self.table = table
    def filter(self, x):
        if self.table is not None: x = self.table[_key(x)]
        if self.outs is not None: return self._gen(x)
        if x in self.bad: raise PLAIN[self.kind % len(PLAIN)]("bad %d" % x)
        return (os.getpid(), x, 0)
    def _gen(self, x):
        if x in self.bad: raise PLAIN[self.kind % len(PLAIN)]("bad %d" % x)
        for j in range(self.outs[(x - 1) % 100]): yield (os.getpid(), x, j)


_TABLE = None     # item_table of the stream of the current virtual run (in-queue payloads are pickled rendered items)
def _label(x):
    if x is None: return 0
    if isinstance(x, bytes):
        try: x = pickle.loads(x)
        except Exception: return -1
        return _TABLE.get(_key(x), -1) if _TABLE is not None else x
    return x if isinstance(x, int) else -1


def run_virtual(policy, cfg, max_steps=20000):
    global _TABLE
    import coba.pipes.multiprocessing as M
    ctx, state, undo, _ = vmp.install(M)
    rendering = cfg.get("render", "int"); ids = range(1, cfg["N"] + 1)
    table = _TABLE = item_table(rendering, ids)
    vsched.LABEL = _label
    s = Sched(policy, max_steps=max_steps)
    vsched.S = s
    out = {"got": []}
    outs = cfg.get("Outs")        # None = the 1:1 filter returning a plain value
    mp = M.Multiprocessor(F(cfg["Faults"], cfg.get("kind", 0), outs, None if rendering == "int" else table), cfg["P"], cfg["Max"])
    # private attributes are observed when they exist; -1 = not observable (the trace specification then skips that field).
    # Before the call has set them up the spec's initial values are logged (the attributes appear during filter()).
    started = {"v": False}
    def NP():
        if hasattr(mp, "_n_procs"): started["v"] = True; return mp._n_procs
        return -1 if started["v"] else cfg["P"]
    def NEX():
        if hasattr(mp, "_exceptions"): return len(mp._exceptions)
        return -1 if started["v"] else 0
    def ST():
        ls = getattr(mp, "_load_stopper", None)
        if ls is not None and hasattr(ls, "_stop"): return 1 if ls._stop else 0
        return -1 if started["v"] else 0
    def snap():
        qs = ctx.queues
        return dict(ninq=len(qs[0].items) if qs else 0, nout=len(qs[1].items) if len(qs) > 1 else 0,
                    np=NP(), nex=NEX(), st=ST())
    raw = s.events
    class Ev(list):
        def append(self, e):
            e = dict(e); e["s"] = snap(); list.append(self, e)
    s.events = Ev()
    def main():
        s.events.append(dict(e="start", task="main"))
        g = mp.filter([render(rendering, x) for x in ids])
        outcome = "done"
        try:
            k = cfg.get("abandon_after")
            for y in g:
                out["got"].append(y)
                if k and len(out["got"]) == k:
                    s.events.append(dict(e="abandon", task="main"))
                    g.close(); outcome = "abandoned"; break
        except Fault as e:
            outcome = "raised"; out["exc"] = e.args[0]
        except vsched._Aborted:
            raise
        except BaseException as e:
            outcome = "error"; out["err"] = repr(e)
        out["outcome"] = outcome
        s.events.append(dict(e="mainEnd", task="main", outcome=outcome, got=list(out["got"])))
    mt = s.spawn("main", main)
    verdict = "ok"
    try:
        # run until the caller is finished; other (daemon) threads / processes may legitimately remain blocked
        orig_choose = s.choose
        class Done(Exception): pass
        def choose(en, sch):
            if mt.done: raise Done()
            return orig_choose(en, sch)
        s.choose = choose
        try:
            s.run()
        except Done:
            pass
    except vsched.Deadlock as d:
        verdict = "ok" if mt.done else "hang: no thread can progress while the caller waits: %s" % (d,)
    except vsched.TooLong:
        verdict = "livelock (step budget exceeded)"
    finally:
        s.abort(); undo(); vsched.LABEL = None; _TABLE = None
    evs = []
    for e in s.events:
        t = e.get("task", "-"); k = e["e"]
        if t == "main": r, w = "main", 0
        elif t == "L": r, w = "L", 0
        elif t == "cbL": r, w = "cbL", 0
        elif t.startswith("cbW"): r, w = "cbW", int(t[3:])
        elif t.startswith("W"): r, w = "W", int(t[1:])
        else: r, w = t, 0
        if k == "get_nowait": continue
        if k == "set": r = "W"
        ev = dict(r=r, w=w, e=k, x=e.get("x") if e.get("x") is not None else 0, s=e["s"])
        if k == "mainEnd": ev["outcome"] = e["outcome"]; ev["got"] = e["got"]
        evs.append(ev)
    if cfg["N"] == 0: evs = []     # the call returns before creating anything: the spec's initial state is already final
    tcfg = dict(P=cfg["P"], Max=cfg["Max"], N=cfg["N"], Outs=list(outs) if outs is not None else [1] * cfg["N"], Faults=sorted(cfg["Faults"]), Abandon=bool(cfg.get("abandon_after")))
    return dict(trace=dict(cfg=tcfg, ev=evs), verdict=verdict, out=out, choices=list(s.choices), nen=list(s.nenabled))


def python_checks(res, cfg):
    """Schedule-independent oracle straight from the property text (independent of TLC)."""
    out = res["out"]; N = cfg["N"]; bad = set(cfg["Faults"]); got = out["got"]
    outs = cfg.get("Outs") or [1] * N
    exp = lambda items: sorted(x + 10 * j for x in items for j in range(outs[x - 1]))     # the filter's outputs, item by item
    probs = []
    if len(set(got)) != len(got): probs.append("duplicate outputs %s" % got)
    if not set(got) <= set(exp(set(range(1, N + 1)) - bad)): probs.append("unexpected outputs %s" % got)
    oc = out.get("outcome")
    if oc == "error": probs.append("unexpected exception %s" % out.get("err"))
    if oc == "done" and (bad or sorted(got) != exp(range(1, N + 1))): probs.append("completed normally with outputs %s, the filter yields %s for the %d items, faults %s" % (sorted(got), exp(range(1, N + 1)), N, sorted(bad)))
    if oc == "raised" and out.get("exc") not in bad: probs.append("raised for %s which is not a faulty item" % out.get("exc"))
    return probs


def configs(rng, tier):
    cs = []
    Ps = [1, 2] if tier == "quick" else [1, 2, 3]
    Ms = [0, 1, 2] if tier == "quick" else [0, 1, 2, 3]
    for P in Ps:
        for Max in Ms:
            if P == 1 and Max == 0: continue
            for N in range(0, 5):
                fsets = [[]] + [[i] for i in range(1, N + 1)]
                if tier != "quick": fsets += [[i, j] for i in range(1, N + 1) for j in range(i + 1, N + 1)]
                for fs in fsets:
                    cs.append(dict(P=P, Max=Max, N=N, Faults=fs, kind=len(cs)))      # what is raised rotates through KINDS
                    if not fs and N >= 1:
                        for k in range(1, N + 1): cs.append(dict(P=P, Max=Max, N=N, Faults=[], abandon_after=k))
    # filters that are not 1:1 (several outputs for an item / none for some items); fewer schedules each (field "few")
    for P in Ps:
        for Max in Ms:
            if P == 1 and Max == 0: continue
            for shape in ("fan", "sparse", "mix", "none"):
                for N in ([2] if shape == "none" else [2, 3] if tier == "quick" else [1, 2, 3, 4]):
                    outs = outs_of(shape, N); n_out = sum(outs)
                    cs.append(dict(P=P, Max=Max, N=N, Outs=outs, Faults=[], kind=len(cs), few=True))
                    if N >= 3 or tier != "quick":
                        cs.append(dict(P=P, Max=Max, N=N, Outs=outs, Faults=[1 + len(cs) % N], kind=len(cs), few=True))
                    if n_out >= 2 and (N >= 3 or tier != "quick"):
                        cs.append(dict(P=P, Max=Max, N=N, Outs=outs, Faults=[], abandon_after=1 + len(cs) % (n_out - 1), few=True))
    return cs


def run(ctx):
    rng = random.Random(ctx.seed)
    # ---- 1. exhaustive model checking ----
    cfgp = tracecheck._cfg("Multiproc_mc.cfg", {"Configs <- QuickConfigs": "Configs <- %s" % ctx.pick("QuickConfigs", "ThoroughConfigs")}, ctx.scratch, "Multiproc_mc.cfg")
    r = tlc.run("MC_Multiproc", cfgp, ctx.scratch, workers=16, coverage=True, timeout=6 * 3600, heap="24g")
    ctx.add_tlc("Multiproc_mc", r, required_actions=ACTIONS)
    for v in r.violations:
        ctx.violation("spec:%s" % (v["name"] or v["kind"]), "Multiproc.tla itself violates %s %s" % (v["kind"], v["name"]), v["trace"][:80])
    # ---- 2. real code on the virtual layer -> traces -> TLC ----
    cs = configs(rng, ctx.tier)
    per_rand = ctx.pick(3, 10); per_dfs = ctx.pick(4, 25)      # thorough: 385 configurations x 35 schedules (25 + 60 did not finish within 65 min on a busy machine)
    traces = []; meta = []
    def record(res, cfg, how):
        ctx.case(json.dumps([res["trace"]["cfg"], cfg.get("render", "int"), [(e["r"], e["w"], e["e"], e["x"]) for e in res["trace"]["ev"]]]))
        if res["verdict"] != "ok":
            ctx.violation("hang", res["verdict"], dict(cfg=cfg, how=how, **res)); return
        res["py"] = python_checks(res, cfg)     # second, spec-independent oracle; TLC still judges the trace
        traces.append(res["trace"]); meta.append((cfg, how, res))
    # which Python objects stand for the items rotates through RENDERINGS from run to run (no additional runs: the schedules do
    # not depend on it); the bounded DFS of a configuration keeps one rendering.  The trace keeps item ids (_label).
    nrun = 0
    for ci, cfg in enumerate(cs):
        if cfg["N"] == 0:
            res = run_virtual(vsched.random_policy(random.Random(1)), cfg); record(res, cfg, dict(kind="random", sched_seed=1)); continue
        few = cfg.get("few")
        for i in range(max(1, per_rand // 3) if few else per_rand):
            sseed = rng.randrange(1 << 30); nrun += 1
            rcfg = dict(cfg, render=RENDERINGS[nrun % len(RENDERINGS)])
            record(run_virtual(vsched.random_policy(random.Random(sseed)), rcfg), rcfg, dict(kind="random", sched_seed=sseed))
        cfg = dict(cfg, render=RENDERINGS[ci % len(RENDERINGS)])
        def one(policy):
            res = run_virtual(policy, cfg); return res["choices"], res["nen"], res
        for k, res in enumerate(vsched.dfs(one, max(2, per_dfs // 3) if few else per_dfs)):
            record(res, cfg, dict(kind="dfs", n=k))
    if traces: ctx.sample(traces[len(traces) // 2], limit=1)
    rej = tracecheck.validate(ctx, "MultiprocTrace", "MultiprocTrace.cfg", traces, name="multiproc_trace", workers=16)
    rejected = set()
    for i, reason, pos in rej:
        cfg, how, res = meta[i]; evs = res["trace"]["ev"]; rejected.add(i)
        at = evs[pos - 1] if pos and pos <= len(evs) else None
        ctx.violation("trace-rejected", "%s; first unexplained event #%s: %s %s" % (reason, pos, at, "; ".join(res["py"])), dict(cfg=cfg, how=how, **res))
    for i, (cfg, how, res) in enumerate(meta):
        if res["py"] and i not in rejected:
            ctx.violation("outputs", "; ".join(res["py"]), dict(cfg=cfg, how=how, **res))
    # in-process path (P=1, Max=0) and the empty stream: plain function
    import coba.pipes.multiprocessing as M
    for N in range(0, 4):
        for rendering in RENDERINGS:
            tab = item_table(rendering, range(1, N + 1))
            got = list(M.Multiprocessor(F(table=tab), 1, 0).filter(iter([render(rendering, x) for x in range(1, N + 1)]))); ctx.case("inproc%d%s" % (N, rendering))
            if got != list(range(1, N + 1)): ctx.violation("inprocess", "in-process path returned %s for the %d items %r" % (got, N, [render(rendering, x) for x in range(1, N + 1)]), dict(N=N, rendering=rendering))
    # ---- 3. real spawn processes ----
    real = [(2, 0, 5, [], "one"), (2, 1, 4, [], "one"), (1, 2, 4, [], "one"), (2, 2, 3, [2], "one"), (2, 2, 4, [], "mix"), (1, 1, 2, [], "fan")] if ctx.quick else \
           [(p, m, n, f, "one") for p in (1, 2, 3) for m in (0, 1, 2) for n in (0, 1, 5) for f in ([], [1]) if not (p == 1 and m == 0) and (not f or n >= 1)] + \
           [(p, m, 5, f, sh) for p in (1, 2) for m in (0, 1, 2) for sh in ("fan", "sparse", "mix", "none") for f in ([], [3]) if not (p == 1 and m == 0)]
    code = r"""
import sys, json, collections
sys.path.insert(0, %r)
from harness.drivers.c08 import PidF, render, item_table
from coba.pipes.multiprocessing import Multiprocessor
if __name__ == '__main__':
    P, Max, N, bad, kind, outs, rendering = json.loads(sys.argv[1])
    # the second stream's items 101.. are rendered as palette entries further on (ids 101.. in the table)
    tab = None if rendering == 'int' else dict(list(item_table(rendering, range(1, N + 1)).items()) + [(k, v + 93) for k, v in item_table(rendering, range(8, 8 + N)).items()])
    R = (lambda x: x) if rendering == 'int' else (lambda x: render(rendering, x if x < 100 else x - 93))
    m = Multiprocessor(PidF(bad, kind, outs, tab), P, Max); got2 = []; exc2 = None
    try:
        got = list(m.filter([R(x) for x in range(1, N + 1)])); exc = None
    except Exception as e:
        got = []; exc = type(e).__name__ + ':' + str(e)
    try:
        got2 = list(m.filter([R(x) for x in range(101, 101 + N)]))     # the same object, a second stream: nothing of the first call may linger
    except Exception as e:
        exc2 = type(e).__name__ + ':' + str(e)
    print(json.dumps(dict(got=got, exc=exc, got2=got2, exc2=exc2)))
""" % os.path.dirname(os.path.dirname(os.path.dirname(os.path.abspath(__file__))))
    script = os.path.join(ctx.scratch, "real_spawn.py"); open(script, "w").write(code)
    for ri, (P, Max, N, bad, shape) in enumerate(real):
        outs = None if shape == "one" else outs_of(shape, N)
        want = lambda first: sorted((x, j) for i, x in enumerate(range(first, first + N)) for j in range(outs[i] if outs else 1))
        try:
            rendering = RENDERINGS[(ri * 8) % len(RENDERINGS)]      # real runs: int, pal7, pal0, pal8, pal1, pal9, ...
            p = subprocess.run([sys.executable, "-W", "ignore", script, json.dumps([P, Max, N, bad, ri + 1, outs, rendering])], capture_output=True, text=True, timeout=600)
            d = json.loads(p.stdout.strip().splitlines()[-1])
        except subprocess.TimeoutExpired:
            ctx.violation("real-hang", "real spawn run did not terminate within 600 s", dict(P=P, Max=Max, N=N, bad=bad, outs=outs)); continue
        except Exception as e:
            raise RuntimeError("real spawn run failed: %s %s" % (p.stdout[-500:], p.stderr[-2000:]))
        ctx.case("real%s" % ((P, Max, N, tuple(bad), shape, rendering),))
        # per pid: the distinct ITEMS seen through its outputs (a lower bound of what it handled when some items yield nothing)
        items = sorted((x, j) for _, x, j in d["got"])
        per = {}
        for pid, x, j in d["got"]: per.setdefault(pid, set()).add(x)
        per = {k: len(v) for k, v in per.items()}
        if bad:
            if not d["exc"] or "bad" not in d["exc"]: ctx.violation("real-noraise", "faulty item but no error: %s" % d, dict(P=P, Max=Max, N=N, bad=bad))
        else:
            if d["exc"] or items != want(1): ctx.violation("real-outputs", "outputs (item, index) %s, the filter yields %s item by item; exc %s" % (items, want(1), d["exc"]), dict(P=P, Max=Max, N=N, bad=bad, outs=outs))
            if Max and per and max(per.values()) > Max: ctx.violation("real-maxtasks", "a worker handled %d > %d items" % (max(per.values()), Max), dict(P=P, Max=Max, N=N, per=per))
        items2 = sorted((x, j) for _, x, j in d["got2"]); per2 = {}
        for pid, x, j in d["got2"]: per2.setdefault(pid, set()).add(x)
        per2 = {k: len(v) for k, v in per2.items()}
        if d["exc2"] or items2 != want(101):
            ctx.violation("real-second-call", "a second filter() call on the same Multiprocessor gave outputs %s exc %s (the first call: %s)" % (items2, d["exc2"], "raised" if d["exc"] else "completed"), dict(P=P, Max=Max, N=N, bad=bad))
        elif Max and per2 and max(per2.values()) > Max:
            ctx.violation("real-maxtasks", "second call: a worker handled %d > %d items" % (max(per2.values()), Max), dict(P=P, Max=Max, N=N, per=per2))
    ctx.extra["real_spawn_runs"] = len(real)
    ctx.assumptions += ["virtual layer: one scheduling point per queue put/get, event wait and join; code between two points is atomic (CPython GIL granularity for the shared counters, as argued in DESIGN.md C08)",
                        "non-zero worker exit codes and Ctrl-C are outside the model"]
