"""X12 - the value encoders of coba/encodings.py: spec/Encoders.tla (+ Encoders.cfg).

Encoders.tla is every encoder but the InteractionsEncoder (C20) as a state machine over a HEAP of encoder objects:
unfit -> fit through the constructor's values or `fit(values)`; by the documented assumption of the Encoder interface no
call ever changes an object that exists, `fit` creates a new one.  One action per public call (IsFit, Fit, Encode, Encodes,
FitEncodes) plus Pickle.  TLC enumerates EVERY history of the run's length over the run's alphabet for each encoder kind
and constructor form, checks the design facts (immutability as an action property, fit returns a fit encoder, the state
is a function of (err_if_unknown, fitting values), first-seen level order, the unknown-value policy, encodes = encode
element by element, fit_encodes = fit then encodes, a pickle round trip keeps the fit), rejects five deliberately broken
designs, and prints each history with the result every call must give and the observable state (is_fit, encode of every
value of the alphabet) of every object it creates.  Mode "float" is the decision table of NumericEncoder: the float that
the documented grammar of float() assigns to a spelling (mantissa and decimal exponent as integers), or nan.

The driver replays every history on the REAL objects, in several modes: arguments as lists / tuples (ranges) / one-shot
iterators; `plain` (after every call: the result, and is_fit of EVERY object alive) and `probed` (after every call also
encode(v) of every object for every value of the alphabet - the whole observable state); `hostile` (after every call the
caller mutates the list it passed and the list it got back: a fit encoder must not care).  Python only converts values
and compares."""
import collections, itertools, json, math, pickle, random
import multiprocessing
from concurrent.futures import ProcessPoolExecutor
from fractions import Fraction
from .. import tlc, tracecheck

FINISH = dict(level="model_checking",
              rule="a case = one TLC-generated history of encoder calls replayed on real encoder objects in one mode (argument container x plain / probed / hostile), or one spelling of the float table through every entry point of NumericEncoder; distinct = distinct (kind, alphabet, constructor form, history, mode) / spellings")

ACTIONS = ["IsFit", "Encode", "Encodes", "FitEncodes", "Fit", "Pickle", "Finish"]
ACTION_OF = dict(is_fit="IsFit", encode="Encode", encodes="Encodes", fit_encodes="FitEncodes", fit="Fit", pickle="Pickle")
INVARIANTS = ["FitReturnsFit", "LikeFresh", "LevelOrder", "Policy", "Injective", "Pointwise", "FitThenEncodes", "Total", "PickleKeeps", "FloatFacts"]
INV_BLOCK = "".join("INVARIANT %s\n" % i for i in INVARIANTS)
GUARDS = [("fit_in_place", "fit also fits the receiver", "OneHot", {"Immutable", "LikeFresh"}),
          ("sorted_levels", "levels sorted instead of first-seen", "Factor", {"LevelOrder", "LikeFresh"}),
          ("fit_accumulates", "a second fit keeps the levels of the first", "OneHot", {"LikeFresh", "LevelOrder"}),
          ("encodes_skips", "encodes drops unknown values", "Categ", {"Pointwise", "FitThenEncodes"}),
          ("inner_blanks", "blanks removed everywhere in a number", "Numeric", {"FloatFacts"})]
NEEDFIT = ("onehot", "factor", "categorical", "missing_onehot")
JUNK = "\x00junk"


# ------------------------------------------------------------------ conversion spec value -> Python (nothing is decided here)
def toval(x):
    t, v = x["t"], x["v"]
    if t == "s": return "".join(v)
    if t == "i": return v
    if t == "b": return bool(v)
    if t == "none": return None
    if t == "d": return float(Fraction(v[0]) * Fraction(10) ** v[1])
    if t == "l": return [1]
    if t == "fnan": return float("nan")
    raise AssertionError(x)


def show(x):
    if isinstance(x, dict) and "t" in x:
        t, v = x["t"], x["v"]
        if t in ("s", "i", "b", "none", "d", "l", "fnan"): return repr(toval(x))
        if t == "seq": return "[%s]" % ", ".join(show(e) for e in v)
        if t == "vec": return repr(tuple(v))
        if t == "num": return "float(%s%de%d)" % ("-" if v[0] else "", v[1], v[2])
        if t == "inf": return "-inf" if v else "inf"
        if t == "nan": return "nan"
        if t == "cat": return "Categorical(%s, levels=%s%s, as_int=%d)" % (show(v[0]), [toval(e) for e in v[1]], "" if v[3] else " in any order", v[2])
        if t == "err": return "CobaException (%s)" % v
        if t == "err_or_empty": return "CobaException or []"
        return "%s" % t
    return repr(x)


def cmp(got, r, Categorical, deep=False):
    """None when the Python object `got` is what the spec's result `r` describes, else a short class name"""
    t, v = r["t"], r["v"]
    if t == "s": return None if type(got) is str and got == "".join(v) else ("type" if type(got) is not str else "value")
    if t == "i": return None if type(got) is int and got == v else ("type" if type(got) is not int else "value")
    if t == "b": return None if type(got) is bool and got == bool(v) else "value"
    if t == "none": return None if got is None else "value"
    if t == "d": return None if type(got) is float and got == toval(r) else "value"
    if t == "l": return None if type(got) is list and got == [1] else "value"
    if t in ("nan", "fnan"): return None if type(got) is float and got != got else ("type" if type(got) is not float else "value")
    if t == "inf": return None if type(got) is float and math.isinf(got) and (got < 0) == bool(v) else ("type" if type(got) is not float else "value")
    if t == "num":
        if type(got) is not float: return "type"
        w = float(Fraction(v[1]) * Fraction(10) ** v[2])          # correctly rounded, as float() of a text is
        return None if got == w * (-1 if v[0] else 1) and (math.copysign(1.0, got) < 0) == bool(v[0]) else "value"
    if t == "vec":
        if type(got) is not tuple: return "type"
        return None if got == tuple(v) and all(type(e) is int for e in got) else "value"
    if t == "cat":
        if not isinstance(got, Categorical): return "type"
        if str(got) != toval(v[0]): return "value"
        try: lv = list(got.levels)
        except Exception: return "levels"
        want = [toval(e) for e in v[1]]
        if v[3]:
            if lv != want: return "levels"
            if got.as_int != v[2]: return "as_int"
        else:                                                    # levels in any order: as_int must be the value's place in the levels it reports
            if sorted(lv) != sorted(want) or len(lv) != len(want): return "levels"
            if type(got.as_int) is not int or not (0 <= got.as_int < len(lv)) or lv[got.as_int] != str(got): return "as_int"
        if got.as_onehot != tuple(1 if i == got.as_int else 0 for i in range(len(lv))): return "as_onehot"
        if deep:
            try: g2 = pickle.loads(pickle.dumps(got))
            except Exception: return "categorical-pickle"
            if not isinstance(g2, Categorical) or str(g2) != str(got) or list(g2.levels) != lv or g2.as_int != got.as_int or g2.as_onehot != got.as_onehot: return "categorical-pickle"
        return None
    raise AssertionError(r)


def container(xs, mode, action, kind):
    """the argument list in the container of the mode"""
    if mode == "tuple":
        if xs and all(type(e) is int for e in xs) and xs == list(range(xs[0], xs[0] + len(xs))): return range(xs[0], xs[0] + len(xs))
        return tuple(xs)
    if mode == "iter" and (action == "encodes" or kind not in NEEDFIT): return iter(xs)
    return xs


def construct(kind, init, E, hostile):
    err = bool(init["err"]); vals = [toval(x) for x in init["vals"]]
    if kind == "identity": o = E.IdentityEncoder()
    elif kind == "string": o = E.StringEncoder()
    elif kind == "numeric": o = E.NumericEncoder()
    elif kind == "missing": o = E.MissingEncoder()
    elif kind == "missing_numeric": o = E.MissingEncoder(E.NumericEncoder())
    elif kind == "missing_custom": o = E.MissingEncoder(E.StringEncoder(), missing_vals=[None, "x"], missing_rep=-1)
    elif kind == "missing_onehot": o = E.MissingEncoder(E.OneHotEncoder(err_if_unknown=err))
    elif kind == "onehot": o = E.OneHotEncoder(values=vals, err_if_unknown=err) if init["given"] else E.OneHotEncoder(err_if_unknown=err)
    elif kind == "factor": o = E.FactorEncoder(vals, err) if init["given"] else E.FactorEncoder(err_if_unknown=err)
    elif kind == "categorical": o = E.CategoricalEncoder(values=vals) if init["given"] else E.CategoricalEncoder()
    else: raise AssertionError(kind)
    if hostile and vals: vals.reverse(); vals.append(JUNK)
    return o


def describe(kind, init):
    if kind.startswith("missing") or kind in ("identity", "string", "numeric"):
        return {"identity": "IdentityEncoder()", "string": "StringEncoder()", "numeric": "NumericEncoder()", "missing": "MissingEncoder()",
                "missing_numeric": "MissingEncoder(NumericEncoder())", "missing_custom": "MissingEncoder(StringEncoder(), [None,'x'], -1)",
                "missing_onehot": "MissingEncoder(OneHotEncoder(err_if_unknown=%s))" % bool(init["err"])}[kind]
    cls = {"onehot": "OneHotEncoder", "factor": "FactorEncoder", "categorical": "CategoricalEncoder"}[kind]
    args = []
    if init["given"]: args.append("values=%r" % [toval(x) for x in init["vals"]])
    if kind != "categorical" and init["err"]: args.append("err_if_unknown=True")
    return "%s(%s)" % (cls, ", ".join(args))


def text(h, upto=None):
    out = ["e1 = " + describe(h["kind"], h["init"])]; n = 1
    for k, s in enumerate(h["steps"]):
        if upto is not None and k > upto: break
        a = s["a"]; o = "e%d" % s["o"]; xs = [toval(x) for x in s["x"]]
        if a == "is_fit": out.append("%s.is_fit" % o)
        elif a == "encode": out.append("%s.encode(%r)" % (o, xs[0]))
        elif a == "pickle": n += 1; out.append("e%d = pickle.loads(pickle.dumps(%s))" % (n, o))
        elif a == "fit": n += 1; out.append("e%d = %s.fit(%r)" % (n, o, xs))
        else: out.append("%s.%s(%r)" % (o, a, xs))
    return "; ".join(out)


class Bad(Exception):
    def __init__(self, sig, what): self.sig = sig; self.what = what


def replay(h, mode, E, CobaException, Categorical):
    """one history on real objects; raises Bad(signature class, text) at the first disagreement"""
    kind = h["kind"]; cont, depth = mode
    hostile = depth == "hostile"; probed = depth in ("probed", "hostile")
    V = h["vals"]
    try: objs = [construct(kind, h["init"], E, hostile)]
    except Exception as e: raise Bad("construct:raises-%s" % type(e).__name__, "%s raised %s: %s" % (describe(kind, h["init"]), type(e).__name__, e))
    exps = [h["obj1"]]
    passed = [False]           # the object has already shown its expected state once
    mutated = [hostile and bool(h["init"]["given"])]      # hostile: the list the object was made from has been changed by the caller since

    def check_objects(k, a, arg_empty):
        for i, (o, ex) in enumerate(zip(objs, exps)):
            new = not passed[i]
            where = ("constructed" if k < 0 else a + ":new-object") if new else a + (":object-%s-changed" % ("receiver" if k >= 0 and h["steps"][k]["o"] == i + 1 else "other"))
            if hostile and (not new or mutated[i]): where = "hostile:" + where
            try: f = o.is_fit
            except Exception as e: raise Bad("%s:is_fit:raises-%s" % (where, type(e).__name__), "e%d.is_fit raised %s: %s" % (i + 1, type(e).__name__, e))
            if f is not bool(ex["fit"]):
                if new and a == "fit" and arg_empty and f is False: raise Bad("fit-empty:not-fit", "e%d = fit([]) gives an encoder with is_fit == False (fit: 'Returns: A fit Encoder')" % (i + 1))
                raise Bad("%s:is_fit" % where, "e%d.is_fit is %r, expected %r" % (i + 1, f, bool(ex["fit"])))
            if probed:
                for v, r in zip(V, ex["probe"]):
                    c, got = call(lambda: o.encode(toval(v)), r, True)
                    if c:
                        if new and a == "fit" and arg_empty and c == "raises-CobaException": raise Bad("fit-empty:not-fit", "e%d = fit([]): encode raises %s" % (i + 1, got))
                        raise Bad("%s:encode:%s" % (where, c), "e%d.encode(%r) gives %s, expected %s" % (i + 1, toval(v), got, show(r)))
            passed[i] = True

    def call(f, r, deep=False):
        """-> (class or None, description of what happened)"""
        try: got = f()
        except CobaException as e:
            if r["t"] in ("err", "err_or_empty"): return None, "CobaException"
            return "raises-CobaException", "CobaException: %s" % str(e)[:80]
        except Exception as e:
            return "raises-%s" % type(e).__name__, "%s: %s" % (type(e).__name__, str(e)[:80])
        if r["t"] == "err": return "no-exception", "%.80r" % (got,)
        if r["t"] in ("seq", "err_or_empty"):
            try: items = list(got)
            except Exception as e: return "not-iterable", "%.80r" % (got,)
            want = r["v"] if r["t"] == "seq" else []
            if len(items) != len(want): return "length", "%.120r" % (items,)
            for g, w in zip(items, want):
                c = cmp(g, w, Categorical, deep)
                if c: return "element-" + c, "%.120r" % (items,)
            return None, got
        c = cmp(got, r, Categorical, deep)
        return c, "%.80r" % (got,)

    check_objects(-1, "new", False)
    for k, s in enumerate(h["steps"]):
        a = s["a"]; o = objs[s["o"] - 1]; xs = [toval(x) for x in s["x"]]; r = s["r"]; empty = not xs
        if a == "is_fit":
            c, got = call(lambda: o.is_fit, r)
            if c: raise Bad("is_fit:%s" % c, "step %d: e%d.is_fit gives %s, expected %s" % (k + 1, s["o"], got, show(r)))
        elif a == "encode":
            c, got = call(lambda: o.encode(xs[0]), r, probed)
            if c: raise Bad("encode:%s" % c, "step %d: e%d.encode(%r) gives %s, expected %s" % (k + 1, s["o"], xs[0], got, show(r)))
        elif a in ("encodes", "fit_encodes"):
            arg = container(xs, cont, a, kind)
            c, got = call(lambda: getattr(o, a)(arg), r, probed)
            if c:
                if a == "fit_encodes" and empty and c == "raises-CobaException": raise Bad("fit-empty:not-fit", "step %d: e%d.fit_encodes([]) raises %s" % (k + 1, s["o"], got))
                raise Bad("%s:%s" % (a, c), "step %d: e%d.%s(%r as %s) gives %s, expected %s" % (k + 1, s["o"], a, xs, type(arg).__name__, got, show(r)))
            if hostile:
                if type(arg) is list: arg.reverse(); arg.append(JUNK)
                if type(got) is list and got is not arg: got.clear()
        elif a == "fit":
            arg = container(xs, cont if cont != "iter" else "list", a, kind)
            try: n = o.fit(arg)
            except Exception as e: raise Bad("fit:raises-%s" % type(e).__name__, "step %d: e%d.fit(%r) raised %s: %s" % (k + 1, s["o"], xs, type(e).__name__, str(e)[:80]))
            mutated.append(False)
            if hostile and type(arg) is list: arg.reverse(); arg.append(JUNK); mutated[-1] = True
            objs.append(n); exps.append(s["new"]); passed.append(False)
        elif a == "pickle":
            try: n = pickle.loads(pickle.dumps(o))
            except Exception as e: raise Bad("pickle:raises", "step %d: pickle.loads(pickle.dumps(e%d)) raised %s: %s" % (k + 1, s["o"], type(e).__name__, str(e)[:100]))
            objs.append(n); exps.append(s["new"]); passed.append(False); mutated.append(False)
        else: raise AssertionError(a)
        check_objects(k, a, empty)


def modes_for(run, idx):
    """which modes a history is replayed in: all of them in the small runs, a rotation in the large ones"""
    allm = [("list", "plain"), ("list", "probed"), ("tuple", "plain"), ("iter", "probed"), ("list", "hostile"), ("tuple", "probed")]
    if run["modes"] == "all": return allm
    return [allm[0], allm[1 + idx % 5]]


# ------------------------------------------------------------------ the check
def configs(ctx):
    """the TLC runs: ka = a set of <<kind, alphabet>> pairs named in MC_Encoders.tla"""
    q = ctx.quick
    R = []
    def add(ka, size, calls, objs, modes="rot", design=False, split=False):
        for first in (("is_fit", "encode", "encodes", "fit_encodes", "fit", "pickle") if split else ("any",)):
            R.append(dict(name="%s-%s%d-o%d%s" % (ka, size, calls, objs, "" if first == "any" else "-" + first), ka=ka, size=size,
                          calls=calls, objs=objs, modes=modes, design=design, first=first, big=calls >= 4))
    # design run: every kind, every invariant; medium alphabets, every constructor form, three objects, 2 calls
    add("All", "m", 2, 3, modes="all", design=True)
    add("TX", "l", 2, 2, modes="all")                      # the large text alphabet (every input type), 2 calls
    if q:
        add("NF3", "s", 4, 2)                              # ALL histories of 4 calls on two objects, small alphabets
        add("NF", "s", 3, 3)                               # ... of 3 calls on three objects (incl. MissingEncoder(OneHotEncoder()))
        add("TX", "s", 3, 2)
        add("NF3", "g", 3, 2)                              # object 1 constructed with values (fit from the start)
    else:
        for ka in ("OneHot", "Factor", "Categ"):
            add(ka, "s", 5, 2, split=True)                 # ALL histories of 5 calls on two objects, object 1 unfit
            add(ka, "g", 5, 2, split=True)                 # ... object 1 constructed with values (fit from the start)
            add(ka, "s", 4, 3)                             # ... of 4 calls on three objects
        add("MissOH", "s", 4, 2); add("MissOH", "s", 4, 3)
        add("NF3", "m", 3, 3, design=True); add("NFX", "m", 3, 3, design=True); add("MissOH", "m", 3, 3, design=True)
        add("TX", "s", 4, 2, split=True)                   # the always-fit kinds: ALL histories of 4 calls
        add("TX", "m", 3, 2, design=True)
    return R


def sub_for(c, variant="ok", mode="hist", keep_inv=True):
    sub = {"KindAlphas <- OneHot": "KindAlphas <- %s" % c["ka"], 'Size = "s"': 'Size = "%s"' % c["size"],
           "MaxCalls = 3": "MaxCalls = %d" % c["calls"], "MaxObjs = 3": "MaxObjs = %d" % c["objs"]}
    if c.get("first", "any") != "any": sub['First = "any"'] = 'First = "%s"' % c["first"]
    if variant != "ok": sub['Variant = "ok"'] = 'Variant = "%s"' % variant
    if mode != "hist": sub['Mode = "hist"'] = 'Mode = "%s"' % mode
    if not keep_inv: sub[INV_BLOCK] = ""; sub["PROPERTY Immutable\n"] = ""
    return sub


class _R:
    """what ctx.add_tlc reads of a TLC result (the result itself stays in the worker process)"""
    def __init__(self, d): self.__dict__.update(d)


def _job(args):
    """one TLC run and - for a history run - the replay of every history it prints; runs in a worker PROCESS (the replay is
    Python-bound).  Returns counts, per-signature violations (the first few with text and replay object) and the TLC figures."""
    name, sub, kw, scratch, c = args
    import coba.encodings as E
    from coba.exceptions import CobaException
    from coba.primitives import Categorical
    cfg = tracecheck._cfg("Encoders.cfg", sub, scratch, "enc_%s.cfg" % name)
    r = tlc.run("MC_Encoders", cfg, scratch, timeout=3000, heap="6g", **kw)
    out = dict(name=name, tlc=dict(generated=r.generated, distinct=r.distinct, depth=r.depth, wall=r.wall, coverage={}),
               spec_violations=[dict(kind=v["kind"], name=v["name"], trace=v["trace"][:60]) for v in r.violations])
    if name.startswith("guard-"): return out
    if name == "float":
        out["table"] = [j for j in r.json if isinstance(j, dict) and "spelling" in j]
        return out
    hists = [j for j in r.json if isinstance(j, dict) and "steps" in j]
    r.json = None; r.out = ""
    # TLC's workers print in any order: a canonical order makes the rotation of the modes (and the examples reported) reproducible
    hists.sort(key=lambda h: json.dumps([h["init"], [(s["a"], s["o"], s["x"]) for s in h["steps"]]], sort_keys=True))
    # per-action coverage = the calls that are actually replayed (TLC's -coverage costs 5x the run)
    cov = {a: [0, 0] for a in ACTIONS}; per_kind = {}; viol = {}; seen = 0; nmodes = 0; sample = None
    for h in hists:
        if len(h["steps"]) != c["calls"]: raise RuntimeError("Encoders %s: unexpected history %r" % (name, h))
        h["kind"] = h["init"]["kind"]
        for st in h["steps"]:
            cv = cov[ACTION_OF[st["a"]]]; cv[0] += 1; cv[1] += 1
            pk = per_kind.setdefault(h["kind"], {}); pk[st["a"]] = pk.get(st["a"], 0) + 1
        cov["Finish"][0] += 1; cov["Finish"][1] += 1
        seen += 1          # every history is a distinct state of the model: TLC prints each once
        if len(h["vals"]) != len(h["obj1"]["probe"]): raise RuntimeError("alphabet of %s: %d values, the spec probes %d" % (name, len(h["vals"]), len(h["obj1"]["probe"])))
        for m in modes_for(c, seen):
            nmodes += 1
            try: replay(h, m, E, CobaException, Categorical)
            except Bad as b:
                sig = "%s:%s" % (h["kind"], b.sig)
                v = viol.setdefault(sig, [0, []]); v[0] += 1
                if len(v[1]) < 4: v[1].append(("%s   [%s; arguments as %s, %s]" % (b.what, text(h), m[0], m[1]), dict(run=name, mode=m, program=text(h), history=h)))
        if seen == len(hists) // 2 + 1:
            sample = dict(run=name, program=text(h), expected=[show(s["r"]) if s["r"]["t"] != "nil" else "new: is_fit=%d" % s["new"]["fit"] for s in h["steps"]])
    out["tlc"]["coverage"] = cov
    out.update(n=seen, replays=nmodes, viol=viol, per_kind=per_kind, sample=sample)
    return out


def run(ctx):
    import coba.encodings as E
    from coba.exceptions import CobaException
    from coba.primitives import Categorical
    rng = random.Random(ctx.seed)
    C = configs(ctx)
    byname = {c["name"]: c for c in C}

    # ---- 1. TLC: design runs, guards, generators, the float table; every history replayed on the real objects ----
    jobs = []
    for c in C: jobs.append((c["name"], sub_for(c, keep_inv=c["design"]), dict(workers=4), ctx.scratch, c))
    for g, _, ka, _ in GUARDS:
        gc = dict(ka=ka, size="q" if g == "inner_blanks" else "m", calls=3, objs=3)
        jobs.append(("guard-" + g, sub_for(gc, variant=g, mode="float" if g == "inner_blanks" else "hist"), dict(workers=1), ctx.scratch, None))
    fc = dict(ka="Numeric", size=ctx.pick("q", "t"), calls=1, objs=1)
    jobs.append(("float", sub_for(fc, mode="float"), dict(workers=4), ctx.scratch, None))
    big = {c["name"] for c in C if c["big"]}
    jobs.sort(key=lambda j: 0 if j[0] in big else 2 if j[0].startswith("guard-") else 1)     # the long ones first (stable)

    total = 0; nmodes = 0; per_kind = {}; nsig = {}

    def handle(o):
        nonlocal total, nmodes
        name = o["name"]; r = _R(o["tlc"])
        if name.startswith("guard-"):
            g = name[6:]; expect = [x for x in GUARDS if x[0] == g][0][3]
            ctx.add_tlc("Encoders " + name, r)
            names = {v["name"] for v in o["spec_violations"]}
            if not (names & expect):
                raise RuntimeError("the broken design %r is not rejected by any of %s (got %s): the invariants are vacuous" % (g, sorted(expect), sorted(names)))
            ctx.extra.setdefault("guards_rejected", {})[g] = sorted(names)
            return
        for v in o["spec_violations"]: ctx.violation("spec:%s" % (v["name"] or v["kind"]), "Encoders.tla (%s) itself violates %s" % (name, v["name"]), v["trace"])
        if name == "float":
            ctx.add_tlc("Encoders float table", r)
            if len(o["table"]) < 500: raise RuntimeError("the float table has only %d spellings" % len(o["table"]))
            float_table(ctx, o["table"], E, CobaException, rng)
            return
        c = byname[name]
        if o["n"] < 30: raise RuntimeError("Encoders %s produced only %d histories" % (name, o["n"]))
        # an action of the spec that no history of the run takes makes the run vacuous
        ctx.add_tlc("Encoders " + name, r, required_actions=ACTIONS if (c["first"] == "any" and c["calls"] >= 2) else ())
        for i in range(o["n"]): ctx.case("%s#%d" % (name, i))
        ctx.evaluations += o["replays"] - o["n"]
        total += o["n"]; nmodes += o["replays"]
        for sig, (cnt, firsts) in sorted(o["viol"].items()):
            for what, obj in firsts:
                nsig[sig] = nsig.get(sig, 0) + 1
                if nsig[sig] <= 4: ctx.violation(sig, what, obj)
                else: ctx.violation(sig, "", None)
            for _ in range(cnt - len(firsts)): ctx.violation(sig, "", None)         # counted; the first ones carry the text and the replay file
        for k, v in o["per_kind"].items():
            pk = per_kind.setdefault(k, {})
            for a, n in v.items(): pk[a] = pk.get(a, 0) + n
        if o["sample"]: ctx.sample(o["sample"], limit=10)
        ctx.extra.setdefault("histories", {})[name] = o["n"]

    # `window` worker processes, each: one TLC run (4 TLC workers) + the replay of its histories; results are taken in job order
    window = ctx.pick(4, 4); pending = collections.deque(); it = iter(jobs)
    with ProcessPoolExecutor(max_workers=window, mp_context=multiprocessing.get_context("fork")) as ex:
        for job in itertools.islice(it, window + 1): pending.append(ex.submit(_job, job))
        while pending:
            o = pending.popleft().result()
            nxt = next(it, None)
            if nxt is not None: pending.append(ex.submit(_job, nxt))
            handle(o)
            del o
    ctx.exhaustive = True
    ctx.traces += total
    ctx.extra["calls_replayed_per_kind"] = {k: dict(sorted(v.items())) for k, v in sorted(per_kind.items())}
    for k, v in per_kind.items():
        missing = [a for a in ACTION_OF if not v.get(a)]
        if missing: raise RuntimeError("no history of kind %s takes %s" % (k, missing))
    ctx.extra["replays"] = nmodes

    # ---- 2. the binding is not vacuous: one corrupted expectation must be noticed ----
    probe = dict(kind="onehot", init=dict(kind="onehot", alpha="abc", err=0, given=0, vals=[]), obj1=dict(fit=0, probe=[dict(t="err", v="unfit")] * 2), vals=[dict(t="s", v=["a"]), dict(t="s", v=["c"])],
                 steps=[dict(a="fit_encodes", o=1, x=[dict(t="s", v=["c"]), dict(t="s", v=["a"])], r=dict(t="seq", v=[dict(t="vec", v=[1, 0]), dict(t="vec", v=[1, 0])]), new=dict(t="nil", v=0))])
    try:
        replay(probe, ("list", "plain"), E, CobaException, Categorical)
        raise RuntimeError("a corrupted expectation ((1,0) for the second level) was not noticed: the comparison is vacuous")
    except Bad: pass

    ctx.assumptions += [
        "values are hashable and compare by Python equality (str, int, None; 1 and '1' are different values); categorical values are str; nan, unhashable values and values equal across types (1, 1.0, True) are not used as levels",
        "`fit` / the constructor get a list, tuple or range (the annotation says Sequence; a one-shot iterator given to fit is outside the domain), `encodes` gets a list, tuple, range or one-shot iterator",
        "a MissingEncoder around an encoder that needs fitting is fit on values without a missing marker (whether the markers would be levels is not demanded)",
        "CategoricalEncoder: the order of the levels is demanded (= the given order) only when the fitting values have no duplicates; with duplicates any order is accepted and as_int / as_onehot must agree with the levels reported",
        "fit_encodes on an encoder that is already fit encodes with the fit it has (the base class's choice; mirrored); encodes([]) on an unfit encoder may raise or return []",
        "float values are compared exactly: the expected float is the correctly rounded value of mantissa * 10^exponent (fractions.Fraction), which is what float() of a text is",
        "texts use the characters of the alphabets only (ASCII digits, blank / tab / newline, + - . e E _ x and a few letters); non-ASCII digits and other Unicode blanks are not explored",
        "pickling = the standard pickle module (cloudpickle is not installed here)"]


def float_table(ctx, table, E, CobaException, rng):
    """every spelling through every entry point of NumericEncoder and through MissingEncoder(NumericEncoder())"""
    enc = E.NumericEncoder(); fitd = enc.fit(["1"]); pick = pickle.loads(pickle.dumps(enc)); miss = E.MissingEncoder(E.NumericEncoder())
    table = sorted(table, key=lambda j: j["spelling"])
    rng.shuffle(table)
    texts = ["".join(j["spelling"]) for j in table]
    def bad(where, s, got, r, cls):
        ctx.violation("numeric:float-table:%s:%s" % (where, cls), "NumericEncoder %s of %r gives %.60r, expected %s" % (where, s, got, show(r)), dict(spelling=s, expected=r, where=where))
    for s, j in zip(texts, table):
        r = j["float"]; ctx.case(("float", s))
        for where, f in (("encode", lambda: enc.encode(s)), ("fit().encode", lambda: fitd.encode(s)), ("pickled.encode", lambda: pick.encode(s)),
                         ("encodes", lambda: enc.encodes([s, s])[1]), ("encodes-iterator", lambda: enc.encodes(iter([s]))[0]), ("fit_encodes", lambda: enc.fit_encodes((s,))[0])):
            try: got = f()
            except Exception as e: bad(where, s, "%s: %s" % (type(e).__name__, e), r, "raises"); continue
            c = cmp(got, r, None)
            if c: bad(where, s, got, r, c)
        try:
            got = miss.encode(s)
            if s in ("?", ""):
                if got is not None: bad("in-MissingEncoder", s, got, dict(t="none", v=0), "value")
            else:
                c = cmp(got, r, None)
                if c: bad("in-MissingEncoder", s, got, r, c)
        except Exception as e: bad("in-MissingEncoder", s, "%s: %s" % (type(e).__name__, e), r, "raises")
    # the whole table in one call: element k of the result is the float of element k
    for where, f in (("encodes-all", lambda: enc.encodes(texts)), ("encodes-all-iterator", lambda: enc.encodes(iter(texts))), ("in-MissingEncoder-encodes-all", lambda: miss.encodes(texts))):
        ctx.case(("float", where))
        try: got = list(f())
        except Exception as e: ctx.violation("numeric:float-table:%s:raises" % where, "%s over %d spellings raised %s: %s" % (where, len(texts), type(e).__name__, e), dict(where=where)); continue
        if len(got) != len(texts): ctx.violation("numeric:float-table:%s:length" % where, "%s over %d spellings returned %d values" % (where, len(texts), len(got)), dict(where=where)); continue
        for s, j, g in zip(texts, table, got):
            r = j["float"] if not (where.startswith("in-Missing") and s in ("?", "")) else dict(t="none", v=0)
            c = cmp(g, r, None)
            if c: bad(where, s, g, r, c); break
    ctx.traces += len(texts)
    ctx.extra["float_spellings"] = len(texts)
    ctx.sample(dict(float_table=[(texts[i], show(table[i]["float"])) for i in range(0, len(texts), max(1, len(texts) // 12))][:12]), limit=12)
