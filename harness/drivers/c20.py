"""C20 - feature interaction encoding equals the polynomial expansion: spec/Interactions.tla.

Interactions.tla is the oracle: for a term list over {x, a} (plus numeric constants) and one value per
namespace (not passed / None / bare scalar / dense vector / sparse mapping, numbers and strings mixed) it
DEFINES the expected output - the form (vector or mapping), the dense vector, and for the mapping form the
feature names and the product of every monomial.  TLC enumerates the cases (bounded-exhaustive, one initial
state per case), checks the design facts on the oracle itself (the monomials are exactly the multisets,
binomial counts, the complete-homogeneous-polynomial identity, key bijectivity, dense/mapping agreement) and
prints every case.  The driver converts each case to Python values, calls the real
InteractionsEncoder(terms).encode(...) - twice on the same encoder, and once more on an encoder object that
lives across cases (so it has served dense, sparse and string-valued inputs before) - and compares.  Every case is replayed
with plain ints in list / dict containers and a second time in another rendering of the same abstract input
(prime p fed as the float p/2, tuple / LazyDense / HashableDense, LazySparse / HashableSparse).
Mappings are built in the order the spec lists their entries, which for the spec's `Shuffled` values is NOT the ascending order
of the keys ({'v': 2, 'u': 3}, {6: 2, 5: 3}); the spec's `Long` vectors have twelve positions (position names "0".."11")."""
import json, re, collections.abc
from .. import tlc, tracecheck

FINISH = dict(level="model_checking",
              rule="a case = one TLC-generated (term list, x value, a value) replayed through the real InteractionsEncoder.encode in two renderings; distinct = distinct abstract inputs")

SEQ_KINDS = ("list", "tuple", "LazyDense", "HashableDense")
MAP_KINDS = ("dict", "LazySparse", "HashableSparse")


# ---- conversion of spec values to Python values --------------------------------------------------------
def py_entry(e, half):
    if e["str"]: return e["s"]
    return e["n"] / 2 if half else e["n"]


def py_ns(val, half, seqk, mapk):
    from coba.pipes.rows import LazyDense, LazySparse
    from coba.primitives import HashableDense, HashableSparse
    t = val["t"]; es = val["v"] or []
    if t == "none": return None
    if t == "scalar": return py_entry(es[0], half)
    if t == "seq":
        items = [py_entry(e, half) for e in es]
        if seqk == "tuple": return tuple(items)
        if seqk == "LazyDense": return LazyDense(items)
        if seqk == "HashableDense": return HashableDense(items)
        return items
    d = {(int(e["k"]) if t == "imap" else e["k"]): py_entry(e, half) for e in es}
    if mapk == "LazySparse": return LazySparse(d)
    if mapk == "HashableSparse": return HashableSparse(d)
    return d


def py_terms(tl, mix=False):
    """mix: the same monomial sets spelled with the namespaces' letters interleaved ('xxa' as 'xax', 'xxaa' as 'xaax'): the order in
    which the namespaces FIRST appear - which fixes the order of the crossing - stays the same"""
    out = []
    for el in tl:
        if el["c"]: out.append(el["c"]); continue
        t = list(el["t"])
        if mix and len(set(t)) > 1 and t.count(t[0]) > 1:
            f = t[0]      # keep the first letter first and move its repeats behind the other namespace
            t = [f] + [c for c in t[1:] if c != f] + [f] * (t.count(f) - 1)
        out.append("".join(t))
    return out


def short(val):
    t = val["t"]
    if t in ("absent", "none"): return t
    return t + ":" + ",".join(("%s=" % e["k"] if e["k"] else "") + (repr(e["s"]) if e["str"] else str(e["n"])) for e in (val["v"] or []))


def describe(case, rend):
    kw = ", ".join("%s=%s" % (n, short(case[n])) for n in ("x", "a") if case[n]["t"] != "absent")
    return "InteractionsEncoder(%r).encode(%s) [%s]" % (py_terms(case["terms"], bool(rend[0])), kw, "/".join(map(str, rend)))


# ---- classes of input (for stable signatures only; expectations come from the spec) --------------------
def n_features(val):
    t = val["t"]
    return 0 if t in ("absent", "none") else 1 if t == "scalar" else len(val["v"] or [])


def shape_class(case):
    """coverage counters only: does the case hold a mapping whose keys are not ascending / a vector with two-digit positions"""
    out = set()
    for n in ("x", "a"):
        v = case[n]; es = v["v"] or []
        if v["t"] == "seq" and len(es) > 10: out.add("long_vector")
        if v["t"] in ("map", "imap"):
            ks = [(int(e["k"]) if v["t"] == "imap" else e["k"]) for e in es]
            if ks != sorted(ks): out.add("keys_not_ascending")
    return out


def input_class(case):
    used = {n for el in case["terms"] for n in el["t"]}
    absent = sorted(n for n in used if case[n]["t"] == "absent")
    high = False
    for el in case["terms"]:
        for n in set(el["t"]):
            m = el["t"].count(n); k = n_features(case[n])
            if m >= 3 and k >= 3 and m + k >= 7: high = True
    return absent, high


# ---- comparison ----------------------------------------------------------------------------------------
def is_num(v): return isinstance(v, (int, float)) and not isinstance(v, bool)


def expected_values(case, half):
    sp = case["sparse"] or []
    vals = [(m["v"] / 2 ** m["d"] if half else m["v"]) for m in sp]
    dense = ([case["const"]] if case["const"] else []) + vals
    if not half and dense != list(case["dense"] or []): raise RuntimeError("spec output inconsistent: %r" % case)
    return dense, [(tuple(sorted(m["names"])), v) for m, v in zip(sp, vals)]


TOKEN = re.compile(r"[xa][^xa]*")


def check_dense(out, dense):
    if isinstance(out, (collections.abc.Mapping, str)) or not hasattr(out, "__iter__"):
        return "form", "a vector was expected, got %s %r" % (type(out).__name__, out)
    got = list(out)
    if not all(is_num(v) for v in got): return "dense", "non-numeric entries in %r" % (got,)
    if got != dense: return "dense", "returned %r, expected %r" % (got, dense)
    return None


def check_sparse(out, monos, const):
    if not isinstance(out, collections.abc.Mapping):
        return "form", "a mapping was expected, got %s %r" % (type(out).__name__, out)
    got = []; extras = []
    for k, v in out.items():
        toks = TOKEN.findall(k) if isinstance(k, str) else []
        if not toks or "".join(toks) != k: extras.append((k, v))
        else: got.append((tuple(sorted(toks)), v))
    want_extras = [const] if const else []
    if sorted(v for _, v in extras if is_num(v)) != want_extras or len(extras) != len(want_extras):
        return "sparse", "constant entries %r, expected one entry per non-zero constant with value(s) %r; mapping %r" % (extras, want_extras, dict(out))
    if not all(is_num(v) for _, v in got): return "sparse", "non-numeric values in %r" % (dict(out),)
    if sorted(got) != sorted(monos):
        missing = sorted(set(monos) - set(got)); surplus = sorted(set(got) - set(monos))
        return "sparse", "mapping has %d monomial keys, expected %d; missing (features, value) %r; unexpected %r" % (len(got), len(monos), missing[:4], surplus[:4])
    return None


def replay(case, rend, Enc, shared=None):
    """Returns None or (signature, what).  `shared`: {terms: encoder} of encoder objects that live across cases - the same
    object then serves dense, sparse and string-valued inputs in turn, and must answer each as a fresh encoder does."""
    half, seqk, mapk = rend
    terms = py_terms(case["terms"], bool(half))      # the second rendering also spells the terms with interleaved namespace letters
    kw = {n: py_ns(case[n], half, seqk, mapk) for n in ("x", "a") if case[n]["t"] != "absent"}
    absent, high = input_class(case)
    try:
        enc = Enc(terms)
        out = enc.encode(**kw)
        out2 = enc.encode(**kw)
    except Exception as e:
        sig = "absent-namespace:raises" if absent and isinstance(e, KeyError) else "encode:raises"
        return sig, "%s raised %s: %s" % (describe(case, rend), type(e).__name__, str(e)[:120])
    dense, monos = expected_values(case, half)
    mode = case["mode"]
    if mode == "dense": bad = check_dense(out, dense)
    elif mode == "sparse": bad = check_sparse(out, monos, case["const"])
    else: bad = check_sparse(out, monos, case["const"]) if isinstance(out, collections.abc.Mapping) else check_dense(out, dense)
    if bad:
        kind, what = bad
        sig = "high-degree:wrong-monomials" if (high and kind != "form") else kind + ":differs"
        return sig, "%s: %s" % (describe(case, rend), what)
    same = (dict(out2) == dict(out)) if isinstance(out, collections.abc.Mapping) else (not isinstance(out2, collections.abc.Mapping) and list(out2) == list(out))
    if not same: return "encode:not-repeatable", "%s: second call on the same encoder returned %r, first %r" % (describe(case, rend), out2, out)
    if shared is not None:
        tk = json.dumps(terms)
        try:
            if tk not in shared: shared[tk] = Enc(terms)
            out3 = shared[tk].encode(**kw)
        except Exception as e:
            shared.pop(tk, None)
            return "encode:depends-on-earlier-calls", "%s raised %s: %s on an encoder that had served other inputs before (a fresh one answers %r)" % (describe(case, rend), type(e).__name__, str(e)[:100], out)
        same = (isinstance(out3, collections.abc.Mapping) and dict(out3) == dict(out)) if isinstance(out, collections.abc.Mapping) else (not isinstance(out3, collections.abc.Mapping) and list(out3) == list(out))
        if not same:
            shared.pop(tk, None)
            return "encode:depends-on-earlier-calls", "%s: an encoder that had served other inputs before returned %r, a fresh one %r" % (describe(case, rend), out3, out)
    return None


# ---- TLC chunks ----------------------------------------------------------------------------------------
def chunks(ctx):
    """(name, substitutions into Interactions.cfg)"""
    base = {"MaxLen = 3": "MaxLen = %d", "MaxMult = 4": "MaxMult = %d", "Degrees = {1, 2, 3, 4, 5}": "Degrees = {%s}",
            'Multi = "few"': 'Multi = "%s"', 'Pairs = "wide"': 'Pairs = "%s"'}
    def sub(maxlen, maxmult, degrees, multi, pairs):
        vals = (maxlen, maxmult, ", ".join(map(str, degrees)), multi, pairs)
        return {k: v % x for (k, v), x in zip(base.items(), vals)}
    if ctx.quick:
        return [("quick", sub(3, 4, (1, 2, 3, 4, 5), "few", "wide"))]
    out = [("multi", sub(4, 5, (), "all", "lite"))]
    out += [("deg%d" % d, sub(4, 5, (d,), "none", "full")) for d in (1, 2, 3, 4, 5)]
    return out


def run(ctx):
    from coba.encodings import InteractionsEncoder
    total = 0; n = 0; hit = {"dense": 0, "sparse": 0, "either": 0}; nmono = 0; shapes = {"keys_not_ascending": 0, "long_vector": 0}
    for name, sub in chunks(ctx):
        cfg = tracecheck._cfg("Interactions.cfg", sub, ctx.scratch, "inter_%s.cfg" % name)
        r = tlc.run("Interactions", cfg, ctx.scratch, workers=16, timeout=1500, heap="12g", seed=ctx.seed)
        ctx.add_tlc("Interactions_" + name, r)
        for v in r.violations:
            ctx.violation("spec:%s" % (v["name"] or v["kind"]), "Interactions.tla itself violates %s" % (v["name"] or v["kind"]), v["trace"][:60])
        r.out = ""
        cases = [j for j in r.json if isinstance(j, dict) and "mode" in j and "terms" in j]
        r.json = []
        if len(cases) < 1000: raise RuntimeError("Interactions %s produced only %d cases" % (name, len(cases)))
        cases.sort(key=lambda c: json.dumps([c["terms"], c["x"], c["a"]], sort_keys=True))
        ctx.sample(dict(call=describe(cases[len(cases) // 3], (False, "list", "dict")), expected_form=cases[len(cases) // 3]["mode"],
                        dense=cases[len(cases) // 3]["dense"], mapping=cases[len(cases) // 3]["sparse"][:6]), limit=4)
        shared = {}
        for c in cases:
            n += 1
            if len(shared) > 64: shared.clear()
            key = "%s|%s|%s" % (",".join(map(str, py_terms(c["terms"]))), short(c["x"]), short(c["a"]))
            ctx.case(key)
            hit[c["mode"]] += 1; nmono += len(c["sparse"] or [])
            for sc in shape_class(c): shapes[sc] += 1
            k = n + ctx.seed
            rends = [(False, "list", "dict"), (True, SEQ_KINDS[1 + k % 3], MAP_KINDS[1 + k % 2])]
            for rend in rends:
                bad = replay(c, rend, InteractionsEncoder, shared)
                total += 1
                if bad:
                    ctx.violation(bad[0], bad[1], dict(terms=c["terms"], x=c["x"], a=c["a"], expected=dict(mode=c["mode"], const=c["const"], dense=c["dense"], sparse=c["sparse"]), rendering=list(rend)))
                    break
        del cases
    ctx.exhaustive = True
    ctx.traces += total
    ctx.extra["cases_by_expected_form"] = hit
    ctx.extra["monomials_compared"] = nmono
    ctx.extra["cases_by_input_shape"] = shapes
    if not all(shapes.values()): raise RuntimeError("no case with shuffled mapping keys / a long vector was generated: %r" % shapes)
    ctx.assumptions += [
        "feature names in the mapping form are ns + position/key (+ the string for a string-valued feature), as in the repository's own tests; the order of the names inside a key is not checked, the key of the constant is not checked (only that exactly one extra entry carries its value)",
        "mapping keys and string values never contain the namespace letters 'x' / 'a' (keys are split at those letters); no empty-string values; no two features of a case have the same name",
        "terms are x^i a^j, written with each namespace's letters adjacent ('xxa', 'axx') in the first rendering and interleaved ('xax', 'xaax') in the second; namespaces are crossed in order of first appearance; no term list contains the same term (or two spellings of the same monomial set) twice",
        "mappings list their entries in insertion order, ascending by key or not (reversed and two other orders); vectors have up to MaxLen positions, and twelve for terms of degree <= 2",
        "numeric constants are positive; several constants add up to one constant feature (test_dense_x_a_with_const)",
        "values are small distinct primes, one optional 0, and the same divided by two as floats: all products are exact, floating-point rounding is not explored",
        "when the only sparse-typed namespace is one that no term names, either output form is accepted",
    ]
