"""C13 - lazy row views are indistinguishable from the eager table they describe: spec/LazyRows.tla.

LazyRows.tla is the EAGER model: a table of plain rows (dense = sequence, sparse = finite map with defaulted
columns), an optional header, an optional label column; the filters HeadRows / EncodeRows / DropRows (columns
by index or name, row predicates) / LabelRows / EncodeCatRows and ArffReader are applied to the whole table
at once.  TLC enumerates every pipeline of <= MaxStages filters over six base tables (plain dense, plain
sparse, dense ARFF text, sparse ARFF text, dense / sparse with Categoricals) and every history of MaxAcc
accesses, checks the design invariants (length = |iteration| = |items|, position / name / iteration agree,
feats + label partition the row, drop by name = drop by index, history independence ...) and prints, per
behaviour, what every access of the history must return for every row, plus the complete sweep of all accesses.

The driver builds the REAL pipeline for each behaviour (real HeadRows / EncodeRows / DropRows / LabelRows /
EncodeCatRows / ArffReader objects), and on each resulting row OBJECT performs the history, comparing every
returned value (type-exact) with the spec's, then the complete sweep forwards and backwards on the same
object (so every access is also observed after every history).  Python only converts values and compares.

REUSE (spec: REUSE RULE / StackIsFunction).  For every pipeline TLC also prints its "twins": second, different tables (other
width / header order / values, and the other container kind where the same constructor arguments mean the same) with what
every access must return there, computed by the same fold of the stage operators.  The driver constructs the filter objects
ONCE, feeds them the first table, then the twin, then the first table again, and sweeps all accesses on the rows of the second
and third application.  A disagreement that a fresh stack of filter objects does not show on the same table is reported as
`reused-filter:second-table:...` / `reused-filter:first-table-again:...`."""
import json, os, random
from operator import attrgetter
from .. import tlc, tracecheck

FINISH = dict(level="model_checking",
              rule="a case = one TLC-generated behaviour (base table, filter stack, access history) replayed on real row objects: the history, then a full sweep of all accesses forwards and backwards, on every row; or one (pipeline, second table) pair: the same filter objects fed the first table, the second table and the first again, full sweeps on the 2nd and 3rd application; distinct = distinct behaviours / pairs")

ENC = {"id": (lambda x: x), "int": int, "inc": (lambda x: int(x) + 1), "str": str}
# how the reader reads an undefined cell that is not spelled with the bare marker (spec: U(text, type)): None or the text.
# Asked once per run, by position on a fresh lazy row (probe_undefined); every other access path must give the same value.
READING = {}


def probe_undefined(ctx):
    from coba.pipes import ArffReader
    for ty, decl, other in (("num", "numeric", "x"), ("nom", "{x,y,z}", "1")):
        for text, cell in (("", ""), ("?", "'?'")):
            lines = ["@relation p", "@attribute a %s" % decl, "@attribute b %s" % ("{x,y,z}" if ty == "num" else "numeric"), "@data", "%s,%s" % (cell, other)]
            try:
                got = list(ArffReader().filter(lines))[0][0]
            except Exception as e:
                got = e
            if got is None or (type(got) is str and got == text): READING[(text, ty)] = got
            else:
                READING[(text, ty)] = None
                ctx.violation("arff:undefined-cell:by-position", "a %s cell written %r is read by position as %r (the eager value is None or the text)" % (ty, cell, got), dict(lines=lines))


# ------------------------------------------------------------------ value conversion (spec -> Python)
def pykey(k):
    return int(k) if isinstance(k, str) and k.isdigit() else k


def conv(v):
    from coba.primitives import Categorical
    t = v["t"]
    if t == "i": return int(v["v"])
    if t == "f": return float(v["v"])
    if t == "s": return v["v"]
    if t == "n": return None
    if t == "u": return READING[(v["v"][0], v["v"][1])]
    if t == "c": return Categorical(v["v"][0], list(v["v"][1]))
    if t == "t": return tuple(v["v"])
    raise ValueError(t)


def conv_row(row, kind):
    if kind == "dense": return [conv(v) for v in row]
    if isinstance(row, list): return {}                      # the empty function prints as []
    return {pykey(k): conv(v) for k, v in row.items()}


def same(got, exp):
    """type-exact agreement of a Python value with a spec value"""
    from coba.primitives import Categorical
    t = exp["t"]
    if t == "i": return type(got) is int and got == exp["v"]
    if t == "f": return type(got) is float and got == exp["v"]
    if t == "s": return type(got) is str and got == exp["v"]
    if t == "n": return got is None
    if t == "u":
        want = READING[(exp["v"][0], exp["v"][1])]
        return got is None if want is None else (type(got) is str and got == want)
    if t == "c": return isinstance(got, Categorical) and str(got) == exp["v"][0] and list(got.levels) == list(exp["v"][1])
    if t == "t": return type(got) is tuple and list(got) == list(exp["v"]) and all(type(x) is int for x in got)
    return False


def same_seq(got, exp):
    return isinstance(got, (list, tuple)) and len(got) == len(exp) and all(same(g, e) for g, e in zip(got, exp))


def same_map(got, exp):
    if isinstance(exp, list): exp = {}
    exp = {pykey(k): v for k, v in exp.items()}
    return isinstance(got, dict) and got.keys() == exp.keys() and all(same(got[k], exp[k]) for k in exp)


def same_keys(got, exp):
    got = list(got)
    return len(got) == len(set(got)) and set(got) == {pykey(k) for k in exp}


# ------------------------------------------------------------------ building the real pipeline
def arff_lines(base):
    out = ["@relation t"]
    for a in base["attrs"]:
        ty = {"num": "numeric", "str": "string"}.get(a["type"]) or "{" + ",".join(a["levels"]) + "}"
        out.append("@attribute %s %s" % (a["name"], ty))
    out.append("@data")
    for raw in base["rows"]:
        if base["kind"] == "dense": out.append(",".join(raw))
        else:
            raw = {} if isinstance(raw, list) else raw
            out.append("{" + ", ".join("%s %s" % (k, raw[k]) for k in sorted(raw, key=int)) + "}")
    return out


def colref(c):
    return c["c"] if c["by"] in ("idx", "name") else pykey(c["c"])


def make_stage(st, kind):
    from coba.pipes import HeadRows, EncodeRows, DropRows, LabelRows, EncodeCatRows
    op = st["op"]
    if op == "head":
        if kind == "dense":
            names = list(st["names"])
            if st["form"] == "seq": return HeadRows(names)
            pairs = list(zip(names, range(len(names))))
            if st["form"] == "maprev": pairs.reverse()         # a header map whose iteration order is not the positional order
            return HeadRows(dict(pairs))
        if st["form"] == "seq": return HeadRows(list(st["names"]))                # sparse rows keyed 0..n-1: the list form
        return HeadRows({n: pykey(k) for n, k in zip(st["names"], st["keys"])})
    if op == "encode":
        if st["form"] == "seq": return EncodeRows([ENC[a["e"]] for a in st["asg"]])
        return EncodeRows({colref(a): ENC[a["e"]] for a in st["asg"]})
    if op == "drop":
        p = st["pred"]; pred = None
        if p["a"] == "missing": pred = attrgetter("missing")
        elif p["a"] in ("poseq", "nameeq"): pred = (lambda c, v: (lambda row: row[c] == v))(p["c"], conv(p["v"]))
        elif p["a"] == "haskey": pred = (lambda k: (lambda row: k in row.keys()))(pykey(p["c"]))
        return DropRows(drop_cols=[colref(c) for c in st["cols"]], drop_row=pred)
    if op == "label": return LabelRows(colref(st["col"]), st["tipe"])
    if op == "encodecat": return EncodeCatRows(st["tipe"])
    raise ValueError(op)


def make_objects(stack, kind):
    """the filter objects of a pipeline; the constructor arguments are the ones written for the FIRST table (of kind `kind`)"""
    return [make_stage(st, kind) for st in stack]


def feed(objs, base):
    """one application of a stack of filter objects to one table, read completely"""
    from coba.pipes import ArffReader
    if base["src"] == "arff": rows = ArffReader().filter(arff_lines(base))
    else: rows = [conv_row(r, base["kind"]) for r in base["rows"]]
    for o in objs: rows = o.filter(rows)
    return list(rows)


def build(case):
    return feed(make_objects(case["stack"], case["base"]["kind"]), case["base"])


# ------------------------------------------------------------------ one access on one row object
class Mismatch(Exception):
    def __init__(self, outcome, detail): self.outcome = outcome; self.detail = detail


def perform(row, acc, kind):
    a, k = acc["a"], acc["k"]
    if a in ("pos", "name"): return row[k]
    if a == "key": return row[pykey(k)]
    if a == "iter": return list(iter(row))
    if a == "part":
        it = iter(row); out = [next(it) for _ in range(k)]; del it
        return out
    if a == "len": return len(row)
    if a == "copy": return row.copy()
    if a == "hdrs": return dict(row.headers)
    if a == "keys": return list(row.keys())
    if a == "items":
        items = list(row.items())
        if len(items) != len(dict(items)): raise Mismatch("duplicate-items", repr(items))
        return dict(items)
    if a == "feats": return list(row.feats) if kind == "dense" else dict(row.feats.items())
    if a == "fpos": return row.feats[k]
    if a == "fkey": return row.feats[pykey(k)]
    if a == "fpart":
        it = iter(row.feats); out = [next(it) for _ in range(k)]; del it
        return out
    if a == "flen": return len(row.feats)
    if a == "fkeys": return list(row.feats.keys())
    if a == "label": return row.label
    if a == "tipe": return row.tipe
    if a == "labeled":
        f, l, t = row.labeled
        return (list(f) if kind == "dense" else dict(f.items()), l, t)
    raise ValueError(a)


NOTHING = object()


def check_access(row, acc, exp, kind):
    """None when the real row agrees with the spec, else (outcome, detail, value returned or NOTHING)"""
    a = acc["a"]
    try:
        if a in ("eq", "feq"):
            other = conv_row(exp["other"], kind)
            got = (row == other) if a == "eq" else (row.feats == other)
            ok = (got is True or got is False) and got == exp["res"]
            return None if ok else ("differs", "== %r gave %r, expected %r" % (other, got, exp["res"]), got)
        got = perform(row, acc, kind)
    except Mismatch as m:
        return (m.outcome, m.detail, NOTHING)
    except LookupError as e:
        if isinstance(exp, dict) and exp.get("t") == "err": return None
        return ("raises:" + type(e).__name__, "raised %s(%s), expected %s" % (type(e).__name__, str(e)[:60], show(exp)), NOTHING)
    except Exception as e:
        return ("raises:" + type(e).__name__, "raised %s(%s), expected %s" % (type(e).__name__, str(e)[:80], show(exp)), NOTHING)
    if isinstance(exp, dict) and exp.get("t") == "err":
        return ("no-error", "returned %r where the eager table has no such entry (a LookupError is expected)" % (got,), got)
    if a in ("pos", "name", "key", "fpos", "fkey", "label"): ok = same(got, exp)
    elif a in ("len", "flen"): ok = type(got) is int and got == exp
    elif a == "tipe": ok = got == exp
    elif a == "hdrs": ok = got == dict(exp)
    elif a in ("keys", "fkeys"): ok = same_keys(got, exp)
    elif kind == "dense":
        if a in ("iter", "part", "copy", "feats", "fpart"): ok = same_seq(got, exp)
        elif a == "labeled": ok = same_seq(got[0], exp["feats"]) and same(got[1], exp["label"]) and got[2] == exp["tipe"]
        else: raise ValueError(a)
    else:
        if a == "iter": ok = same_keys(got, exp)
        elif a in ("items", "copy", "feats"): ok = same_map(got, exp)
        elif a == "labeled": ok = same_map(got[0], exp["feats"]) and same(got[1], exp["label"]) and got[2] == exp["tipe"]
        else: raise ValueError(a)
    return None if ok else ("differs", "returned %r, expected %s" % (got, show(exp)), got)


def show(exp):
    try:
        if isinstance(exp, dict) and "t" in exp and "v" in exp: return "<LookupError>" if exp["t"] == "err" else repr(conv(exp))
        if isinstance(exp, list): return "[" + ", ".join(show(e) for e in exp) + "]"
        if isinstance(exp, dict): return "{" + ", ".join("%r: %s" % (pykey(k), show(v)) for k, v in exp.items()) + "}"
    except Exception: pass
    return repr(exp)


# ------------------------------------------------------------------ naming what failed
def stage_name(st):
    op = st["op"]
    if op == "head": return "head(%s)" % st["form"]
    if op == "encode": return "encode(%s)" % "+".join(sorted({st["form"] if st["form"] == "seq" else a["by"] for a in st["asg"]}))
    if op == "drop":
        by = "+".join(sorted({c["by"] for c in st["cols"]})) or "-"
        return "drop(%s%s)" % (by, "" if st["pred"]["a"] == "none" else "|" + st["pred"]["a"])
    if op == "label": return "label(%s)" % st["col"]["by"]
    return "encodecat(%s)" % st["tipe"]


def wrappers(row):
    """class names of the wrapper chain of a real row object, outermost first"""
    out = []; seen = 0
    while seen < 8:
        out.append(type(row).__name__); seen += 1
        try: nxt = object.__getattribute__(row, "_row")
        except Exception: break
        if nxt is None or callable(nxt) or isinstance(nxt, (list, tuple, dict, str)): break
        row = nxt
    return out


def signature(case, acc, outcome, row, got=NOTHING, exp=None):
    """A stable class name for a disagreement.  First the specific classes - one per defect found on the unchanged tree
    (tools/claims/C13.report.md) - each recognised by the construct that causes it; everything else gets a generic name
    built from the table kind, the outermost wrapper class, the access and the outcome, so any other disagreement is
    still reported under a name of its own."""
    stack = case["stack"]; a = acc["a"] if acc else "build"
    kind = case["kind"]; chain = wrappers(row) if row is not None else []
    # (1) flat one-hot of a sparse categorical with more than two levels (EncodeCatRows, rows.py 598-601)
    if case["base"]["name"] == "cats3" and any(s["op"] == "encodecat" and s["tipe"] == "onehot" for s in stack):
        return "encodecat:onehot:sparse:more-than-two-levels"
    # (2) a header map whose iteration order is not the positional order, then a column given by NAME to EncodeRows / DropRows
    #     (rows.py 296 and 398 enumerate the header map)
    rev = [i for i, s in enumerate(stack) if s["op"] == "head" and s["form"] == "maprev"]
    if rev:
        for s in stack[rev[0] + 1:]:
            if s["op"] == "encode" and any(x["by"] == "name" for x in s["asg"]): return "by-name:nonpositional-header-map:EncodeRows"
            if s["op"] == "drop" and any(x["by"] == "name" for x in s["cols"]): return "by-name:nonpositional-header-map:DropRows"
    # (3) access by header name reaches an EncodeDense (rows.py 248: the encoder LIST is indexed with the name)
    if outcome == "raises:TypeError":
        if a == "name" and "EncodeDense" in chain: return "by-name:through-EncodeDense:TypeError"
        if a == "build":
            enc = [i for i, s in enumerate(stack) if s["op"] == "encode"]
            if enc and any(s["op"] == "drop" and s["pred"]["a"] == "nameeq" for s in stack[enc[0] + 1:]): return "by-name:through-EncodeDense:TypeError"
    # (4) a column dropped by DropRows can still be read by its header name (rows.py 397/406: all headers stay in the map)
    if a == "name" and outcome == "no-error" and "KeepDense" in chain: return "by-name:dropped-column-still-readable"
    # (5) EncodeSparse.__getitem__ returns None for an absent key (rows.py 264-268) - also seen as label None under LabelRows
    if "EncodeSparse" in chain and a in ("key", "fkey", "label", "labeled"):
        g = got[1] if (a == "labeled" and isinstance(got, tuple) and len(got) == 3) else got
        e = exp.get("label") if (a == "labeled" and isinstance(exp, dict)) else exp
        absent = isinstance(e, dict) and (e.get("t") == "err" or (e.get("t") == "i" and e.get("v") == 0))   # no entry / the defaulted label
        if g is None and absent: return "sparse:EncodeSparse:absent-key-gives-None"
    # (6) len(LazySparse) counts the parsed entries only, keys() / items() include the defaulted columns (rows.py 108-113)
    if a == "len" and chain[:1] == ["LazySparse"]: return "len:LazySparse:defaulted-columns-not-counted"
    outer = chain[0] if chain else "-"
    return "%s:%s:%s:%s" % (kind, outer, a, outcome)


def generic_signature(kind, acc, outcome, row):
    chain = wrappers(row) if row is not None else []
    return "%s:%s:%s:%s" % (kind, chain[0] if chain else "-", acc["a"] if acc else "build", outcome)


# ------------------------------------------------------------------ the same filter objects on a second table, and on the first again
def replay_reuse(rec, counts):
    """rec = one pipeline record (EmitStack).  Returns [(signature, what, twin name)]."""
    kindA = rec["kind"]; found = {}
    for tw in rec.get("twins", []):
        twcase = dict(base=tw["base"], kind=tw["kind"], stack=rec["stack"], nrows=tw["nrows"], full=tw["full"])
        try:
            objs = make_objects(rec["stack"], rec["base"]["kind"])
            feed(objs, rec["base"])                                  # first application: what the ordinary replays look at
        except Exception:
            continue                                                 # reported by the ordinary replay of this pipeline
        fresh = {}
        def fresh_rows(which, tcase):
            if which not in fresh:
                try: fresh[which] = feed(make_objects(rec["stack"], rec["base"]["kind"]), tcase["base"])
                except Exception as e: fresh[which] = e
            return fresh[which]
        def report(which, tcase, acc, outcome, detail, row, fresh_bad, got=NOTHING, exp=None):
            if fresh_bad: sig = signature(tcase, acc, outcome, row, got, exp)          # not a matter of reuse: the table itself
            else: sig = "reused-filter:%s:%s" % (which, generic_signature(tcase["kind"], acc, outcome, row))
            if sig not in found:
                found[sig] = ("%s of the SAME filter objects (first table %s, second table %s): %s" % (
                    {"second-table": "second application", "first-table-again": "third application"}[which], rec["base"]["name"], tw["base"]["name"], detail), tw["base"]["name"])
        for which, tcase in (("second-table", twcase), ("first-table-again", rec)):
            kind = tcase["kind"]
            try:
                rows = feed(objs, tcase["base"])
            except Exception as e:
                fr = fresh_rows(which, tcase)
                report(which, tcase, None, "raises:" + type(e).__name__, "reading table %s raised %s: %s" % (tcase["base"]["name"], type(e).__name__, str(e)[:100]), None, isinstance(fr, Exception))
                continue
            if len(rows) != tcase["nrows"]:
                fr = fresh_rows(which, tcase)
                report(which, tcase, None, "rows", "table %s: %d rows, the eager table has %d" % (tcase["base"]["name"], len(rows), tcase["nrows"]), None,
                       isinstance(fr, Exception) or len(fr) != tcase["nrows"])
                continue
            full = tcase["full"]
            for r, row in enumerate(rows):
                for where, st in [("sweep", f) for f in full] + [("reverse sweep", f) for f in reversed(full)]:
                    counts[0] += 1
                    bad = check_access(row, st["acc"], st["obs"][r], kind)
                    if not bad: continue
                    fr = fresh_rows(which, tcase)
                    fresh_bad = isinstance(fr, Exception) or r >= len(fr) or check_access(fr[r], st["acc"], st["obs"][r], kind) is not None
                    report(which, tcase, st["acc"], bad[0], "table %s, row %d, %s, %s%s: %s  [wrappers %s]" % (
                        tcase["base"]["name"], r, where, st["acc"]["a"], "" if st["acc"]["k"] == 0 and st["acc"]["a"] not in ("pos", "fpos") else "(%r)" % (st["acc"]["k"],),
                        bad[1], ">".join(wrappers(row))), row, fresh_bad, bad[2], st["obs"][r])
    return sorted((sig, what, twin) for sig, (what, twin) in found.items())


# ------------------------------------------------------------------ the check
def replay(ctx, case, counts):
    kind = case["kind"]
    try:
        rows = build(case)
    except Exception as e:
        return [(signature(case, None, "raises:" + type(e).__name__, None), "building the pipeline raised %s: %s" % (type(e).__name__, str(e)[:100]))]
    if len(rows) != case["nrows"]:
        return [(signature(case, None, "rows", None), "the pipeline yields %d rows, the eager table has %d" % (len(rows), case["nrows"]))]
    found = {}
    full = case["full"]
    for r, row in enumerate(rows):
        steps = [("history step %d" % (i + 1), h) for i, h in enumerate(case["hist"])]
        steps += [("sweep", f) for f in full] + [("reverse sweep", f) for f in reversed(full)]
        for where, st in steps:
            counts[0] += 1
            bad = check_access(row, st["acc"], st["obs"][r], kind)
            if bad:
                sig = signature(case, st["acc"], bad[0], row, bad[2], st["obs"][r])
                if sig not in found:
                    found[sig] = "row %d, %s, %s%s: %s  [wrappers %s]" % (r, where, st["acc"]["a"], "" if st["acc"]["k"] == 0 and st["acc"]["a"] not in ("pos", "fpos") else "(%r)" % (st["acc"]["k"],), bad[1], ">".join(wrappers(row)))
    return sorted(found.items())


_G = {}
PROCS = 8


def _work(task):
    """one slice of replays in a forked worker: [(key, disagreements)], accesses compared, unraisable reports"""
    import sys
    what, lo, hi = task
    un = [0]
    def hook(u): un[0] += 1
    sys.unraisablehook = hook
    counts = [0]; out = []
    hists, stacks = _G["hists"], _G["stacks"]
    for key in _G["todo"][lo:hi]:
        if what == "hist":
            h = hists[key]
            c = dict(stacks[json.dumps([h["base"], h["stack"]], sort_keys=True)], hist=h["hist"])
            out.append((key, replay(None, c, counts)))
        else:
            out.append((key, replay_reuse(stacks[key], counts)))
    return out, counts[0], un[0]


def parallel(what, todo, hists, stacks, counts, unraisable):
    import multiprocessing
    _G.update(todo=todo, hists=hists, stacks=stacks)
    step = max(50, min(2000, len(todo) // (PROCS * 4) + 1))
    tasks = [(what, lo, min(lo + step, len(todo))) for lo in range(0, len(todo), step)]
    if len(tasks) <= 1: results = [_work(t) for t in tasks]
    else:
        with multiprocessing.get_context("fork").Pool(PROCS) as pool:
            results = pool.map(_work, tasks, chunksize=1)
    _G.clear()
    for out, n, un in results:
        counts[0] += n; unraisable[0] += un
        for item in out: yield item


def describe(case):
    return "%s | %s | history %s" % (case["base"]["name"], " > ".join(stage_name(s) for s in case["stack"]) or "(no filter)",
                                     [(h["acc"]["a"], h["acc"]["k"]) for h in case["hist"]])


def run(ctx):
    S2, S3 = "MaxStages = 2", "MaxStages = 3"
    if ctx.quick:
        plans = [("s2a1-full", {"Lite = TRUE": "Lite = FALSE"}, None, 200),
                 ("sim-s3a3", {S2: S3, "MaxAcc = 1": "MaxAcc = 3", "Lite = TRUE": "Lite = FALSE"}, (dict(num=30), 9), 200)]
    else:
        plans = [("s2a2", {"MaxAcc = 1": "MaxAcc = 2"}, None, 5000),
                 ("s3a1", {S2: S3}, None, 5000),
                 ("s2a1-full", {"Lite = TRUE": "Lite = FALSE"}, None, 5000),
                 ("sim-s3a4", {S2: S3, "MaxAcc = 1": "MaxAcc = 4", "Lite = TRUE": "Lite = FALSE"}, (dict(num=1500), 10), 5000)]
    counts = [0]; total = 0; seen = set(); seen_stacks = set(); reuse = [0, 0]; rcounts = [0]
    # a bare `except:` around a `yield` (LazyDense._enc_all, rows.py 57-61) swallows GeneratorExit when an iteration is abandoned on a
    # '?' cell: CPython reports "generator ignored GeneratorExit" through the unraisable hook.  Counted, not judged (no value changes).
    import sys
    unraisable = [0]
    def hook(u): unraisable[0] += 1
    old_hook = sys.unraisablehook; sys.unraisablehook = hook
    probe_undefined(ctx)
    ctx.extra["undefined_cell_reading"] = {"%s %s" % (ty, "empty field" if text == "" else "quoted '?'"): repr(v) for (text, ty), v in sorted(READING.items())}
    for name, sub, sim, least in plans:
        cfg = tracecheck._cfg("LazyRows.cfg", sub, ctx.scratch, "lr_%s.cfg" % name)
        if sim: r = tlc.run("MC_LazyRows", cfg, ctx.scratch, workers=16, simulate=sim[0], depth=sim[1], seed=ctx.seed, timeout=3000, heap="16g")
        else: r = tlc.run("MC_LazyRows", cfg, ctx.scratch, workers=16, timeout=3000, heap="24g")
        ctx.add_tlc("LazyRows_" + name, r)
        for v in r.violations:
            ctx.violation("spec:%s" % (v["name"] or v["kind"]), "LazyRows.tla itself violates %s" % v["name"], v["trace"][:60])
        stacks = {}; hists = {}
        for j in r.json:
            if not isinstance(j, dict): continue
            if j.get("k") == "stack": stacks[json.dumps([j["base"]["name"], j["stack"]], sort_keys=True)] = j
            elif j.get("k") == "hist":
                hists[json.dumps([j["base"], j["stack"], [h["acc"] for h in j["hist"]]], sort_keys=True)] = j
        r.json = None; r.out = None
        if len(hists) < least: raise RuntimeError("LazyRows %s produced only %d behaviours" % (name, len(hists)))
        if not sim: ctx.exhaustive = True if ctx.exhaustive is None else ctx.exhaustive      # the bounded-exhaustive plans are complete
        keys = sorted(hists)
        orphans = 0
        todo = []
        for key in keys:
            if key in seen: continue
            seen.add(key)
            h = hists[key]
            st = stacks.get(json.dumps([h["base"], h["stack"]], sort_keys=True))
            if st is None: orphans += 1; continue
            total += 1
            ctx.case(key)
            todo.append(key)
        # the replays are independent of one another: worker processes (forked, so they see the tables read above) take contiguous
        # slices of the sorted keys; the results are taken in key order, so the run is the same as a sequential one
        for key, res in parallel("hist", todo, hists, stacks, counts, unraisable):
            c = dict(stacks[json.dumps([hists[key]["base"], hists[key]["stack"]], sort_keys=True)], hist=hists[key]["hist"])
            for sig, what in res:
                ctx.violation(sig, "%s: %s" % (describe(c), what), dict(base=c["base"], stack=c["stack"], hist=c["hist"]))
        # ---- the same filter objects on the first table, on a twin, on the first table again (once per pipeline) ----
        todo = []
        for skey in sorted(stacks):
            if skey in seen_stacks: continue
            seen_stacks.add(skey)
            rec = stacks[skey]
            reuse[0] += 1; reuse[1] += len(rec.get("twins", []))
            for tw in rec.get("twins", []): ctx.case("reuse:" + skey + ":" + tw["base"]["name"])
            total += len(rec.get("twins", []))
            todo.append(skey)
        for skey, res in parallel("reuse", todo, hists, stacks, rcounts, unraisable):
            rec = stacks[skey]
            for sig, what, twin in res:
                ctx.violation(sig, "%s | %s: %s" % (rec["base"]["name"], " > ".join(stage_name(x) for x in rec["stack"]) or "(no filter)", what),
                              dict(base=rec["base"], stack=rec["stack"], second_table=twin))
        if not sim and not any(rec.get("twins") for rec in stacks.values()): raise RuntimeError("vacuous model run %s: no pipeline has a second table" % name)
        if not sim:
            missing = {"head", "encode", "drop", "label", "encodecat"} - {s["op"] for st in stacks.values() for s in st["stack"]}
            if missing or {st["kind"] for st in stacks.values()} != {"dense", "sparse"}: raise RuntimeError("vacuous model run %s: filters never stacked: %s" % (name, sorted(missing)))
        if orphans and not sim: raise RuntimeError("LazyRows %s: %d histories without their pipeline record" % (name, orphans))
        if keys:
            h = hists[keys[len(keys) // 2]]
            ctx.sample(dict(base=h["base"], filters=[stage_name(s) for s in h["stack"]], history=h["hist"]), limit=4)
        ctx.extra.setdefault("pipelines", {})[name] = len(stacks)
        ctx.extra.setdefault("behaviours", {})[name] = dict(printed=len(hists), orphans=orphans)
    sys.unraisablehook = old_hook
    ctx.traces += total
    ctx.extra["accesses_compared"] = counts[0] + rcounts[0]
    ctx.extra["reuse"] = dict(pipelines=reuse[0], pipeline_twin_pairs=reuse[1], accesses_compared=rcounts[0])
    ctx.extra["unraisable_generator_exit_reports"] = unraisable[0]
    if unraisable[0]: ctx.notes.append("%d abandoned iterations of a lazy dense ARFF row made CPython report 'generator ignored GeneratorExit' (bare except around yield in LazyDense._enc_all); no returned value is affected" % unraisable[0])
    ctx.assumptions += [
        "headers name every column exactly once; EncodeRows sequences have one encoder per column; encoders do not raise on the values they meet",
        "LabelRows is the last filter of a pipeline; EncodeCatRows is the first filter and runs on materialised (list / dict) rows whose categorical keys are present in every row",
        "negative positions and slices are not accessed; header-name access on the feats part is not demanded",
        "ARFF text is unquoted, comma separated, one attribute per line (C12 covers the reader's grammar)",
        "reuse: a second table is offered to a stack only where every stage's constructor arguments are meaningful on it (StageOK in the spec); filter objects are applied one table after the other, each read completely (no interleaved reads of one object)"]
