"""X09 - the cachers as sequential objects: spec/CacheMap.tla (+ MC_CacheMap.tla, CacheMap.cfg).

CacheMap.tla is coba/context/cachers.py used from ONE thread: NullCacher, MemoryCacher, DiskCacher and ConcurrentCacher around
each of them as a state machine over the public calls (`in`, rmv, get_set and what the caller does with the returned context
manager, leaving a held context manager, cache_directory, unusable keys) and the environment (a new object on the same
directory, zero-length / torn files left by a killed writer, files that are not entries).  State: per directory a partial map
key -> entry, the open handles, the lock table.  TLC checks the design invariants (complete entries only, the null kinds hold
nothing, lock table = open handles, `in` / get agree with the map, a failing getter leaves nothing, a hit keeps the value and
does not call the getter, keys are independent, only writers write), rejects six deliberately broken variants, and prints every
history (bounded-exhaustive per configuration, -simulate for the long mixed ones) with the observation of every call and the
abstract state after it.

The driver replays every history on the REAL cacher of that kind (real files, real gzip, the real lock table given as the
`list` constructor argument): the outcome of every call is compared (returned lines, the very exception object raised by the
getter / the body, CobaException where the spec says so, getter called or not), and after EVERY call the whole map is compared
through the public interface (`in` and a get of every key of the current directory), the directory listings against the
spec's entry sets, the lock table against the spec's.  `time.sleep` of coba.context.cachers is replaced: one thread that
sleeps inside the lock loops waits for itself, which is a hang verdict.  Keys, line texts, directory spellings (str / Path /
'~'), torn-file cut points and unusable keys are renderings chosen per history; the same cacher OBJECT then serves a second
history (after everything was removed through the public interface) and, for a part, the first again."""
import gzip, hashlib, itertools, json, os, random, re, shutil, sys, time
from concurrent.futures import ThreadPoolExecutor
from pathlib import Path
from .. import tlc, tracecheck

FINISH = dict(level="model_checking",
              rule="a case = one TLC-generated history of calls replayed on one real cacher object of one kind under one rendering (first / second / first-again history on the same object); distinct = distinct (kind, configuration, history)")

KINDS = ["null", "mem", "disk", "cnull", "cmem", "cdisk"]
ACTIONS = ["Contains", "Rmv", "GetSet", "Release", "SetDir", "SetDirBad", "BadKey", "NewObject", "Foreign", "Litter"]
OPNAME = {"in": "Contains", "rmv": "Rmv", "getset": "GetSet", "release": "Release", "setdir": "SetDir", "setdirbad": "SetDirBad",
          "badkey": "BadKey", "newobj": "NewObject", "foreign": "Foreign", "litter": "Litter"}
GUARDS = [("keep_partial", "KMem", {}, {"NoPartial", "FailLeavesNothing"}),
          ("overwrite", "KMem", {}, {"KeepOnHit", "Consistent"}),
          ("null_stores", "KNull", {}, {"NullEmpty"}),
          ("shared_entry", "KDisk", {}, {"IndependentKeys"}),
          ("wrong_release", "KCmem", {"Args <- ArgsFew": "Args <- ArgsHold", "Ops <- OpsMap": "Ops <- OpsUse", "Keys <- K2": "Keys <- K3"}, {"LocksBalanced"}),
          ("leak_on_braise", "KCdisk", {"Args <- ArgsFew": "Args <- ArgsUses", "Ops <- OpsMap": "Ops <- OpsUse"}, {"LocksBalanced"})]
_COV = re.compile(r"^<(\w+) line \d+, col \d+ to line \d+, col \d+ of module CacheMap(?: \([\d ]+\))?>: (\d+):(\d+)")


class Hang(BaseException):
    """the single thread went to sleep inside a lock loop: nobody else can ever wake it"""
class GetterErr(Exception): pass
class BodyErr(Exception): pass
class TrapCalled(Exception): pass


class _NoSleep:
    def __getattr__(self, name): return getattr(time, name)
    @staticmethod
    def sleep(s): raise Hang("time.sleep(%r) inside a lock loop" % (s,))


class _FailingFile:
    """a gzip text file whose second write fails"""
    def __init__(self, real, exc): self.real = real; self.exc = exc; self.n = 0
    def write(self, x):
        self.n += 1
        if self.n >= 2: raise self.exc
        return self.real.write(x)
    def __enter__(self): return self
    def __exit__(self, *a): self.real.close(); return False
    def __getattr__(self, name): return getattr(self.real, name)


class _Gzip:
    """stands in for the module `gzip` inside coba.context.cachers while ONE get_set runs: opening for writing fails at once, or the
    second write does"""
    def __init__(self, how, exc): self.how = how; self.exc = exc; self.hit = False
    def __getattr__(self, name): return getattr(gzip, name)
    def open(self, filename, mode="rb", *a, **kw):
        if "w" in mode or "a" in mode or "x" in mode:
            self.hit = True
            if self.how == "io_open": raise self.exc
            return _FailingFile(gzip.open(filename, mode, *a, **kw), self.exc)
        return gzip.open(filename, mode, *a, **kw)


class RecList(list):
    """the lock table; remembers which entries were ever written"""
    def __init__(self, n): super().__init__([0] * n); self.touched = set()
    def __setitem__(self, i, v): self.touched.add(i); list.__setitem__(self, i, v)


# ------------------------------------------------------------------ observed facts about the real classes (no private names)
_SLOT = {}
def slot_of(key):
    """the lock-table entry a key is guarded by, observed on a lone get_set"""
    kk = (type(key).__name__, key)
    if kk not in _SLOT:
        from coba.context.cachers import ConcurrentCacher, MemoryCacher
        t = RecList(65536)
        with ConcurrentCacher(MemoryCacher(), list=t).get_set(key, lambda: ["v"]): pass
        if len(t.touched) != 1: raise RuntimeError("a lone get_set(%r) wrote %d lock-table entries" % (key, len(t.touched)))
        _SLOT[kk] = next(iter(t.touched))
    return _SLOT[kk]


_FNAME = {}
def fname_of(key, scratch):
    """the file name DiskCacher gives to a key, observed in a throw-away directory"""
    if key not in _FNAME:
        from coba.context.cachers import DiskCacher
        d = os.path.join(scratch, "fname-probe"); shutil.rmtree(d, ignore_errors=True)
        with DiskCacher(d).get_set(key, lambda: ["v"]): pass
        names = os.listdir(d)
        if len(names) != 1: raise RuntimeError("DiskCacher wrote %r for the key %r" % (names, key))
        _FNAME[key] = names[0]; shutil.rmtree(d, ignore_errors=True)
    return _FNAME[key]


def colliding(fmt):
    """-> (k1, k2, k3): k1 / k2 really share a lock-table entry, k3 has another"""
    seen = {}
    for i in range(400000):
        k = fmt % i; s = slot_of(k)
        if s in seen:
            k3 = next(fmt % j for j in range(400001, 400100) if slot_of(fmt % j) != s)
            return (seen[s], k, k3)
        seen[s] = k
    raise RuntimeError("no colliding keys found")


def key_renderings(kind, slotcfg):
    """lists of (k1,k2,k3) real keys that respect the spec's Slot constant for the ConcurrentCacher kinds"""
    disk = kind.endswith("disk"); conc = kind.startswith("c")
    R = []
    if conc and slotcfg == "SlotColl":
        R.append(colliding("key%d")); R.append(colliding("Z %d_.x"))
        if not disk: R.append((1, "1", (1,)))            # str(1) == str("1"): the lock table cannot tell them apart, the map must
    else:
        R += [("a", "a.gz", "a_"), ("", ".", ".."), ("\u00e9\u4e2d\u00b2", "e", "L" * 240), ("a b", "a_b", "a.b"),
              ("x" * 251, "x" * 250 + "y", "x" * 250), ("k1", "k2", "k3")]
        if not disk: R += [(1, "1", (1,)), (None, "None", 0.5), (("a", 1), ("a", 2), frozenset([1]))]
    ok = []
    for r in R:
        if conc:
            s = [slot_of(k) for k in r]
            fits = (s[0] == s[1] != s[2]) if slotcfg == "SlotColl" else len(set(s)) == 3
            if not fits: continue
        ok.append(r)
    if not ok: raise RuntimeError("no key rendering for %s / %s" % (kind, slotcfg))
    return ok


BADKEYS = ["a/b", "a:b", "../x", "a\\b", "a*b", "a\nb", "e\u0301", "a-b", "a\x00b", "~", "k" * 300, "a?", "/abs", "a|b"]
LINE_R = 5
def render_line(l, r):
    if r == 0: return l
    if r == 1: return "  " + l + " \t"                      # blanks at both ends are content
    if r == 2: return l + " \u00e9\u4e2d\u20ac"
    if r == 3: return (l + ";") * 700                        # long lines
    return l + ",\"q\" 'x' \\ %s {}" % l


# ------------------------------------------------------------------ one replay
class Replay:
    def __init__(self, C, kind, base, keys, lr, salt):
        self.C = C; self.CM = C.CM; self.kind = kind; self.conc = kind.startswith("c"); self.basekind = kind[1:] if self.conc else kind
        self.disk = self.basekind == "disk"; self.null = self.basekind == "null"
        self.base = base; self.keys = dict(zip(("k1", "k2", "k3"), keys)); self.lr = lr; self.salt = salt
        self.home = os.path.join(base, "home")
        self.dirs = {"d1": os.path.join(base, "c1", "sub"), "d2": "~/c2"}
        self.real = {"d1": self.dirs["d1"], "d2": os.path.join(self.home, "c2")}
        self.table = RecList(65536 if self.conc else 1)
        self.hs = []; self.calls = 0; self.gens = []
        self.litter = {"d1": set(), "d2": set()}
        self.fresh()
        self.inner_obj = self._new(self.dirs["d1"])

    def fresh(self):
        """empty directories; every 8th history starts with directories that do not exist yet (removing a directory is the slow part)"""
        if not self.disk: return
        if self.salt % 8 == 0:
            for p in (os.path.join(self.base, "c1"), self.home): shutil.rmtree(p, ignore_errors=True)
        else:
            for d in self.real.values():
                for nm in (os.listdir(d) if os.path.isdir(d) else ()):
                    p = os.path.join(d, nm)
                    shutil.rmtree(p) if os.path.isdir(p) else os.remove(p)
        os.makedirs(self.home, exist_ok=True)

    def _new(self, d):
        C = self.C
        inner = C.NullCacher() if self.null else C.MemoryCacher() if self.basekind == "mem" else C.DiskCacher(d)
        self.c = C.ConcurrentCacher(inner, list=self.table) if self.conc else inner
        return inner

    # ---- values ----
    def lines(self, ls): return [render_line(l, self.lr) for l in ls]

    def getter(self, f, ls, fail_after):
        """-> (getter argument, exception object or None)"""
        exc = None; me = self
        def count(): me.calls += 1
        def gen(items, boom):
            me.gens.append("started")
            for x in items: yield x
            if boom is not None: raise boom
        if f == "none": return None, None
        if f in ("fn_list", "io_open", "io_write"): g = lambda: (count(), list(ls))[1]
        elif f == "fn_gen":  g = lambda: (count(), gen(ls, None))[1]
        elif f == "fn_iter": g = lambda: (count(), iter(list(ls)))[1]
        elif f == "fn_term": g = lambda: (count(), [l + ("\n" if i % 2 == 0 else "\r\n") for i, l in enumerate(ls)])[1]
        elif f == "val_list": g = list(ls)
        elif f == "val_gen":  g = gen(ls, None)
        elif f == "val_str":  g = ls[0]
        elif f == "fn_raise":
            exc = GetterErr("getter")
            def g(): count(); raise exc
        elif f == "fn_raiseK":
            exc = KeyboardInterrupt()
            def g(): count(); raise exc
        elif f == "gen_raise":
            exc = GetterErr("half-way"); g = lambda: (count(), gen(ls[:fail_after], exc))[1]
        elif f == "valgen_raise":
            exc = GetterErr("half-way"); g = gen(ls[:fail_after], exc)
        else: raise AssertionError(f)
        return g, exc

    # ---- using a context manager ----
    def consume(self, cm, u):
        """-> lines read (list) ; raises what the with-block raises"""
        if u == "braise":
            self.body_exc = BodyErr("body")
            with cm as v: raise self.body_exc
        with cm as v:
            if isinstance(v, str): return [v]
            if u == "all": return list(v)
            it = iter(v); x = next(it, self)
            return [] if x is self else [x]

    def norm(self, got):
        """lines as the spec counts them: DiskCacher hands every line back with "\\n"; the memory kinds hand back what they were given"""
        out = []
        for x in got:
            if not isinstance(x, str): return None
            if self.disk:
                if not x.endswith("\n") or x.endswith("\r\n"): return None
                out.append(x[:-1])
            else:
                out.append(x[:-2] if x.endswith("\r\n") else x[:-1] if x.endswith("\n") else x)
        return out

    # ---- one step ----
    def step(self, s, i):
        """-> None or (class, text)"""
        op, k, a, w, obs = s["op"], s["k"], s["a"], s["w"], s["obs"]
        C = self.C; c = self.c
        calls0 = self.calls; gens0 = len(self.gens)
        exc_obj = None; self.body_exc = None; got = None; raised = None; ret = None
        fail_after = None
        try:
            if op == "in": ret = self.keys[k] in c
            elif op == "rmv": ret = c.rmv(self.keys[k])
            elif op == "getset":
                ls = self.lines(s["vl"])
                g, exc_obj = self.getter(a["f"], ls, (len(ls) + 1) // 2)
                if a["f"] in ("io_open", "io_write"):
                    exc_obj = OSError(28, "No space left on device (injected)")
                    self.CM.gzip = _Gzip(a["f"], exc_obj)
                    try: cm = c.get_set(self.keys[k], g)
                    finally: self.CM.gzip = gzip
                else:
                    cm = c.get_set(self.keys[k], g)
                if a["u"] == "hold": self.hs.append(cm)
                else: got = self.consume(cm, a["u"])
            elif op == "release":
                cm = self.hs.pop(int(w) - 1)
                got = self.consume(cm, a["u"])
            elif op == "setdir":
                d = self.dirs[w]
                self.inner_obj.cache_directory = d if a["f"] == "str" else Path(d)
                if os.path.expanduser(str(self.inner_obj.cache_directory)) != os.path.expanduser(str(d)):      # as given or expanded: both are "the directory"
                    return ("cache_directory", "after `cache_directory = %r` the property reads %r" % (d, self.inner_obj.cache_directory))
            elif op == "setdirbad":
                self.inner_obj.cache_directory = None
            elif op == "badkey":
                bk = BADKEYS[(self.salt + i) % len(BADKEYS)]; self.lastbad = bk
                if w == "in": ret = bk in c
                elif w == "rmv": ret = c.rmv(bk)
                else:
                    g, _ = self.getter("fn_list", ["x"], 0)
                    with c.get_set(bk, g) as v: list(v)
            elif op == "newobj":
                self.inner_obj = self._new(self.inner_obj.cache_directory)
            elif op == "foreign":
                self.foreign(k, w, i)
            elif op == "litter":
                d = self.real[w]; os.makedirs(d, exist_ok=True); before = set(os.listdir(d))
                os.makedirs(os.path.join(d, "subdir.gz.d")); os.makedirs(os.path.join(d, "zz9.gz")); open(os.path.join(d, fname_of(self.keys["k1"], self.base)[:-3] or "noext"), "w").write("not an entry")
                open(os.path.join(d, "tmp~.part"), "wb").write(b""); os.makedirs(os.path.join(d, "sub", "deeper"))
                self.litter[w] = set(os.listdir(d)) - before
            else: raise AssertionError(op)
        except Hang as e:
            return ("hang", "the call never returns: %s" % e)
        except BaseException as e:
            if isinstance(e, (SystemExit, MemoryError, AssertionError)): raise
            raised = e
        # ---- outcome ----
        want = obs["r"]
        if want == "ok":
            if raised is not None: return ("raises:%s" % type(raised).__name__, "raised %s: %s" % (type(raised).__name__, str(raised)[:120]))
            if op == "in" and ret is not (w == "true"): return ("in", "`in` gave %r, the spec says %s" % (ret, w))
            if got is not None and (op == "release" or a["u"] in ("all", "part")) and (op != "release" or a["u"] == "all"):
                n = self.norm(got); exp = self.lines(obs["lines"])
                if n != exp: return ("value", "read %r, expected the lines %r%s" % (got[:6], exp[:6], " (each with one \"\\n\")" if self.disk else ""))
        elif want == "raise":
            x = obs["x"]
            if x == "badkey" and len(self.lastbad) > 255:
                # longer than a file name can be: the OS's own error is accepted, and so is "not there" for `in` / rmv
                if raised is None and (w == "getset" or ret not in (False, None)): return ("no-raise:badkey", "the over-long key gave %r" % (ret,))
                if raised is not None and not isinstance(raised, (C.CobaException, OSError)): return ("raises:%s" % type(raised).__name__, "the over-long key raised %s: %s" % (type(raised).__name__, str(raised)[:100]))
                return None
            if raised is None: return ("no-raise:%s" % x, "returned normally (%r), the spec says it raises %s" % (got if got is not None else ret, x))
            if x == "coba" and not isinstance(raised, C.CobaException): return ("raises:%s" % type(raised).__name__, "raised %s: %s instead of CobaException" % (type(raised).__name__, str(raised)[:120]))
            if x in ("E", "K", "IO") and raised is not exc_obj: return ("raises:%s" % type(raised).__name__, "raised %s: %s instead of the %s" % (type(raised).__name__, str(raised)[:120], "injected OSError" if x == "IO" else "getter's own exception"))
            if x == "B" and raised is not self.body_exc: return ("raises:%s" % type(raised).__name__, "raised %s: %s instead of the exception of the with-body" % (type(raised).__name__, str(raised)[:120]))
            if x == "err" and not isinstance(raised, Exception): return ("raises:%s" % type(raised).__name__, "raised %s" % type(raised).__name__)
            if x == "badkey":
                okc = (C.CobaException,)
                if not isinstance(raised, okc): return ("raises:%s" % type(raised).__name__, "the key %r raised %s: %s instead of CobaException" % (self.lastbad, type(raised).__name__, str(raised)[:100]))
        else:
            if raised is not None and not isinstance(raised, Exception): return ("raises:%s" % type(raised).__name__, "raised %s" % type(raised).__name__)
        if op in ("getset", "badkey"):
            called = (self.calls - calls0) if (op == "badkey" or a["f"].startswith(("fn_", "gen_", "io_"))) else None
            if called is not None and called != (1 if obs["called"] else 0):
                return ("getter-calls", "the getter was called %d times, the spec says %d" % (called, 1 if obs["called"] else 0))
            if op == "getset" and a["f"] in ("val_gen", "valgen_raise") and not obs["called"] and len(self.gens) != gens0:
                return ("getter-calls", "the generator given as value was started although the call did not need it")
        return None

    def foreign(self, k, w, i):
        d = self.real[self.cur]; os.makedirs(d, exist_ok=True)
        p = os.path.join(d, fname_of(self.keys[k], self.base))
        if w == "empty": open(p, "wb").close(); return
        blob = self.blob()
        cuts = list(range(1, len(blob))) + ["garbage"]
        cut = cuts[(self.salt * 7 + i) % len(cuts)]
        open(p, "wb").write(b"abcd" if cut == "garbage" else blob[:cut])

    _BLOB = {}
    def blob(self):
        if self.lr not in Replay._BLOB:
            d = os.path.join(self.base, "blob-probe"); shutil.rmtree(d, ignore_errors=True)
            with self.C.DiskCacher(d).get_set("entry", lambda: self.lines(["d", "", "e f", "g"])): pass
            Replay._BLOB[self.lr] = open(os.path.join(d, os.listdir(d)[0]), "rb").read(); shutil.rmtree(d, ignore_errors=True)
        return Replay._BLOB[self.lr]

    # ---- the whole map through the public interface, the directories, the lock table ----
    def probe(self, post):
        C = self.C; c = self.c; cur = post["cur"]; self.cur = cur
        if self.conc:
            want = {}
            for k, rk in self.keys.items():
                if k in post["files"][cur]: want[slot_of(rk)] = post["arr"][self.slotname(k)]
            for ix in self.table.touched:
                if self.table[ix] != want.get(ix, 0):
                    return ("locks", "lock table entry %d holds %d, the spec says %d (open handles: %d)" % (ix, self.table[ix], want.get(ix, 0), len(post["hs"])))
        for k, e in post["files"][cur].items():
            rk = self.keys[k]
            try:
                present = rk in c
                if present is not (e["t"] != "absent"): return ("map:in", "`%r in cacher` is %r, the spec's entry is %s" % (rk, present, e["t"]))
                if e["t"] == "val" or e["t"] == "torn":
                    def trap(): raise TrapCalled()
                    try:
                        with c.get_set(rk, trap) as v: got = [v] if isinstance(v, str) else list(v)
                        err = None
                    except TrapCalled: return ("map:get", "a get of the present key %r called the getter" % (rk,))
                    except Exception as ex: err = ex
                    if e["t"] == "torn":
                        if err is None: return ("map:torn-served", "the torn entry %r read as %r without an error" % (rk, got[:4]))
                    else:
                        if err is not None: return ("map:get:raises:%s" % type(err).__name__, "a get of the present key %r raised %s: %s" % (rk, type(err).__name__, str(err)[:100]))
                        if self.norm(got) != self.lines(e["v"]): return ("map:value", "a get of %r gives %r, the spec's entry holds %r" % (rk, got[:6], self.lines(e["v"])[:6]))
                elif e["t"] == "empty":
                    p = os.path.join(self.real[cur], fname_of(rk, self.base))
                    if not os.path.isfile(p) or os.path.getsize(p) != 0: return ("map:empty", "the zero-length file of %r is gone or grew" % (rk,))
            except Hang as ex:
                return ("map:hang", "probing %r never returns: %s" % (rk, ex))
        if self.disk:
            for d, ents in post["files"].items():
                have = set(os.listdir(self.real[d])) if os.path.isdir(self.real[d]) else set()
                want = {fname_of(self.keys[k], self.base) for k, e in ents.items() if e["t"] != "absent"} | (self.litter[d] if d in post["litter"] else set())
                if have != want:
                    return ("listing", "directory %s holds %r, the spec's entries are %r" % (d, sorted(have - want)[:4] and ("in excess " + repr(sorted(have - want)[:4])) or ("missing " + repr(sorted(want - have)[:4])), sorted(want)[:6]))
        if len(self.hs) != len(post["hs"]): raise AssertionError("driver lost a handle")
        return None

    def slotname(self, k): return self.slots[k]

    # ---- everything away through the public interface: the object must be as good as new ----
    def cleanup(self):
        c = self.c
        try:
            while self.hs:
                cm = self.hs.pop()
                try:
                    with cm as v: pass
                except Exception: pass
            for d in (("d2", "d1") if self.disk else ("m",)):
                if self.disk: self.inner_obj.cache_directory = self.dirs[d]
                for rk in self.keys.values(): c.rmv(rk)
                if self.disk:
                    for nm in self.litter[d]:
                        p = os.path.join(self.real[d], nm)
                        shutil.rmtree(p) if os.path.isdir(p) else os.remove(p)
                    self.litter[d] = set()
                    if os.path.isdir(self.real[d]) and os.listdir(self.real[d]): return ("cleanup:listing", "after rmv of every key the directory still holds %r" % os.listdir(self.real[d])[:4])
            for rk in self.keys.values():
                if rk in c: return ("cleanup:in", "after rmv %r is still in the cacher" % (rk,))
            bad = [ix for ix in self.table.touched if self.table[ix] != 0]
            if bad: return ("cleanup:locks", "with every context manager left the lock table still holds %r" % [(ix, self.table[ix]) for ix in bad][:3])
        except Hang as ex:
            return ("cleanup:hang", "never returns: %s" % ex)
        except Exception as ex:
            return ("cleanup:raises:%s" % type(ex).__name__, "%s: %s" % (type(ex).__name__, str(ex)[:100]))
        return None

    def run(self, h, slots):
        """-> None or (class, text, step number)"""
        self.slots = slots; self.cur = "d1" if self.disk else "m"
        for i, s in enumerate(h):
            bad = self.step(s, i)
            if bad: return (sig_of(self.kind, s, bad[0]), "step %d %s: %s" % (i + 1, show_step(s, self), bad[1]), i + 1)
            bad = self.probe(s["post"])
            if bad: return (sig_of(self.kind, s, bad[0]), "after step %d %s: %s" % (i + 1, show_step(s, self), bad[1]), i + 1)
        return None


def sig_of(kind, s, cls):
    """a stable name: kind, call, the ONE circumstance the spec's expectation hinges on, how the code differs"""
    q = [kind, s["op"] if s["op"] != "badkey" else "badkey-" + s["w"]]
    if s["obs"]["x"] == "coba" and s["op"] in ("getset", "rmv"):
        q.append("self-wait-same-key" if any(h["k"] == s["k"] for h in s["post"]["hs"]) else "self-wait-colliding-key")
    elif s["op"] == "getset":
        f = s["a"]["f"]
        if f.startswith("val") and kind in ("null", "cnull"): q.append("getter-is-the-value")
        elif s["w"] in ("empty", "torn"): q.append("entry-" + s["w"])
        elif f == "fn_raiseK": q.append("getter-KeyboardInterrupt")
        elif f in ("io_open", "io_write"): q.append("write-fails")
        elif f == "none": q.append("getter-None")
    q.append(cls)
    return ":".join(q)


def show_step(s, rp=None):
    op = s["op"]
    if op == "getset": return "get_set(%s, %s/%s) used %s" % (s["k"], s["a"]["f"], s["a"]["v"], s["a"]["u"])
    if op == "release": return "leave handle %s (%s)" % (s["w"], s["a"]["u"])
    if op in ("in", "rmv"): return "%s(%s)" % (op, s["k"])
    if op == "foreign": return "foreign(%s, %s)" % (s["k"], s["w"])
    return "%s(%s)" % (op, s["w"]) if s["w"] else op


def show(h): return "; ".join(show_step(s) for s in h)


# ------------------------------------------------------------------ configurations
KSETS = {"KAll": KINDS, "KMems": ["null", "mem", "cnull", "cmem"], "KDisks": ["disk", "cdisk"], "KConcs": ["cnull", "cmem", "cdisk"],
         "KUses": ["mem", "cnull", "cmem", "cdisk"], "KHold2": ["cnull", "cmem"], "KHold3": ["mem", "disk", "cdisk"]}


def configs(ctx):
    q = ctx.quick
    C = []
    def add(name, kinds, keys, slot, args, ops, n, handles=2, sim=None):
        C.append(dict(name="%s-%s" % (name, kinds), kinds=KSETS[kinds], slot=slot, sim=sim, depth=n,
                      sub={"Kinds <- KMem": "Kinds <- %s" % kinds, "Keys <- K2": "Keys <- %s" % keys, "Slot <- SlotColl": "Slot <- %s" % slot,
                           "Args <- ArgsFew": "Args <- %s" % args, "Ops <- OpsMap": "Ops <- %s" % ops, "MaxOps = 3": "MaxOps = %d" % n,
                           "MaxHandles = 2": "MaxHandles = %d" % handles}))
    if q:
        add("values", "KAll", "K2", "SlotDist", "ArgsValues", "OpsPut", 2)
        add("few", "KMems", "K2", "SlotDist", "ArgsFew", "OpsPut", 3)
        add("few", "KDisks", "K2", "SlotDist", "ArgsFewQ", "OpsPut", 3)
        add("uses", "KUses", "K2", "SlotColl", "ArgsUsesQ", "OpsUse", 3)
        add("hold", "KConcs", "K3", "SlotColl", "ArgsHold", "OpsUse", 3)
        add("env", "KDisks", "K1", "SlotDist", "ArgsEnvQ", "OpsEnv", 3)
        add("sim", "KAll", "K3", "SlotColl", "ArgsAll", "OpsAll", 6, sim=1500)
    else:
        add("values", "KMems", "K2", "SlotDist", "ArgsValues", "OpsPut", 3)
        add("values", "KDisks", "K2", "SlotDist", "ArgsValuesD", "OpsPut", 3)
        add("few", "KMems", "K2", "SlotDist", "ArgsFew", "OpsPut", 4)
        add("few", "KDisks", "K2", "SlotDist", "ArgsFewQ", "OpsPut", 4)
        add("uses", "KAll", "K2", "SlotColl", "ArgsUses", "OpsUse", 3)
        add("hold", "KConcs", "K2", "SlotColl", "ArgsHold", "OpsUse", 4)
        add("hold3", "KAll", "K3", "SlotColl", "ArgsHold", "OpsUse", 3)
        add("env", "KDisks", "K1", "SlotDist", "ArgsEnv", "OpsEnv", 3)
        add("sim", "KAll", "K3", "SlotColl", "ArgsAll", "OpsAll", 6, sim=10000)
        add("sim8", "KConcs", "K3", "SlotColl", "ArgsUses", "OpsAll", 8, handles=3, sim=4000)
        add("envsim", "KDisks", "K2", "SlotDist", "ArgsEnv", "OpsEnv", 5, sim=5000)
    return C


SLOTS = {"SlotColl": {"k1": "s1", "k2": "s1", "k3": "s2"}, "SlotDist": {"k1": "s1", "k2": "s2", "k3": "s3"}}


# ------------------------------------------------------------------ replaying a batch (in a forked worker)
def replay_batch(job):
    """job = (kind, slotcfg, base dir, [(index, history, partner history)], seed) -> dict(cases, viol=[(sig, what, replay)])"""
    kind, slotcfg, base, items, quick = job
    t0 = time.time()
    import coba.context.cachers as CM
    from coba.exceptions import CobaException
    C = type("C", (), dict(CM=CM, NullCacher=CM.NullCacher, MemoryCacher=CM.MemoryCacher, DiskCacher=CM.DiskCacher, ConcurrentCacher=CM.ConcurrentCacher, CobaException=CobaException))
    old_time = CM.time; old_home = os.environ.get("HOME")
    CM.time = _NoSleep()
    out = dict(cases=0, viol=[], keys=[])
    try:
        KR = key_renderings(kind, slotcfg)
        for idx, h, partner in items:
            keys = KR[idx % len(KR)]; lr = (idx // len(KR)) % LINE_R
            os.environ["HOME"] = os.path.join(base, "home")
            rp = Replay(C, kind, base, keys, lr, idx)
            slots = SLOTS[slotcfg]
            replay = dict(kind=kind, keys=[repr(k) for k in keys], line_rendering=lr, history=h)
            out["cases"] += 1
            bad = rp.run(h, slots)
            if bad:
                out["viol"].append((bad[0], "%s, keys %s: %s   history: %s" % (kind, _short(keys), bad[1], show(h[:bad[2]])), replay)); continue
            # the same OBJECT serves a second history, and (a part) the first again
            rounds = ([("second", partner)] if (idx % 2 == 0 or not quick) else []) + ([("first-again", h)] if idx % 8 == 0 else [])
            for nm, h2 in rounds:
                bad = rp.cleanup()
                if bad:
                    out["viol"].append(("%s:%s" % (kind, bad[0]), "%s, keys %s: after the history [%s] everything is removed through the public interface: %s" % (kind, _short(keys), show(h), bad[1]), replay)); break
                out["cases"] += 1
                bad = rp.run(h2, slots)
                if bad:
                    # the history's own failure (reported where it runs first) or something the object carried over?
                    for cm in rp.hs:
                        try:
                            with cm: pass
                        except Exception: pass
                    rp = Replay(C, kind, base, keys, lr, idx)
                    if rp.run(h2, slots) is None:
                        out["viol"].append(("%s:state-carried-over" % bad[0], "%s, keys %s: the same cacher object, after the history [%s] and removing everything: %s   %s history: %s   (on a new object this history runs as specified)" % (
                            kind, _short(keys), show(h), bad[1], nm, show(h2[:bad[2]])), dict(replay, second=h2)))
                    break
            for cm in rp.hs:
                try:
                    with cm: pass
                except Exception: pass
    finally:
        CM.time = old_time
        if old_home is None: os.environ.pop("HOME", None)
        else: os.environ["HOME"] = old_home
    out["wall"] = time.time() - t0
    return out


def _short(keys): return "(" + ", ".join(repr(k) if len(repr(k)) < 24 else repr(k)[:10] + "...%d chars" % len(k) for k in keys) + ")"


def run(ctx):
    import multiprocessing as mp
    rng = random.Random(ctx.seed)
    CF = configs(ctx)

    # ---- 1. TLC: the design, its guards, the histories ----
    def tlc_job(job):
        name, sub, sim, depth = job
        cfg = tracecheck._cfg("CacheMap.cfg", sub, ctx.scratch, "cm_%s.cfg" % name)
        if name.startswith("guard-"): return name, tlc.run("MC_CacheMap", cfg, ctx.scratch, workers=1, timeout=900, heap="1g", continue_=True)
        if sim: return name, tlc.run("MC_CacheMap", cfg, ctx.scratch, workers=2, timeout=1500, heap="3g", simulate=dict(num=sim), depth=depth + 1, seed=ctx.seed, coverage=True)
        return name, tlc.run("MC_CacheMap", cfg, ctx.scratch, workers=ctx.pick(2, 3), timeout=3000, heap="6g", coverage=True)
    jobs = [(c["name"], c["sub"], c["sim"], c["depth"]) for c in CF]
    for g, kind, sub, _ in GUARDS:
        s = dict(sub); s['Variant = "ok"'] = 'Variant = "%s"' % g; s["Kinds <- KMem"] = "Kinds <- %s" % kind; s["MaxOps = 3"] = "MaxOps = 2"
        jobs.append(("guard-" + g, s, None, 0))
    with ThreadPoolExecutor(max_workers=4) as ex:
        results = dict(ex.map(tlc_job, jobs))
    for g, kind, _, expect in GUARDS:
        r = results["guard-" + g]; ctx.add_tlc("CacheMap guard " + g, r)
        names = {v["name"] for v in r.violations}
        if not (names & expect):
            raise RuntimeError("the broken design %r is not rejected by any of %s (got %s): the invariants are vacuous" % (g, sorted(expect), sorted(names)))
    ctx.extra["guards_rejected"] = {g: sorted({v["name"] for v in results["guard-" + g].violations}) for g, _, _, _ in GUARDS}
    cov = {a: 0 for a in ACTIONS}
    hists = {}
    for c in CF:
        r = results[c["name"]]; ctx.add_tlc("CacheMap " + c["name"], r)
        for v in r.violations:
            ctx.violation("spec:%s" % (v["name"] or v["kind"]), "CacheMap.tla (%s) itself violates %s" % (c["name"], v["name"]), v["trace"][:60])
        for ln in r.out.splitlines():
            m = _COV.match(ln)
            if m and m.group(1) in cov: cov[m.group(1)] += int(m.group(3))
        seen = {}
        for j in r.json:
            if isinstance(j, dict) and "kind" in j and isinstance(j.get("h"), list) and len(j["h"]) == c["depth"]:
                h = j["h"]
                seen.setdefault((j["kind"], json.dumps([(s["op"], s["k"], s["a"], s["w"]) for s in h], sort_keys=True)), h)
        for kind in c["kinds"]:
            H = [seen[k] for k in sorted(seen) if k[0] == kind]
            if len(H) < 20: raise RuntimeError("CacheMap %s produced only %d histories for %s" % (c["name"], len(H), kind))
            hists[(c["name"], kind)] = H
        if not c["sim"]: ctx.exhaustive = True if ctx.exhaustive is None else ctx.exhaustive
    missing = [a for a in ACTIONS if cov[a] == 0]
    if missing: raise RuntimeError("vacuous: actions never taken by TLC: %s" % missing)
    ctx.extra["tlc_action_coverage"] = cov
    ctx.extra["histories"] = {"%s:%s" % k: len(v) for k, v in hists.items()}

    # ---- 2. every history on the real cacher of its kind ----
    # the value table of the spec travels inside the histories: a get_set step carries the lines of its value (`vl`)
    batches = []
    replayed_ops = {a: 0 for a in ACTIONS}
    nb = 0
    for c in CF:
      for kind in c["kinds"]:
        H = hists[(c["name"], kind)]
        partner = H[:]; rng.shuffle(partner)
        items = []
        for idx, h in enumerate(H):
            for s in h: replayed_ops[OPNAME[s["op"]]] += 1
            items.append((idx, h, partner[idx]))
            ctx.case((c["name"], kind, show(h)))
        size = 250 if kind in ("disk", "cdisk") else 1500
        for j in range(0, len(items), size):
            nb += 1
            batches.append(("%s:%s" % (c["name"], kind), (kind, c["slot"], os.path.join(ctx.scratch, "w%d" % nb), items[j:j + size], ctx.quick)))
        mid = H[len(H) // 2]
        ctx.sample(dict(config=c["name"], kind=kind, history=show(mid), expected=[(s["obs"]["r"], s["obs"]["x"], s["obs"]["lines"]) for s in mid]), limit=10)
    unexercised = [a for a in ACTIONS if replayed_ops[a] == 0]
    if unexercised: raise RuntimeError("vacuous: actions never replayed: %s" % unexercised)
    ctx.extra["replayed_steps_per_action"] = replayed_ops
    for b in batches: os.makedirs(b[1][2], exist_ok=True)
    for kind, slotcfg in sorted({(k, c["slot"]) for c in CF for k in c["kinds"]}): key_renderings(kind, slotcfg)      # observed once, inherited by the workers
    mpctx = mp.get_context("fork")
    with mpctx.Pool(8) as pool:
        outs = pool.map(replay_batch, [b[1] for b in batches], chunksize=1)
    total = 0; walls = {}
    for (cname, job), o in zip(batches, outs):
        total += o["cases"]; walls[cname] = round(walls.get(cname, 0) + o["wall"], 2)
        for sig, what, replay in o["viol"]:
            ctx.violation(sig, what, dict(replay, config=cname))
    ctx.traces += total
    ctx.evaluations = total
    ctx.extra["replays"] = total
    ctx.extra["replay_cpu_seconds"] = walls

    # ---- 3. the binding is not vacuous: one field of one generated history corrupted must be noticed ----
    c0 = next(c for c in CF if c["name"].startswith("values") and "disk" in c["kinds"])
    h = next(h for h in hists[(c0["name"], "disk")] if h[0]["op"] == "getset" and h[0]["obs"]["r"] == "ok" and h[0]["obs"]["lines"] and h[-1]["op"] == "getset")
    bad_h = json.loads(json.dumps(h)); bad_h[0]["obs"]["lines"] = bad_h[0]["obs"]["lines"][:-1] + ["corrupted"]
    bad_h2 = json.loads(json.dumps(h)); bad_h2[0]["post"]["files"]["d1"][h[0]["k"]] = {"t": "absent", "v": []}
    os.makedirs(os.path.join(ctx.scratch, "wc"), exist_ok=True)
    for nm, hh in (("observation", bad_h), ("state", bad_h2)):
        o = replay_batch(("disk", c0["slot"], os.path.join(ctx.scratch, "wc"), [(0, hh, hh)], None))
        if not o["viol"]: raise RuntimeError("a corrupted %s of a generated history was not noticed by the replay: the binding is vacuous" % nm)
    ctx.extra["corrupted_history_noticed"] = True
    ctx.assumptions += [
        "one thread; the ConcurrentCacher gets a plain list as lock table and its default lock; coba.context.cachers.time.sleep is replaced - a sleep inside a lock loop is a hang verdict (nobody else exists who could release)",
        "values are sequences of text lines without line breaks inside a line (a trailing \\n or \\r\\n given with a line is a terminator, not content); DiskCacher hands lines back with exactly one \\n, the memory kinds as given",
        "get_set(key, None) is used only as the get of a present key; a getter of None for an absent key is not specified",
        "keys: str for the disk kinds (alnum, blank, dot, underscore incl. empty, '.', '..', unicode letters / digits, up to 251 characters), any hashable for the memory kinds; keys that differ only in case are not explored; a key longer than the file system allows may raise OSError instead of CobaException",
        "a file name is what DiskCacher itself gives to the key (observed in a throw-away directory); a foreign file is a zero-length file or a real entry cut at any byte / the text 'abcd' under that name",
        "entries removed while a context manager on them is open (plain kinds): what that context manager then yields is not specified; NullCacher with a generator that raises half-way is not specified (the generator is handed through unconsumed)",
        "directories: a not yet existing nested path given as str / Path and '~/..' with HOME pointing into the scratch directory"]
