"""C11 - Scale and Impute apply exactly the statistics of their fitting window: spec/ScaleImpute.tla.

TLC enumerates data sets (feature columns over None / NaN / absent key / small integers / strings, 1-2 features,
dense / sparse / scalar contexts), every shift / scale / statistic choice (single statistics and lists of two) and every
`using` window, and computes - in exact rational arithmetic, in TLA+ - the contexts the filters must produce.  Each case
is replayed into the real coba.environments.filters.Scale / Impute and into Environments.scale / Environments.impute,
with the numbers given as Python ints and as floats; the produced contexts are compared cell by cell with the spec's
(1e-9), every other field of every interaction by equality, the number and order of interactions by a per-row tag.
Every filter object (and every Environments object, built with one environment per sequence) is then applied to a
second, different sequence - another spec case with the same parameters - and to the first one again; each application
must give the spec's expectation for its own sequence (a filter is a function of the sequence it is given, not of its past).
Python only converts values (rational -> float, model cell -> Python object) and compares."""
import json, math, os
from fractions import Fraction
from .. import tlc, tracecheck

FINISH = dict(level="model_checking",
              rule="a case = one TLC-generated (filter, context layout, data set, parameters, window) replayed into the real "
                   "filter and the Environments method under one numeric representation, followed on the same object by a second spec case "
                   "with the same parameters and by the first one again; distinct = distinct spec cases")

NAN = float("nan")
STR = {1: "s", 2: "t"}


# ---------------------------------------------------------------- conversion (model value -> Python value)
def num(v, rep, i):
    if rep == "int": return v
    if rep == "float": return float(v)
    return v if i % 2 == 0 else float(v)          # "alt": ints on even rows, floats on odd rows


def cell_py(c, rep, i):
    t = c["t"]
    if t == "none": return None
    if t == "nan": return NAN
    if t == "num": return num(c["v"], rep, i)
    if t == "str": return STR[c["v"]]
    raise ValueError(t)


# the rendering of the spec's sparse keys "a", "b" (and of the indicator keys made of them).  None: as they are.  KM31: integer keys whose
# order of first appearance in a context (3 before 1) is neither ascending nor the iteration order of a set of them
KEYMAP = None
KM31 = {"a": 3, "b": 1, "a_is_missing": "3_is_missing", "b_is_missing": "1_is_missing"}
def K(key): return key if KEYMAP is None else KEYMAP.get(key, key)


def context_py(x, rep, i):
    k = x["k"]
    if k == "dense": return tuple(cell_py(c, rep, i) for c in x["v"])
    if k == "sparse": return {K(key): cell_py(c, rep, i) for key, c in x["v"]}
    return cell_py(x["v"][0], rep, i)          # scalar: the context is the value itself


def param_py(p):
    if p["k"] == "const": return p["n"] if p["d"] == 1 else p["n"] / p["d"]
    return p["k"]


def qval(c):
    return float(Fraction(c["n"], c["d"])) / math.sqrt(c["rn"] / c["rd"])


# ---------------------------------------------------------------- comparison
def is_num(g): return isinstance(g, (int, float)) and not isinstance(g, bool)


def close(g, e): return is_num(g) and not math.isnan(g) and abs(g - e) <= 1e-9 * max(1.0, abs(e))


def cell_ok(g, e, rep, i, chosen, pos):
    """does the produced value g agree with the expected model cell e?"""
    t = e["t"]
    if t == "free": return True          # the property does not determine this cell (a statistic that cannot be computed)
    if t == "none": return g is None
    if t == "nan": return isinstance(g, float) and math.isnan(g)
    if t == "str": return isinstance(g, str) and g == STR[e["v"]]
    if t == "num": return close(g, e["v"])
    if t == "q": return close(g, qval(e))
    if t == "oneof":            # a tie between modes may be broken either way, but the same way for the whole feature
        for alt in sorted(e["vs"], key=lambda a: (a["t"], a["v"])):
            if cell_ok(g, alt, rep, i, chosen, pos):
                key = (alt["t"], alt["v"])
                if chosen.setdefault(pos, key) != key: return False
                return True
        return False
    raise ValueError(t)


def describe(g):
    if g is None: return "none"
    if isinstance(g, float) and math.isnan(g): return "nan"
    if isinstance(g, str): return "str"
    if is_num(g): return "num"
    return type(g).__name__


def compare_context(got, exp, rep, i, chosen):
    """None when equal, else (position, expected cell or None, got value) of the first disagreement."""
    from coba import primitives
    k = exp["k"]
    if k == "dense":
        if not isinstance(got, primitives.Dense) or isinstance(got, str): return ("layout", None, got)
        for j, e in enumerate(exp["v"][:len(got)]):
            if not cell_ok(got[j], e, rep, i, chosen, j): return (j, e, got[j])
        if len(got) != len(exp["v"]): return ("layout", None, list(got))
        return None
    if k == "sparse":
        if not isinstance(got, primitives.Sparse): return ("layout", None, got)
        want = dict((K(key), e) for key, e in exp["v"])
        for key in sorted(set(want) | set(got.keys()), key=str):
            if key not in want:                                  # an absent key is the value 0
                if not (is_num(got[key]) and got[key] == 0): return (key, None, got[key])
            elif key not in got.keys():
                e = want[key]
                if not cell_ok(0, e, rep, i, chosen, key): return (key, e, "absent")
            elif not cell_ok(got[key], want[key], rep, i, chosen, key): return (key, want[key], got[key])
        return None
    from coba import primitives as P
    if isinstance(got, (P.Dense, P.Sparse)) and not isinstance(got, str): return ("layout", None, got)
    return None if cell_ok(got, exp["v"][0], rep, i, chosen, 0) else (0, exp["v"][0], got)


# ---------------------------------------------------------------- replay
class Src:
    def __init__(self, rows): self._rows = rows
    @property
    def params(self): return {}
    def read(self): return iter(self._rows)


def make_rows(case, rep):
    from coba.primitives import SimulatedInteraction
    rows = []
    for i, x in enumerate(case["given"]):
        rows.append(SimulatedInteraction(context_py(x, rep, i), [1, "b", (0, 1)], [i, 0.5, -1], tag=("row", i)))
    return rows


def make_reader(case, api, seqs):
    """ONE filter object (api 'filter') or ONE Environments object holding one environment per sequence (Environments.filter
    hands a single filter object to all of them).  Returns read(k): the filtered k-th sequence."""
    from coba.environments import Environments
    from coba.environments.filters import Scale, Impute
    using = case["using"] or None
    if case["f"] == "scale":
        sh, sc = param_py(case["par"]["sh"]), param_py(case["par"]["sc"])
        if api == "filter":
            flt = Scale(sh, sc, "context", using)
            return lambda k: flt.filter(seqs[k])
        envs = Environments(*[Src(rows) for rows in seqs]).scale(sh, sc, "context", using)
        return lambda k: envs[k].read()
    stats, ind = case["par"]["stats"], case["par"]["ind"]
    if api == "filter":
        flt = Impute(stats[0], ind, using)
        return lambda k: flt.filter(seqs[k])
    envs = Environments(*[Src(rows) for rows in seqs]).impute(stats[0] if len(stats) == 1 and api == "env" else list(stats), ind, using)
    return lambda k: envs[k].read()


def col_traits(case, j):
    """facts about feature column j of the input that name the class of a failing case"""
    col = case["cols"][j]; n = len(col); u = case["using"] or n
    win, rest = col[:u], col[u:]
    tr = []
    ts = lambda cs: {c["t"] for c in cs}
    if "nan" in ts(win): tr.append("nan-in-window")
    if "str" in ts(win) and "num" in ts(win): tr.append("mixed-window")
    elif "str" in ts(win): tr.append("string-feature")
    if "str" in ts(rest) and "str" not in ts(win): tr.append("string-after-window")
    if col[0]["t"] == "none": tr.append("missing-first")
    if "none" in ts(col[1:u]): tr.append("missing-in-window")
    if "none" in ts(rest): tr.append("missing-after-window")
    if all(c["t"] in ("none", "nan") for c in win): tr.append("empty-window")
    if win and all(c["t"] == "abs" for c in win): tr.append("key-absent-in-window")
    elif col[0]["t"] == "abs": tr.append("key-absent-first")
    return tr


def feature_of(case, pos):
    """feature column index for a context position (dense index / sparse key / scalar 0), None for added features"""
    if isinstance(pos, int): return pos if pos < len(case["cols"]) else None
    return {K("a"): 0, K("b"): 1}.get(pos)


def contexts_differ(out, expected, rep):
    chosen = {}
    for i, o in enumerate(out):
        d = compare_context(o["context"], expected[i], rep, i, chosen)
        if d is not None: return i, d
    return None


def judge(case, rep, api, rows, keep, produce):
    """Compare what `produce()` yields for one sequence with the spec's expectation.  None or (kind, detail, at, text)."""
    out = []
    try:
        for o in produce(): out.append(o)
    except Exception as e:
        return ("raises", type(e).__name__, len(out), "%s: %s after %d of %d interactions" % (type(e).__name__, str(e)[:100], len(out), len(rows)))
    if len(out) != len(rows):
        return ("count", "", None, "%d interactions in, %d out" % (len(rows), len(out)))
    for i, (o, r) in enumerate(zip(out, keep)):
        if set(o.keys()) != set(r.keys()):
            return ("fields", "keys", None, "interaction %d has fields %s, had %s" % (i, sorted(o.keys()), sorted(r.keys())))
        for k in r:
            if k == "context": continue
            same = o[k] == r[k] and type(o[k]) == type(r[k])
            if not same and k == "rewards" and api != "filter" and callable(o[k]):
                # the Environments pipeline ends with Finalize, which wraps the reward list (not the filter under test)
                same = [o[k](a) for a in r["actions"]] == r[k]
            if not same:
                return ("fields", k, None, "interaction %d: field %r changed from %r to %r" % (i, k, r[k], o[k]))
    bad = contexts_differ(out, case["expected"], rep)
    if bad is not None and any(contexts_differ(out, alt, rep) is None for alt in case.get("alts", ())): bad = None
    if bad is not None:
        i, (pos, e, g) = bad
        return ("differs", (pos, e, g, i), None, "interaction %d, position %r: expected %s, got %r (context %r -> %r)" % (
            i, pos, json.dumps(e) if e else "nothing / another layout", g, keep[i]["context"], out[i]["context"]))
    return None


def replay(ctx, case, rep, api, partner=None, reread=False):
    """One filter object / one Environments object applied to the case's sequence, then (partner) to a second, different
    sequence with the same parameters, then (reread) to the first sequence once more.  Every application is compared with
    the spec's expectation for ITS OWN sequence.  Returns None or (step, kind, detail, at, text)."""
    data = [case] + ([partner] if partner is not None else [])
    seqs = [make_rows(c, rep) for c in data]                 # the very same interaction objects are read again by `reread`
    keeps = [[dict(r) for r in rows] for rows in seqs]
    try:
        read = make_reader(case, api, seqs)
    except Exception as e:
        return (0, "raises", type(e).__name__, None, "%s: %s while building the filter" % (type(e).__name__, str(e)[:100]))
    for step, k in enumerate([0] + ([1] if partner is not None else []) + ([0] if reread else [])):
        res = judge(data[k], rep, api, seqs[k], keeps[k], lambda: read(k))
        if res is not None: return (step,) + res
    return None


class _Stats:
    coverage = {}
    def __init__(self, r): self.distinct, self.generated, self.depth, self.wall = r.distinct, r.generated, r.depth, r.wall


def job(args):
    """One independent slice of the case space (family x row counts), run in a forked worker: TLC generates the cases,
    every case is replayed.  Returns only what the parent needs (counts, TLC statistics, failing cases)."""
    name, fam, lo, hi, quick, scratch, subst = args
    sub = dict(subst); sub['Family = "scale1d"'] = 'Family = "%s"' % fam
    sub["MinRows = 1"] = "MinRows = %d" % lo; sub["MaxRows = 3"] = "MaxRows = %d" % hi
    if not quick and hi <= 3 and fam.startswith("scale"): sub["NumsS = {0, 1, 3}"] = "NumsS <- NumsWithNegative"    # a negative number where it is affordable
    cfg = tracecheck._cfg("ScaleImpute.cfg", sub, scratch, "si_%s.cfg" % name)
    r = tlc.run("ScaleImpute", cfg, os.path.join(scratch, name), workers=2 if quick else 3, timeout=1500, heap="6g",
                env={"_JAVA_OPTIONS": "-XX:ParallelGCThreads=2 -XX:CICompilerCount=2"})     # many small JVMs side by side
    if r.violations:
        return dict(name=name, error="the oracle violates its own invariant %s: %s" % (r.violations[0]["name"], r.violations[0]["trace"][:6]))
    cases = [j for j in r.json if isinstance(j, dict) and "expected" in j]
    if len(cases) * 2 != r.distinct or not cases:
        return dict(name=name, error="%d cases printed for %d states" % (len(cases), r.distinct))
    st = _Stats(r); del r
    for c in cases: c["_k"] = json.dumps(c, sort_keys=True)
    cases.sort(key=lambda c: (len(c["given"]), len(c["cols"]), c["_k"]))
    for c in cases: del c["_k"]
    # numbers as ints and as floats (thorough: also ints and floats alternating by row)
    reps = {a: ("int", "float") if quick else ("int", "float", "alt") for a in ("filter", "env", "envlist")}
    if quick: reps["env"] = reps["envlist"] = ("int",)     # quick: floats go through the bare filters only (Environments wraps the same filter)
    # the second sequence of a case: another case of the same filter, layout, parameters and window (so both expectations
    # come from the spec), picked at a varying distance in the sorted group
    groups = {}
    for i, c in enumerate(cases): groups.setdefault(json.dumps([c["par"], c["using"], c["shape"]], sort_keys=True), []).append(i)
    partner = {}
    for g in groups.values():
        n = len(g)
        for x, i in enumerate(g):
            if n > 1: partner[i] = g[(x + 1 + (x * 5) % (n - 1)) % n]
    global KEYMAP
    replays = 0; applications = 0; viol = []; seen = {}
    def report(c, rep, api, sig, text, extra):
        seen[sig] = seen.get(sig, 0) + 1
        if seen[sig] <= 3:
            what = "%s %s(%s, using=%r) [%s, numbers as %s]: %s" % (c["shape"], c["f"], json.dumps(c["par"]), c["using"] or None, api, rep, text)
            viol.append((sig, what, dict(case=c, rep=rep, api=api, **extra)))
        else:
            viol.append((sig, None, None))
    for i, c in enumerate(cases):
        has_num = any(x["t"] == "num" for col in c["cols"] for x in col)
        apis = ("filter", "env") if len(c["par"].get("stats", [1])) == 1 else ("envlist",)
        p = cases[partner[i]] if i in partner else None
        reread = not quick or i % 4 == 0                           # quick: the first sequence is read again for every 4th case
        for api in apis:
            for rep, km in [(r, None) for r in reps[api]] + ([("int", KM31)] if c["shape"] == "sparse" and has_num else []):
                KEYMAP = km
                if rep != "int" and not has_num and not (p and any(x["t"] == "num" for col in p["cols"] for x in col)): continue
                replays += 1; applications += 1 + (p is not None) + reread
                res = replay(None, c, rep, api, p, reread)
                if res is None: continue
                step, kind, detail, at, text = res
                if step == 0:
                    if kind == "raises" and api == "env":     # the pipeline buffers: locate the failing interaction with the bare filter
                        loc = replay(None, c, rep, "filter")
                        if loc is not None and loc[1] == "raises": at = loc[3]
                    report(c, rep, api, classify(c, rep, api, kind, detail, at) + (":keys=3,1" if km else ""), text, dict(keys=km) if km else {})
                    continue
                # a later application failed: is it the sequence itself (reported where it comes first) or the object's history?
                if step == 1 and p is not None and replay(None, p, rep, api) is not None: continue
                again = step == 2 or p is None
                sig = "%s:%s:reused-object:%s%s" % (c["f"], "filter" if api == "filter" else "environments", "first-sequence-again" if again else "second-sequence", ":keys=3,1" if km else "")
                text = "the same %s, after filtering %r, applied to %s: %s" % (
                    "filter object" if api == "filter" else "Environments object (one environment per sequence)",
                    [context_py(x, rep, k) for k, x in enumerate(c["given"])],
                    "the first sequence again" if again else "a second sequence %r" % [context_py(x, rep, k) for k, x in enumerate(p["given"])], text)
                report(c, rep, api, sig, text, dict(partner=p, step=step))
    KEYMAP = None
    return dict(name=name, stats=st, ncases=len(cases), replays=replays, applications=applications, viol=viol, sample=cases[len(cases) // 2])


def run(ctx):
    from ..core import MachineryError
    import multiprocessing
    from concurrent.futures import ProcessPoolExecutor
    import coba.environments, coba.environments.filters, coba.primitives      # imported before the workers are forked
    one = ["scale1d", "scale1v", "scale1s", "impute1d", "impute1v", "impute1s"]; two = ["scale2", "impute2"]
    if ctx.quick:
        subst = {}
        jobs = [(f + u[0], f, 1, 3, u[1]) for f in one for u in (("_w01", "{0, 1}"), ("_w25", "{2, 5}"))] + [(f, f, 2, 2, None) for f in two]
    else:
        subst = {"Lite = TRUE": "Lite = FALSE"}
        jobs = [("%s_%d" % (f, hi), f, lo, hi, "{0, 1, 2, 5}") for f in one for lo, hi in ((4, 4), (1, 3))] + [("%s_%d" % (f, n), f, n, n, None) for f in two for n in (3, 2)]
    args = [(name, fam, lo, hi, ctx.quick, ctx.scratch, dict(subst, **({"Usings = {0, 1, 2}": "Usings = " + us} if us else {}))) for name, fam, lo, hi, us in jobs]
    total = 0; applications = 0
    with ProcessPoolExecutor(ctx.pick(14, 12), mp_context=multiprocessing.get_context("fork")) as ex:
        for n, out in enumerate(ex.map(job, args)):         # results are consumed in the fixed order of `jobs`
            if "error" in out: raise MachineryError("job %s: %s" % (out["name"], out["error"]))
            ctx.add_tlc("ScaleImpute:" + out["name"], out["stats"])
            for i in range(out["ncases"]): ctx.case((n, i))
            ctx.evaluations += out["replays"] - out["ncases"]; ctx.traces += out["replays"]; applications += out["applications"]
            ctx.sample(out["sample"], limit=8)
            for sig, what, obj in out["viol"]: ctx.violation(sig, what or "", obj)
            total += out["ncases"]
    ctx.exhaustive = True
    ctx.extra["spec_cases"] = total
    ctx.extra["filter_applications"] = applications
    ctx.extra["bounds"] = dict(jobs=[j[0] for j in jobs], rows_one_feature=ctx.pick(3, 4), rows_two_features=ctx.pick(2, 3))
    ctx.assumptions += [
        "floats: produced values are compared with the spec's exact rationals to 1e-9 (relative); rounding, overflow and values within 1e-6 of a zero spread are not explored",
        "outside the domain (spec InDomain): a non-zero shift for sparse contexts, NaN in Impute data; cells whose statistic cannot be computed from the window (no non-missing value, std of < 2 values, median of strings) are accepted with any value unless shift and scale are both given numbers; a non-imputable feature with a None in the window may or may not get an indicator",
        "two-feature data sets pair an arbitrary column with one of four fixed companion columns (both orders)",
        "through Environments.scale / impute the trailing Finalize step of the pipeline is trusted (it wraps the reward list)",
    ]


def classify(case, rep, api, kind, detail, at):
    """A short stable name for the class of a failing case.  The classes follow the places in the code that can
    fail independently (the shared fitting helpers, the per-layout apply loops, Environments.impute), so that one
    known defect maps to one signature and anything else keeps its own."""
    f, shape, par, cols = case["f"], case["shape"], case["par"], case["cols"]
    generic = "%s:%s:%s%s" % (f, shape, kind, ":" + detail if kind == "raises" else "")
    traits = [col_traits(case, j) for j in range(len(cols))]
    if kind == "differs":
        pos, e, g, i = detail
        j = feature_of(case, pos)
        blamed = [j] if j is not None else list(range(len(cols)))
    else:
        blamed = list(range(len(cols))); j = None
    if f == "scale":
        if kind == "differs" and j is not None and "empty-window" in traits[j] and par["sh"]["k"] == "const" and par["sc"]["k"] == "const":
            return "scale:given-numbers:no-value-in-window"
        if any("nan-in-window" in traits[b] for b in blamed): return "scale:nan-in-window"
        if kind == "raises" and detail == "TypeError" and at is not None and at < len(cols[0]):
            row = [c[at]["t"] for c in cols]                # the interaction that was being transformed
            for t in row:
                if t == "none": return "scale:%s:raises-on-missing" % shape
                if t == "str": return "scale:%s:raises-on-string" % shape
        if kind == "differs" and j is not None:
            unscaled = is_num(g) and g == cell_py(cols[j][i], rep, i) if cols[j][i]["t"] == "num" else False
            if unscaled and cols[j][0]["t"] == "none" and shape != "scalar": return "scale:%s:first-missing-unscaled" % shape
            if unscaled and "key-absent-in-window" in traits[j]: return "scale:sparse:key-absent-in-window-unscaled"
            if unscaled and par["sc"]["k"] == "maxabs" and rep != "int": return "scale:maxabs-int-shift-float-values"
        return generic
    stats = par["stats"]
    if api == "envlist" and par["ind"] and kind == "differs" and (j is None):
        return "impute:env-list:indicator"                       # an added (indicator) position or the layout of a list with indicator=True
    if api == "envlist" and stats[0] != stats[1] and kind in ("differs", "raises"): return "impute:env-list-only-last-statistic"
    if kind == "raises" and detail == "KeyError" and shape == "sparse": return "impute:sparse:raises-KeyError"
    if kind == "differs":
        first_missing = [b for b in blamed if cols[b][0]["t"] == "none"]
        if first_missing and stats[-1] in ("mean", "median") and shape != "scalar":
            if j is None or (g is None and cols[j][i]["t"] == "none"): return "impute:%s:first-missing-not-imputed" % shape
    return generic
