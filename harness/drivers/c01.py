"""C01 - results do not depend on the execution configuration: spec/ExperimentLog.tla, ExpPlan.tla,
ExperimentLogTrace.tla.

1. TLC checks ExperimentLog.tla without crashes over shapes x all configurations (in-process, several
   workers, maxtasksperchunk): for every interleaving of workers and sink the decoded log equals
   Canonical(shape) (every key exactly once, preamble first, evaluations isolated), and the run completes.
2. Decision table (spec -> code): for every (shape, restored keys, maxtasksperchunk) TLC evaluates
   MakeTasks / ChunkTasks / processing order; the real MakeTasks / ChunkTasks / ProcessTasks are fed
   the same inputs (real Environments with shared chunk() prefixes, a real restored Result) and must
   produce exactly the same task list (ids, copy flags, order), chunks and record order.
3. Code -> spec: real experiments run in-process, in-process a second time (fresh construction), on the
   virtual multi-process layer under many seeded schedules for a grid of (processes, maxchunksperchild,
   maxtasksperchunk), and under real spawn for a few; each run's log is a history validated by TLC against
   ExperimentLogTrace.tla, and its Result (four tables, timing aside, and .experiment) must equal the
   in-process reference cell by cell."""
import os, json, random, sys, subprocess, itertools
from .. import tlc, tracecheck, explib, vmp, vsched

FINISH = dict(level="model_checking",
              rule="a case = one (shape, restored keys, maxtasksperchunk) plan compared with the real MakeTasks/ChunkTasks, or one run of a real experiment under one configuration and one (virtual or OS) schedule; distinct = distinct plans + distinct (shape, cfg, record order)")

SHAPES = [
    dict(tr=[(0, 0, 0), (0, 1, 0), (1, 0, 0), (1, 1, 0)], ch=[1, 1], fail=[]),
    dict(tr=[(0, 0, 0), (0, 0, 1), (1, 1, 0)], ch=[0, 0], fail=[]),
    dict(tr=[(0, 0, 0), (1, 0, 0), (1, 1, 1)], ch=[1, 0], fail=[(1, 0, 0)]),
    dict(tr=[(0, 0, 0), (1, 1, 0), (0, 1, 0)], ch=[1, 2], fail=[]),
    dict(tr=[(0, 0, 0), (0, 0, 1), (0, 1, 1), (1, 1, 0)], ch=[1, 1], fail=[]),
    dict(tr=[(0, 0, 0), (1, 0, 0), (2, 0, 0), (2, 1, 0)], ch=[1, 1, 0], fail=[]),
]


# ---------------------------------------------------------------- optional parts of the Learner interface (`score`)
# `score` is optional: SafeLearner.has_score finds out per learner OBJECT whether it is there, and off-policy evaluators
# depend on the answer (SequentialCB(learn='off', eval='ips') weighs the logged reward by score/probability when the learner
# has one and by its own prediction otherwise; RejectionCB refuses a learner without one = that triple fails, all others are
# unaffected).  Shapes may therefore say which learners lack `score` ("noscore"), which are wrapped in a user class that forwards
# every method to the learner inside ("fwd": objects of ONE class then differ in what they support), and which evaluators are
# the off-policy SequentialCB ("ips") / RejectionCB ("rej", explib).  The triples that fail follow from the rule, not from a list.
class NoScore:
    """A learner without the optional `score`: everything else is the inner learner's."""
    def __init__(self, inner): self.inner = inner
    @property
    def params(self): return dict(self.inner.params, score=False)
    def predict(self, *a, **k): return self.inner.predict(*a, **k)
    def learn(self, *a, **k): return self.inner.learn(*a, **k)
    def finish(self): self.inner.finish()


class Fwd:
    """A user wrapper: every method, `score` included, is forwarded (whether `score` works depends on the object inside)."""
    def __init__(self, inner): self.inner = inner
    @property
    def params(self): return dict(self.inner.params, wrapped=True)
    def score(self, *a, **k): return self.inner.score(*a, **k)
    def predict(self, *a, **k): return self.inner.predict(*a, **k)
    def learn(self, *a, **k): return self.inner.learn(*a, **k)
    def finish(self): self.inner.finish()


class ZeroScore:
    """A learner whose score of every action is 0: RejectionCB accepts none of the logged interactions, so its evaluation is
    complete and has NO rows (what an evaluation yields depends on the learner, not only on the environment)."""
    def __init__(self, inner): self.inner = inner
    @property
    def params(self): return dict(self.inner.params, zero_score=True)
    def score(self, context, actions, action=None): return 0 if action is not None else [0] * len(actions)
    def predict(self, *a, **k): return self.inner.predict(*a, **k)
    def learn(self, *a, **k): return self.inner.learn(*a, **k)
    def finish(self): self.inner.finish()


class VOff:
    """The built-in SequentialCB evaluating off-policy on logged data, behind explib's side channel."""
    def __init__(self, vid, side=None, learn="off"):
        from coba.evaluators import SequentialCB
        self.vid = vid; self.side = side; self.learn = learn
        self.inner = SequentialCB(record=["reward"], learn=learn, eval="ips")     # no action / probability asked for: a learner with `score` is scored, not asked to predict
    @property
    def params(self): return {"vid": self.vid, "kind": "offpolicy", "learn": self.learn}
    def evaluate(self, environment, learner):
        if self.side:
            with open(self.side, "a") as f: f.write(json.dumps([environment.params.get("eid"), learner.params.get("lid"), self.vid]) + "\n")
        for row in self.inner.evaluate(environment, learner):
            row["vid"] = self.vid
            yield row


def shape_fail(shape):
    """The failing triples of a shape: the listed ones, and (rule) every RejectionCB evaluation of a learner without `score`."""
    ns = set(shape.get("noscore", [])); rej = set(shape.get("rej", []))
    return [tuple(t) for t in shape["fail"]] + [tuple(t) for t in shape["tr"] if t[1] in ns and t[2] in rej and tuple(t) not in [tuple(f) for f in shape["fail"]]]


def build(shape, side=None, variant=0, **kw):
    """explib.build + the learner / evaluator kinds above (object identity = the shape's ids, as in explib)."""
    triples = explib.build(shape, side=side, variant=variant, **kw)
    ns = set(shape.get("noscore", [])); fwd = set(shape.get("fwd", [])); ips = {int(k): v for k, v in shape.get("ips", {}).items()}
    zs = set(shape.get("zeroscore", []))
    if not (ns or fwd or ips or zs): return triples
    L = {}; V = {}
    for (e, l, v), (eo, lo, vo) in zip(shape["tr"], triples):
        if l not in L:
            x = NoScore(lo) if l in ns else ZeroScore(lo) if l in zs else lo
            L[l] = Fwd(x) if l in fwd else x
        if v not in V: V[v] = VOff(v, side=side, learn=ips[v]) if v in ips else vo
    return [(eo, L[l], V[v]) for (e, l, v), (eo, lo, vo) in zip(shape["tr"], triples)]


# learners of one (wrapper) class that differ in `score`, in both orders, under the off-policy SequentialCB and RejectionCB;
# a learner without `score` that is not wrapped next to one with; learn='ips' next to learn='off'
_G = [dict(p=2, mc=0, mt=0), dict(p=1, mc=1, mt=0), dict(p=2, mc=1, mt=1), dict(p=1, mc=2, mt=2)]
SCORE_SHAPES = [
    dict(tr=[(0, 0, 0), (0, 1, 0), (0, 0, 1), (0, 1, 1)], ch=[0], fail=[], noscore=[0], fwd=[0, 1], ips={0: "off"}, rej=[1], logged=[0], n_int=30, grid=_G),
    dict(tr=[(0, 0, 0), (0, 1, 0), (1, 0, 1), (1, 1, 1)], ch=[0, 0], fail=[], noscore=[1], fwd=[0, 1], ips={0: "off"}, rej=[1], logged=[0, 1], nact={1: 2}, n_int=30, grid=_G),
    dict(tr=[(0, 0, 0), (0, 1, 0), (0, 2, 0), (0, 2, 1)], ch=[1], fail=[], noscore=[0, 2], fwd=[1, 2], ips={0: "off", 1: "ips"}, logged=[0], n_int=30, grid=_G),
    # an evaluation WITHOUT rows (RejectionCB accepts nothing of a learner whose scores are all 0) listed before one with rows, on a
    # chunked environment, under chunkings that keep the two tasks together (mt=0, the in-process reference) and apart (mt=1)
    dict(tr=[(0, 0, 0), (0, 1, 0), (0, 2, 0)], ch=[1], fail=[], zeroscore=[0], rej=[0], logged=[0], n_int=30,
         grid=[dict(p=1, mc=0, mt=1), dict(p=2, mc=0, mt=1), dict(p=1, mc=1, mt=2), dict(p=2, mc=1, mt=0)]),
]


def spec_runs(ctx):
    sub = {"Shapes <- QuickShapes": "Shapes <- %s" % ctx.pick("C01QuickShapes", "ThoroughShapes"),
           "Cfgs <- QuickCfgs": "Cfgs <- ThoroughCfgs", "MaxCrash = 2": "MaxCrash = 0"}
    cfg = tracecheck._cfg("ExperimentLog_mc.cfg", sub, ctx.scratch, "explog_c01.cfg")
    r = tlc.run("MC_ExperimentLog", cfg, ctx.scratch, workers=16, coverage=True, timeout=4 * 3600, heap="24g")
    ctx.add_tlc("ExperimentLog_mc(no crash, all cfgs)", r, required_actions=["Start", "Take", "Emit", "Begin", "WriteCell", "Finish"])
    for v in r.violations:
        ctx.violation("spec:%s" % (v["name"] or v["kind"]), "ExperimentLog.tla itself violates %s %s" % (v["kind"], v["name"]), v["trace"][:80])


def fake_restored(keys, d):
    """A real restored Result holding exactly the given record keys."""
    from coba.results import Result
    lines = ['["version",4]', '["experiment",{}]']
    for k in keys:
        if k[0] in "ELV": lines.append(json.dumps([k[0], k[1], {"p": 1}]))
        else: lines.append(json.dumps(["I", list(k[1:]), {"_packed": {"reward": [1]}}]))
    f = os.path.join(d, "restored.log"); open(f, "w").write("\n".join(lines) + "\n")
    return Result.from_file(f)


def plan_checks(ctx):
    from coba.experiments.process import MakeTasks, ChunkTasks, ProcessTasks
    cfg = tracecheck._cfg("ExpPlan.cfg", {"PlanShapes <- PlanQuick": "PlanShapes <- %s" % ctx.pick("PlanQuick", "PlanThorough")}, ctx.scratch, "plan.cfg")
    r = tlc.run("ExpPlan", cfg, ctx.scratch, workers=16, timeout=3600, heap="8g")
    ctx.add_tlc("ExpPlan", r)
    cases = [j for j in r.json if isinstance(j, dict) and "tasks" in j]
    if len(cases) < 100: raise RuntimeError("ExpPlan produced only %d cases" % len(cases))
    d = os.path.join(ctx.scratch, "plan"); os.makedirs(d, exist_ok=True)
    ctx.sample(cases[len(cases) // 2], limit=1)
    for c in cases:
        shape = dict(tr=[tuple(t) for t in c["tr"]], ch=c["ch"], fail=[])
        triples = explib.build(shape, n_int=2)
        eid = {}; lid = {}; vid = {}
        for (e, l, v), (eo, lo, vo) in zip(shape["tr"], triples): eid[id(eo)] = e; lid[id(lo)] = l; vid[id(vo)] = v
        restored = fake_restored([tuple(k) for k in c["R"]], d) if c["R"] else None
        def tj(t): return [eid[id(t.env)] if t.env is not None else -1, lid[id(t.lrn)] if t.lrn is not None else -1, vid[id(t.val)] if t.val is not None else -1, 1 if t.copy else 0]
        tasks = list(MakeTasks(triples, restored).read())
        got_tasks = [tj(t) for t in tasks]
        ids_ok = all((t.env_id if t.env is not None else -1, t.lrn_id if t.lrn is not None else -1, t.val_id if t.val is not None else -1) == tuple(tj(t)[:3]) for t in tasks)
        chunks = [list(ch) for ch in ChunkTasks(c["mt"]).filter(tasks)]
        got_chunks = [[tj(t) for t in ch] for ch in chunks]
        ctx.case(json.dumps([c["tr"], c["ch"], c["R"], c["mt"]]))
        if got_tasks != c["tasks"] or not ids_ok:
            ctx.violation("plan-tasks", "MakeTasks differs from the specification: got %s expected %s (ids consistent: %s)" % (got_tasks, c["tasks"], ids_ok), c); continue
        if got_chunks != c["chunks"]:
            ctx.violation("plan-chunks", "ChunkTasks differs from the specification: got %s expected %s" % (got_chunks, c["chunks"]), c); continue
        # processing order inside each chunk, observed through the records ProcessTasks yields
        explib.quiet_ctx()
        for ch, exp in zip(chunks, c["order"]):
            if len(ch) < 2: continue
            recs = []
            for t in ProcessTasks().filter(ch):
                recs.append([{"T1": "E", "T2": "L", "T3": "V"}[t[0]], t[1]] if t[0] != "T4" else ["I"] + list(t[1]))
            if recs != exp:
                ctx.violation("plan-order", "ProcessTasks handles a chunk in a different order: got %s expected %s" % (recs, exp), c); break
    ctx.extra["plan_cases"] = len(cases)


def run_cfg(shape, cfg, policy, d, variant=0):
    """One real run under the virtual layer. -> (digest, run-record for the trace, verdict)"""
    from coba.experiments import Experiment
    f = os.path.join(d, "run.log"); side = os.path.join(d, "side.txt")
    for x in (f, side):
        if os.path.exists(x): os.remove(x)
    open(side, "w").close()
    def go():
        explib.quiet_ctx()
        return Experiment(build(shape, side=side, variant=variant)).run(f, quiet=True, processes=cfg["p"], maxchunksperchild=cfg["mc"], maxtasksperchunk=cfg["mt"], seed=shape.get("seed", 1))
    if cfg["p"] == 1 and cfg["mc"] == 0:
        out = {"value": go(), "verdict": "ok"}
    else:
        out, s = vmp.run_scheduled(go, policy)
    if out["verdict"] != "ok" or "error" in out:
        return None, None, out["verdict"] if out["verdict"] != "ok" else "raised %r" % (out.get("error"),)
    keys = [k for k, _ in explib.log_records(open(f).read().splitlines())]
    evals = [["I"] + json.loads(l) for l in open(side).read().splitlines()]
    run = dict(cfg=dict(p=min(cfg["p"], 3), mt=cfg["mt"], ip=(cfg["p"] == 1 and cfg["mc"] == 0)), recs=keys, evals=evals, end="done", torn=0, tornk=["none"], nrep=-1)
    return explib.result_digest(out["value"]), run, "ok"


REAL = r"""
import sys, json
sys.path.insert(0, %r)
from harness import explib
from harness.drivers.c01 import build
from coba.experiments import Experiment
if __name__ == '__main__':
    shape, cfg, f, side, variant = json.loads(sys.argv[1])
    explib.quiet_ctx()
    res = Experiment(build(shape, side=side, variant=variant)).run(f, quiet=True, processes=cfg['p'], maxchunksperchild=cfg['mc'], maxtasksperchunk=cfg['mt'], seed=shape.get('seed', 1))
    print(json.dumps(explib.result_digest(res)))
"""


def forms_checks(ctx, d):
    """The ways an experiment can be written down and configured: a cross product of environments, learners and
    evaluators IS the list of its triples in product order (environment-major); a pair without evaluator IS the triple with a
    SequentialCB() of its own; config(...) IS the same as passing the numbers to run()."""
    from coba.experiments import Experiment
    from coba.evaluators import SequentialCB
    shape = dict(tr=[(e, l, v) for e in range(2) for l in range(2) for v in range(2)], ch=[1, 1], fail=[])     # the full product 2 x 2 x 2
    def parts():
        tr = explib.build(shape)
        envs = []; lrns = []; vals = []
        for e, l, v in tr:
            if not any(e is x for x in envs): envs.append(e)
            if not any(l is x for x in lrns): lrns.append(l)
            if not any(v is x for x in vals): vals.append(v)
        return tr, envs, lrns, vals
    def go(exp, **kw):
        explib.quiet_ctx(); return explib.result_digest(exp.run(quiet=True, **kw))
    tr, _, _, _ = parts(); ref = go(Experiment(tr), processes=1)
    runs = {}
    _, envs, lrns, vals = parts(); runs["cross product (lists)"] = lambda: go(Experiment(envs, lrns, vals), processes=1)
    _, envs, lrns, vals = parts(); runs["cross product (keywords)"] = lambda: go(Experiment(environments=envs, learners=lrns, evaluator=vals), processes=1)
    tr2, _, _, _ = parts(); runs["eval_tuples keyword + description"] = lambda: go(Experiment(eval_tuples=tr2, description="d"), processes=1)
    for name, f in runs.items():
        ctx.case("form:" + name)
        try: got = f()
        except Exception as e:
            ctx.violation("form-raises", "%s raised %s: %s" % (name, type(e).__name__, str(e)[:150]), dict(form=name)); continue
        got = dict(got); refx = dict(ref)
        if name.endswith("description"): got["exp"] = dict(got["exp"]); got["exp"].pop("description", None); refx["exp"] = dict(ref["exp"]); refx["exp"].pop("description", None)
        dd = explib.diff_digest(refx, got)
        if dd: ctx.violation("form-differs", "the experiment written as a %s gives another Result than the list of its triples: %s" % (name, dd), dict(form=name))
    # single objects instead of lists; pairs without evaluator
    sh1 = dict(tr=[(0, 0, 0)], ch=[0], fail=[])
    (e, l, v), = explib.build(sh1); a = go(Experiment([(e, l, SequentialCB())]), processes=1)
    for name, mk in (("single environment and learner", lambda e, l: Experiment(e, l)), ("pair without evaluator", lambda e, l: Experiment([(e, l)])),
                     ("single-element lists", lambda e, l: Experiment([e], [l], SequentialCB()))):
        (e, l, v), = explib.build(sh1)
        ctx.case("form:" + name)
        try: got = go(mk(e, l), processes=1)
        except Exception as ex:
            ctx.violation("form-raises", "%s raised %s: %s" % (name, type(ex).__name__, str(ex)[:150]), dict(form=name)); continue
        dd = explib.diff_digest(a, got)
        if dd: ctx.violation("form-differs", "%s gives another Result than [(env, learner, SequentialCB())]: %s" % (name, dd), dict(form=name))
    # config(...) instead of run(...) arguments, on the virtual multi-process layer
    for k, cfg in enumerate([dict(processes=2, maxchunksperchild=1, maxtasksperchunk=1), dict(processes=2, maxchunksperchild=0, maxtasksperchunk=2)]):
        tr3, _, _, _ = parts()
        def run_cfg_form():
            explib.quiet_ctx()
            return Experiment(tr3).config(**cfg).run(quiet=True)
        out, _ = vmp.run_scheduled(run_cfg_form, vsched.random_policy(random.Random(ctx.seed + k)))
        ctx.case("form:config%d" % k)
        if out["verdict"] != "ok" or "error" in out:
            ctx.violation("form-raises", "config(%s).run() did not complete: %s %r" % (cfg, out["verdict"], out.get("error")), dict(form="config", cfg=cfg)); continue
        dd = explib.diff_digest(ref, explib.result_digest(out["value"]))
        if dd: ctx.violation("form-differs", "config(%s).run() gives another Result than the in-process run: %s" % (cfg, dd), dict(form="config", cfg=cfg))


def run(ctx):
    rng = random.Random(ctx.seed)
    spec_runs(ctx)
    plan_checks(ctx)
    forms_checks(ctx, None)
    d = os.path.join(ctx.scratch, "runs"); os.makedirs(d, exist_ok=True)
    grid = [dict(p=p, mc=mc, mt=mt) for p in ctx.pick((1, 2), (1, 2, 3)) for mc in (0, 1, 2) for mt in (0, 1, 2)]
    nsched = ctx.pick(3, 4)       # schedules per (shape, variant, configuration); thorough: 8 shapes x 2 variants x 26 configurations x 4 = 1.7 k runs (6 and more did not finish their trace validation within an hour on a busy machine)
    traces = []; meta = []
    shapes = SHAPES[:ctx.pick(4, 6)] + explib.BUILTIN_SHAPES + SCORE_SHAPES
    nscore = len(SCORE_SHAPES)
    for si, shape in enumerate(shapes):
        for variant in range(ctx.pick(1, 2)):
            ref, run0, verdict = run_cfg(shape, dict(p=1, mc=0, mt=0), None, d, variant)
            if verdict != "ok": raise RuntimeError("reference run failed: %s" % verdict)
            tshape = dict(tr=[list(t) for t in shape["tr"]], ch=shape["ch"], fail=[list(t) for t in shape_fail(shape)])
            for cfg in shape.get("grid", grid):
                n = 1 if (cfg["p"] == 1 and cfg["mc"] == 0) else nsched
                for k in range(n):
                    sseed = rng.randrange(1 << 30)
                    case = dict(shape=si, variant=variant, cfg=cfg, sched_seed=sseed)
                    dig, run, verdict = run_cfg(shape, cfg, vsched.random_policy(random.Random(sseed)), d, variant)
                    if verdict != "ok":
                        ctx.case(json.dumps([si, variant, cfg, "fail"]))
                        ctx.violation("run-failed", "Experiment.run under %s did not complete: %s" % (cfg, verdict), case); continue
                    ctx.case(json.dumps([si, variant, cfg, run["recs"]]))
                    dd = explib.diff_digest(ref, dig)
                    case["result_diff"] = dd
                    traces.append(dict(shape=tshape, runs=[run])); meta.append(case)
    if traces: ctx.sample(traces[-1], limit=2)
    # every run's Result is compared below; its log is validated by TLC for all runs in quick and for a seeded sample of 500 in
    # thorough (the trace specification explores the interleavings of up to three workers for every log: ~20 k states per trace)
    pick = list(range(len(traces)))
    if len(pick) > 500: pick = sorted(rng.sample(pick, 500))
    ctx.extra["logs_validated_by_tlc"] = len(pick)
    rej = tracecheck.validate(ctx, "ExperimentLogTrace", "ExperimentLogTrace.cfg", [traces[i] for i in pick], name="c01_trace", workers=16)
    rej = [(pick[i], reason, pos) for i, reason, pos in rej]
    rejected = set()
    for i, reason, pos in rej:
        rejected.add(i)
        ctx.violation("trace-rejected", "%s (position code %s); result diff: %s; history=%s" % (reason, pos, meta[i]["result_diff"], json.dumps(traces[i]["runs"])[:500]), dict(meta[i], trace=traces[i]))
    for i, m in enumerate(meta):
        if m["result_diff"] and i not in rejected:
            ctx.violation("result-differs", "Result under %s differs from the in-process reference: %s" % (m["cfg"], m["result_diff"]), dict(m, trace=traces[i]))
    # ---- real spawn ----
    script = os.path.join(ctx.scratch, "real_exp.py")
    open(script, "w").write(REAL % os.path.dirname(os.path.dirname(os.path.dirname(os.path.abspath(__file__)))))
    real = ctx.pick([(0, dict(p=2, mc=1, mt=1)), (2, dict(p=2, mc=0, mt=0)), (len(shapes) - nscore - 2, dict(p=2, mc=1, mt=1))],
                    [(si, c) for si in range(len(shapes)) for c in (dict(p=2, mc=1, mt=1), dict(p=2, mc=0, mt=0), dict(p=3, mc=2, mt=2), dict(p=1, mc=1, mt=0))])
    # real processes only (each spawned interpreter has its own string-hash salt; the virtual layer has one): an environment whose
    # feature names are not ASCII.  Compared between in-process and real workers only - whether such names are accepted is not C01's subject
    shapes = shapes + [dict(tr=[(0, 0, 2), (1, 0, 2), (1, 1, 2)], ch=[0, 0], fail=[], nonascii=[1], n_int=12)]      # evaluator 2 records the context
    real = real + [(len(shapes) - 1, dict(p=2, mc=1, mt=1))]
    # what a process remembers from one evaluation to the next (module / class level state of the library) is shared by the virtual
    # processes but not by real ones: the shapes whose learners differ in `score`, on workers that are replaced after every chunk
    # (deterministic), after every second chunk and never
    ns0 = len(shapes) - 1 - nscore
    if ctx.quick: real = real + [(ns0, dict(p=1, mc=1, mt=0)), (ns0 + 1, dict(p=2, mc=1, mt=1)), (ns0 + 2, dict(p=1, mc=1, mt=1)), (ns0 + 1, dict(p=1, mc=2, mt=0))]
    for si, cfg in real:
        shape = shapes[si]
        ref = explib.result_digest(explib.run_inprocess(build(shape), seed=shape.get("seed", 1)))
        f = os.path.join(d, "real.log"); side = os.path.join(d, "real_side.txt")
        for x in (f, side):
            if os.path.exists(x): os.remove(x)
        open(side, "w").close()
        try:
            p = subprocess.run([sys.executable, "-W", "ignore", script, json.dumps([shape, cfg, f, side, 0])], capture_output=True, text=True, timeout=900,
                               env=dict(os.environ, PYTHONHASHSEED="random"))   # every spawned interpreter draws its own string-hash salt, as in ordinary use
            dig = json.loads(p.stdout.strip().splitlines()[-1])
        except subprocess.TimeoutExpired:
            ctx.violation("real-hang", "real multi-process run did not finish in 900 s", dict(shape=si, cfg=cfg)); continue
        except Exception:
            raise RuntimeError("real spawn experiment failed: %s %s" % (p.stdout[-300:], p.stderr[-1500:]))
        ctx.case(json.dumps(["real", si, cfg]))
        dd = explib.diff_digest(json.loads(json.dumps(ref)), dig)
        if dd: ctx.violation("real-result-differs", "Result under real spawn %s differs from in-process: %s" % (cfg, dd), dict(shape=si, cfg=cfg))
    ctx.extra["real_spawn_runs"] = len(real)
    ctx.assumptions += ["OS schedules of real worker processes are sampled; schedules are enumerated on the virtual layer, which shares all code except Process.start and the real queues",
                        "per-process globals (CobaContext logger/cacher/store/learning_info) are swapped per virtual process by the scheduler"]
